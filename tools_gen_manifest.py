"""Regenerates MANIFEST.json from the property modules that exist (development helper)."""
import json, importlib, sys
sys.path.insert(0, '.')
from kverif import props
BASE = json.load(open('/root/.vp/BASELINE.json'))
checks, na = [], []
NOTES = json.load(open('manifest_notes.json'))
for pid in props.ALL:
    n = NOTES.get(pid, {})
    try:
        m = props.load(pid)
    except ModuleNotFoundError:
        na.append({"property_id": pid, "reason": n.get("na_reason", "check under construction in this session (see DESIGN.md section 5 for the planned static clauses); not claimed until it runs clean on the unchanged tree")})
        continue
    checks.append({
        "property_id": pid,
        "quick_cmd": f"./vcheck {pid} --tier quick",
        "thorough_cmd": f"./vcheck {pid} --tier thorough",
        "evidence_file": f"/verif/evidence/{pid}.json",
        "replay_cmd_template": "./vcheck replay {path}",
        "engine": "kverif",
        "level_claimed": {"category": m.LEVEL, "text": n.get("text", ""), "design_ref": f"DESIGN.md section 5, {pid}"},
        "level_note": n.get("note", ""),
        "technique": m.TECHNIQUE,
    })
man = {
    "version": 1,
    "setup_cmd": "./vcheck selftest --controls",
    "hooks": {"guard": "KIO_VERIF", "enable": "none needed: the checks read /repo's source text and never build or import it",
              "baseline_off_cmd": BASE["cmd"].replace("--junitxml=<file>", "").strip(), "source_commits": [], "add_only": True},
    "engines": [{"name": "kverif", "path": "/verif/kverif", "serves_properties": [c["property_id"] for c in checks],
                 "kind_free_text": "pure-stdlib static analyser: AST schema model, resolved symbol model, path-sensitive abstract interpreter with symbolic wire/value terms, spec tables, stream-capability / exception-flow / time-exactness analyses"}],
    "checks": checks,
    "notes": "Static analysis only: no registered command imports or executes code from /repo. Exit 2 + 'ANALYSIS-ERROR' means the analyser could not decide (never reported as a violation).",
    "not_applicable": na,
}
json.dump(man, open('MANIFEST.json', 'w'), indent=1)
print(len(checks), 'checks', len(na), 'n/a')
