"""C12 -- primitive value types denote exactly their wire domains."""
from __future__ import annotations

import datetime as _dt
import struct as _struct

from .. import timeflow
from ..core import AnalysisError
from ..grammar import SPEC_PYTYPE, SPEC_FIXED
from ..interp_base import Raised, Run, Limit, short_exc
from ..plans import export_desc
from ..values import ClassV, FuncV, LibFn, Sym, LibClass, show_term, EnumMemberV

PID = "C12"
LEVEL = "other"
TECHNIQUE = ("abstract interpretation of the phantom-type machinery (metaclass __call__/__instancecheck__, "
             "__init_subclass__, interval predicates) with a symbolic argument: path conditions of the accepting path are "
             "compared with the documented closed ranges; three-table join type -> writer -> struct format; E6 on the "
             "time predicates")

INTS = {"i8": (8, True), "i16": (16, True), "i32": (32, True), "i64": (64, True),
        "u8": (8, False), "u16": (16, False), "u32": (32, False), "u64": (64, False)}
VARINTS = {"uvarint": (0, 2 ** 35 - 1), "uvarlong": (0, 2 ** 70 - 1), "svarint": (-(2 ** 34), 2 ** 34 - 1),
           "svarlong": (-(2 ** 69), 2 ** 69 - 1)}
FMT_RANGE = {"b": (8, True), "B": (8, False), "h": (16, True), "H": (16, False), "i": (32, True), "I": (32, False),
             "q": (64, True), "Q": (64, False)}


def rng(bits, signed):
    return (-(1 << (bits - 1)), (1 << (bits - 1)) - 1) if signed else (0, (1 << bits) - 1)


def accept_conditions(I, cls, sym):
    """Explore cls(sym) (metaclass call -> parse): returns (accepting paths, rejecting paths)."""
    paths = I.explore(lambda run: I.call(cls, [sym], {}, run, None))
    acc = [p for p in paths if p.outcome == "return"]
    rej = [p for p in paths if p.outcome == "raise"]
    return acc, rej


def bounds_from_facts(facts, term):
    """Closed bounds implied by facts of the form const <= term, term <= const (all True)."""
    lo = hi = None
    strict = []
    for f in facts:
        t, pol = f[0], f[1]
        if t[0] in ("le", "lt", "ge", "gt") and len(t) == 3:
            a, b = t[1], t[2]
            if b == term and a[0] == "k" and pol and t[0] == "le":
                lo = a[1]
            elif a == term and b[0] == "k" and pol and t[0] == "le":
                hi = b[1]
            elif b == term and a[0] == "k" and pol and t[0] == "ge":
                hi = a[1]
            elif a == term and b[0] == "k" and pol and t[0] == "ge":
                lo = b[1]
            else:
                strict.append((t, pol))
    return lo, hi, strict


def check(rep, ctx):
    I = ctx.interp
    P = ctx.plans
    rep.explanation = (
        "Membership of individual values is what the predicate *is*; decided here is that the predicate and the mechanics "
        "are the documented ones: calling a type with a symbolic argument is interpreted through PhantomMeta.__call__, "
        "Phantom.parse, __instancecheck__ and the interval predicate from source; the accepting path must return the "
        "argument unchanged under exactly the conditions low <= v <= high (closed on both ends) with the two's-complement "
        "/ unsigned bounds of the width, every other path must raise TypeError; the class hierarchy nests the integer "
        "types and their intervals; for every fixed-width kafka type the interval of the declared type lies inside the "
        "range of the struct format the dispatch table's writer packs with; duration bounds are whole-millisecond "
        "constants inside the wire range; the timestamp predicate admits millisecond granularity, requires an aware "
        "datetime and a non-negative timestamp; durations read back exactly (E6 T-float64).")
    R_I = rep.rule("C12-interval", "integer types: accepted iff low <= v <= high with the bounds of their width; value "
                   "returned unchanged; TypeError otherwise", floor=12)
    R_N = rep.rule("C12-nesting", "i8 < i16 < i32 < i64 and u8 < u16 < u32 < u64 by class and by interval", floor=6)
    R_W = rep.rule("C12-type-writer", "every member of the declared type is packable by the writer selected for the kafka type", floor=8)
    R_D = rep.rule("C12-duration", "duration types: whole-millisecond bounds inside the wire range; exact read-back", floor=4)
    R_T = rep.rule("C12-timestamp", "timestamp type: aware, non-negative, millisecond granularity", floor=3)
    R_F = rep.rule("C12-float", "f64 accepts exactly the finite floats", floor=1)
    try:
        prim = I.module("kio.static.primitive")
    except (Raised, Limit) as e:
        raise AnalysisError(f"kio.static.primitive not understood: {e}")
    pv = prim.env.vars
    file = ctx.sm.require("kio.static.primitive").rel
    expected = {n: rng(*w) for n, w in INTS.items()}
    expected.update(VARINTS)
    concrete_members = [(True, "True")]
    try:
        ec_ = I.module("kio.schema.errors").env.vars.get("ErrorCode")
        m_ = next((m for m in (ec_.flags.get("enum") or {}).values() if getattr(m, "name", "") == "not_coordinator"), None) if isinstance(ec_, ClassV) else None
        if m_ is not None:
            concrete_members.append((m_, "ErrorCode.not_coordinator"))
    except (Raised, Limit):
        pass
    for name, (lo, hi) in sorted(expected.items()):
        cls = pv.get(name)
        if not isinstance(cls, ClassV):
            raise AnalysisError(f"anchor vanished: kio.static.primitive.{name}")
        v = Sym(("param", "v"), "int")
        try:
            acc, rej = accept_conditions(I, cls, v)
        except Limit as e:
            raise AnalysisError(f"{name}(v) not understood: {e}")
        problems = []
        if len(acc) != 1:
            problems.append(f"{len(acc)} accepting paths")
        else:
            p = acc[0]
            if not (isinstance(p.value, Sym) and p.value.term == v.term):
                problems.append(f"the constructor returns {p.value!r}, not its argument")
            glo, ghi, other = bounds_from_facts(p.facts, v.term)
            if (glo, ghi) != (lo, hi):
                problems.append(f"accepted range is [{glo}, {ghi}], documented [{lo}, {hi}]")
            if other:
                problems.append(f"additional conditions {[show_term(t) for t, _ in other]}")
        bad = sorted({short_exc(p.value.cls) for p in rej} - {"TypeError"})
        if bad or not rej:
            problems.append(f"rejection raises {bad or 'nothing'} instead of TypeError")
        for other_v, label in ((Sym(("param", "s"), "str"), "str"), (Sym(("param", "f"), "float"), "float")):
            a2, r2 = accept_conditions(I, cls, other_v)
            if a2:
                problems.append(f"a {label} is accepted")
        # "returned unchanged": a member that is an instance of an int subclass (a bool, an IntEnum member) comes back as the same object,
        # not as a plain int of the same value
        for probe, label in concrete_members:
            pv_ = probe.value if isinstance(probe, EnumMemberV) else int(probe)
            if not (lo <= pv_ <= hi):
                continue
            try:
                res = I.call(cls, [probe], {}, Run(), None)
            except Raised:
                continue  # not accepted at all: membership of such values is decided by the symbolic rule above
            except Limit as e:
                rep.limit(f"{name}({label}) not evaluated: {e}")
                continue
            if res is not probe:
                problems.append(f"{name}({label}) returns {res!r}, not the object it was given (the member is accepted but not returned unchanged)")
        rep.check(R_I, not problems, construct=f"kio.static.primitive:{name}", stmt=f"class {name}: low={lo} high={hi}",
                  message="; ".join(problems), file=file, line=cls.node.lineno)
    rep.sample({"rule": "C12-interval", "type": "i16", "accepting_path_conditions": "-32768 <= v and v <= 32767", "returns": "v"})
    for chain in (("i8", "i16", "i32", "i64"), ("u8", "u16", "u32", "u64")):
        for a, b in zip(chain, chain[1:]):
            ca, cb = pv[a], pv[b]
            la, ha = I.class_lookup(ca, "__low__"), I.class_lookup(ca, "__high__")
            lb, hb = I.class_lookup(cb, "__low__"), I.class_lookup(cb, "__high__")
            ok = I.is_subclass(ca, cb) and not I.is_subclass(cb, ca) and lb <= la and ha <= hb
            rep.check(R_N, ok, construct=f"kio.static.primitive:{a}", stmt=f"class {a}({[x.name for x in ca.bases]})",
                      message=f"{a} [{la},{ha}] is not nested in {b} [{lb},{hb}] by class and interval", file=file, line=ca.node.lineno)
    # type -> writer -> format
    sm = I.module("kio.serial._serialize")
    gw = sm.env.vars.get("get_writer")
    if not isinstance(gw, FuncV):
        raise AnalysisError("anchor vanished: get_writer")
    for kt, fmt in sorted(SPEC_FIXED.items()):
        code = fmt[-1]
        if code not in FMT_RANGE or kt in ("error_code", "timedelta_i32", "timedelta_i64", "datetime_i64"):
            continue
        tname = SPEC_PYTYPE[kt].split(":")[1]
        cls = pv.get(tname)
        if not isinstance(cls, ClassV):
            continue
        lo, hi = I.class_lookup(cls, "__low__"), I.class_lookup(cls, "__high__")
        try:
            w = I.call(gw, [], {"kafka_type": kt, "flexible": False, "optional": False}, Run(), None)
        except Raised as r:
            rep.check(R_W, False, construct=gw.ref, stmt=f"get_writer({kt!r})", message=f"no writer: {r.exc!r}")
            continue
        d = export_desc(P.D.writer_desc(w, cls))
        wf = (d.get("prefix") or {}).get("fmt")
        ok = d.get("k") == "scalar" and wf and wf[-1] in FMT_RANGE
        if ok:
            flo, fhi = rng(*FMT_RANGE[wf[-1]])
            ok = flo <= lo and hi <= fhi and d.get("conv") == ["X"]
        rep.check(R_W, bool(ok), construct=w.ref, stmt=f"{kt}: type {tname} [{lo},{hi}] written with {wf!r}",
                  message=f"members of {tname} [{lo},{hi}] are not all packable with format {wf!r} (or the value is transformed: {d.get('conv')})",
                  file=ctx.sm.require("kio.serial.writers").rel, line=w.node.lineno)
    # durations
    for name, fmt, kt in (("i32Timedelta", ">i", "timedelta_i32"), ("i64Timedelta", ">q", "timedelta_i64")):
        cls = pv.get(name)
        if not isinstance(cls, ClassV):
            raise AnalysisError(f"anchor vanished: {name}")
        v = Sym(("param", "v"), "timedelta")
        acc, rej = accept_conditions(I, cls, v)
        problems = []
        if len(acc) != 1:
            problems.append(f"{len(acc)} accepting paths")
        else:
            glo, ghi, other = bounds_from_facts(acc[0].facts, v.term)
            flo, fhi = rng(*FMT_RANGE[fmt[-1]])
            one = _dt.timedelta(milliseconds=1)
            if not isinstance(glo, _dt.timedelta) or not isinstance(ghi, _dt.timedelta):
                problems.append(f"bounds are not timedelta constants: {glo!r}, {ghi!r}")
            else:
                lo_ms, hi_ms = glo // one, ghi // one
                if glo % one or (name == "i32Timedelta" and ghi % one):
                    problems.append("bounds are not whole milliseconds")
                if lo_ms < flo or hi_ms > fhi:
                    problems.append(f"bounds [{lo_ms}, {hi_ms}] ms exceed the wire range [{flo}, {fhi}]")
                if name == "i32Timedelta" and (lo_ms, hi_ms) != (flo, fhi):
                    problems.append(f"bounds [{lo_ms}, {hi_ms}] ms are not the int32 range")
            if other:
                problems.append(f"additional conditions {[show_term(t) for t, _ in other]}")
        rep.check(R_D, not problems, construct=f"kio.static.primitive:{name}", stmt=f"class {name}", message="; ".join(problems),
                  file=file, line=cls.node.lineno)
        w = I.call(gw, [], {"kafka_type": kt, "flexible": False, "optional": False}, Run(), None)
        d = export_desc(P.D.writer_desc(w, cls))
        q, issues = timeflow.write_side(d.get("conv"), 32 if fmt == ">i" else 64, "duration") if d.get("k") == "scalar" else (None, [("T-?", "writer not scalar", "")])
        issues = [i for i in issues if i[0] in ("T-float64", "T-trunc", "T-?", "T-epoch")]
        if q is None and not issues:
            rep.limit(f"{w.ref}: duration writer conversion not understood: {timeflow.show(d.get('conv'))[:160]}")
            continue
        rep.check(R_D, q is not None and not issues, construct=w.ref, stmt=timeflow.show(d.get("conv")),
                  message="; ".join(f"{r}: {m}" for r, m, _ in issues) or "writer conversion not understood",
                  file=ctx.sm.require("kio.serial.writers").rel, line=w.node.lineno)
    # rounding of sub-millisecond durations: to the nearest millisecond, ties to even (what round() does, and what the comment in
    # writers.py promises) -- decided by evaluating the writers (E2) on the finitely many orderings: below / at / above a tie, odd and
    # even whole part, both signs
    R_R = rep.rule("C12-duration-rounding", "the duration writers round a sub-millisecond value to the nearest millisecond, ties to even", floor=20)
    import struct as _st
    from ..values import StreamV
    wmod = I.module("kio.serial.writers")
    for wname, fmt in (("write_timedelta_i32", ">i"), ("write_timedelta_i64", ">q")):
        wf = wmod.env.vars.get(wname)
        if not isinstance(wf, FuncV):
            raise AnalysisError(f"anchor vanished: kio.serial.writers.{wname}")
        for us in (0, 1, 499, 500, 501, 999, 1000, 1499, 1500, 1501, 2500, 3500, 4500, -1, -499, -500, -501, -1500, -2500, 123456500, 123457500):
            want = round(us / 1000) if abs(us) < 10 ** 9 else None
            # exact reference: round-half-even of the rational us/1000
            q_, r_ = divmod(us, 1000)
            want = q_ + (1 if (r_ > 500 or (r_ == 500 and q_ % 2)) else 0)
            run_ = Run()
            try:
                I.call(wf, [StreamV("param"), _dt.timedelta(microseconds=us)], {}, run_, None)
            except Raised as r:
                rep.check(R_R, False, construct=wf.ref, stmt=f"{wname}(timedelta(microseconds={us}))", message=f"raises {short_exc(r.cls)}",
                          file=ctx.sm.require("kio.serial.writers").rel, line=wf.node.lineno)
                continue
            except Limit as e:
                rep.limit(f"{wf.ref}: not evaluated on a concrete duration: {e}")
                break
            ws = [e for e in run_.effects if e[0] == "write"]
            got = _st.unpack(fmt, ws[0][2])[0] if len(ws) == 1 and isinstance(ws[0][2], bytes) and len(ws[0][2]) == _st.calcsize(fmt) else None
            if got is None:
                rep.limit(f"{wf.ref}: the bytes written for a concrete duration are not constant")
                break
            rep.check(R_R, got == want, construct=wf.ref, stmt=f"{wname}(timedelta(microseconds={us}))",
                      message=f"timedelta(microseconds={us}) is written as {got} ms; to the nearest millisecond, ties to even, it is {want}",
                      file=ctx.sm.require("kio.serial.writers").rel, line=wf.node.lineno)
    # timestamp
    tname = SPEC_PYTYPE["datetime_i64"].split(":")[1]
    tz = pv.get(tname)
    if not isinstance(tz, ClassV):
        raise AnalysisError(f"anchor vanished: {tname}")
    pred = I.class_lookup(tz, "__predicate__")
    if not isinstance(pred, FuncV):
        raise AnalysisError(f"{tname}.__predicate__ is not a function defined in the repository")
    dtv = Sym(("param", "dt"), "datetime")
    paths = I.explore(lambda run: I.truth(I.call(pred, [dtv], {}, run, None), run, None))
    acc = [p for p in paths if p.outcome == "return" and p.value is True]
    micro = ("attr", dtv.term, "microsecond")
    gran_problem, aware, nonneg = [], False, False
    for p in acc:
        for f in p.facts:
            t, pol = f[0], f[1]
            if t[0] == "eq" and t[1] == micro and t[2] == ("k", 0) and pol:
                gran_problem.append("requires dt.microsecond == 0: only whole-second datetimes are members, a wire value of 1500 ms has no representation")
            if t[0] == "is" and t[1] == ("attr", dtv.term, "tzinfo") and not pol:
                aware = True
            if t[0] == "ge" and t[1][0] in ("timestamp", "timegm") and t[2] == ("k", 0) and pol:
                nonneg = True  # the instant in seconds since the epoch, however it is obtained
        def _micro_of_dt(t_):
            # dt.microsecond, or the microsecond of dt converted to another zone (the precision of the instant)
            return isinstance(t_, tuple) and len(t_) == 3 and t_[0] == "attr" and t_[2] == "microsecond" and \
                (t_[1] == dtv.term or (isinstance(t_[1], tuple) and t_[1][:2] == ("astimezone", dtv.term)))
        ms_ok = any(f[0][0] == "eq" and isinstance(f[0][1], tuple) and f[0][1][0] == "mod" and _micro_of_dt(f[0][1][1]) and f[0][1][2] == ("k", 1000)
                    and f[0][2] == ("k", 0) and f[1] for f in p.facts)
        if not ms_ok and not gran_problem:
            gran_problem.append("does not restrict the value to whole milliseconds (dt.microsecond % 1000 == 0)")
    src_line = pred.node.lineno
    rep.check(R_T, bool(acc) and not gran_problem, construct=pred.ref, stmt="dt.microsecond == 0" if gran_problem and "== 0" in gran_problem[0] else "granularity test",
              message="; ".join(gran_problem) or "no accepting path", file=file, line=src_line)
    rep.check(R_T, aware, construct=pred.ref, stmt="dt.tzinfo is not None", message="the predicate does not require an aware datetime",
              file=file, line=src_line, instance="aware")
    rep.check(R_T, nonneg, construct=pred.ref, stmt="dt.timestamp() >= 0", message="the predicate does not require a non-negative timestamp",
              file=file, line=src_line, instance="nonneg")
    # the membership test is total: it answers True/False for every datetime and raises for none
    raising = []
    for p in paths:
        if p.outcome == "raise":
            raising.append(f"raises {short_exc(p.value.cls)} at {p.value.attrs.get('__site__', '?')}")
        for e in p.effects:
            if e[0] == "may-raise":
                raising.append(f"may raise {e[1]} ({e[3]}) at {e[2]}")
    rep.check(R_T, not raising, construct=pred.ref, stmt="membership test raises", message="the predicate of the timestamp type is not total: " +
              "; ".join(sorted(set(raising))[:3]) + " -- isinstance(x, TZAware) / TZAware(x) must answer False / TypeError for a non-member and "
              "accept a member, never leak another exception", file=file, line=src_line, instance="total")
    # every member of the duration / timestamp types reads back: the time readers accept every wire value a member is written as
    from .wire import Wire, scalar_reader_domain_rows
    for ok_, c_, stmt_, msg_, line_ in scalar_reader_domain_rows(Wire(ctx).bundle["primitives"]):
        if not any(k_ in c_ for k_ in ("datetime", "timedelta")):
            continue
        if ok_ is None:
            rep.limit(f"{c_}: {msg_}")
            continue
        rep.check(R_T if "datetime" in c_ else R_D, ok_, construct=c_, stmt=stmt_,
                  message=msg_ + " -- a member of the value type is written but does not read back", file="src/kio/serial/readers.py", line=line_,
                  instance=f"reads-back|{c_}")
    # every member of the timestamp type is written exactly (E6 on the writer the table selects)
    for opt in (False, True):
        w = I.call(gw, [], {"kafka_type": "datetime_i64", "flexible": False, "optional": opt}, Run(), None)
        from ..values import UnionV as _U
        d = export_desc(P.D.writer_desc(w, _U((tz, None)) if opt else tz))
        q, issues = timeflow.write_side(d.get("conv"), 64, "timestamp") if d.get("k") == "scalar" else (None, [("T-?", "writer not scalar", "")])
        issues = [i for i in issues if i[0] in ("T-trunc", "T-unit", "T-int", "T-?", "T-epoch")]
        if q is None and not issues:
            rep.limit(f"{w.ref}: timestamp writer conversion not understood: {timeflow.show(d.get('conv'))[:160]}")
            continue
        rep.check(R_T, q is not None and not issues, construct=w.ref, stmt=timeflow.show(d.get("conv")),
                  message="; ".join(f"{r}: {m}" for r, m, _ in issues) or "writer conversion not understood",
                  file=ctx.sm.require("kio.serial.writers").rel, line=w.node.lineno, instance=f"writer|{opt}")
    # memoisation inside the value-type machinery must not collapse equal-but-different values
    from .. import scan
    R_M = rep.rule("C12-memo", "no membership test or constructor of the value types is memoised on the value", floor=0)
    for m in scan.memoised_functions(ctx, ["kio.static._phantom", "kio.static.primitive", "kio.static.constants", "kio._utils"]):
        rep.check(R_M, not m["bad_params"], construct=f"{m['module']}:{m['function']}", stmt=m["stmt"],
                  message=f"memoised on parameters {m['bad_params']}: 1 == 1.0 == True share one cache entry, so isinstance(1.0, i32) "
                          f"answers whatever isinstance(1, i32) answered before", file=m["file"], line=m["line"])
    rep.count(R_M, 1, instance="scan")
    # f64
    f64 = pv.get("f64")
    pr = I.class_lookup(f64, "__predicate__") if isinstance(f64, ClassV) else None
    import math as _math
    import sys as _sys
    fl_ok, fl_why = isinstance(pr, LibFn) and pr.name == "math.isfinite", f"predicate is {pr!r}"
    if isinstance(pr, FuncV):
        # a hand-written predicate touches its argument through comparisons only: decide it on one representative of every
        # ordering class of binary64 (finite extremes and zeros, the infinities, NaN which is unordered)
        fl_ok, probs = True, []
        for v, want in ((0.0, True), (-0.0, True), (1.5, True), (_sys.float_info.max, True), (-_sys.float_info.max, True),
                        (5e-324, True), (_math.inf, False), (-_math.inf, False), (_math.nan, False)):
            try:
                got = I.call(pr, [v], {}, Run(), None)
            except Raised as r:
                got = f"raises {short_exc(r.cls)}"
            except Limit as e:
                raise AnalysisError(f"f64 predicate {pr.ref} not understood: {e}")
            if got is not want:
                probs.append(f"{pr.ref.split(':')[-1]}({v!r}) is {got!r}, the type's domain (finite binary64) says {want}")
        fl_ok, fl_why = not probs, "; ".join(probs)
    rep.check(R_F, fl_ok and I.class_lookup(f64, "__bound__") is LibClass.get("float"),
              construct="kio.static.primitive:f64", stmt=f"class f64(float, Phantom, bound=float, predicate={getattr(pr, 'ref', getattr(pr, 'name', pr))})",
              message=f"f64's bound is {I.class_lookup(f64, '__bound__')!r}; {fl_why}", file=file,
              line=f64.node.lineno if isinstance(f64, ClassV) else 0)
    rep.trusted_base += ["kverif E2 interpretation of PhantomMeta / Phantom / Interval from source", "struct format ranges"]
