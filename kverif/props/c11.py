"""C11 -- primitive readers and writers implement the Kafka primitive encodings."""
from __future__ import annotations

from .. import timeflow, varint
from ..core import AnalysisError
from ..grammar import (KAFKA_TYPES, NULLABLE_KAFKA, SPEC_PYTYPE, spec_primitive, spec_array, neutral_r, neutral_w,
                       cmp_reader, cmp_writer, cmp_rw)
from ..interp_base import Raised, Run, Limit, short_exc
from ..plans import analyse_primitives, export_desc
from ..values import FuncV, UnionV, LibClass

PID = "C11"
LEVEL = "other"
TECHNIQUE = ("path summaries of all public functions of kio.serial.readers/writers compared with spec rows; exhaustive "
             "evaluation of the get_reader/get_writer dispatch tables; bit-level abstract interpretation (GF(2)-affine bit "
             "vectors) of the varint reader, the varint writer and the zig-zag conversions, incl. reader-after-writer identity")

TIME = {"timedelta_i32": ("duration", 32), "timedelta_i64": ("duration", 64), "datetime_i64": ("timestamp", 64)}


def resolve_type(I, ref):
    mod, name = ref.split(":")
    if mod == "builtins":
        return LibClass.get(name)
    if mod == "uuid":
        return LibClass.get("uuid.UUID")
    return I.import_attr(mod, name)


def rng_(bits, signed):
    return (-(1 << (bits - 1)), (1 << (bits - 1)) - 1) if signed else (0, (1 << bits) - 1)


def check(rep, ctx):
    P = ctx.plans
    I, D, A = P.I, P.D, P.A
    rep.explanation = (
        "Over the whole value domain this is numerics; decided here: for each public reader/writer the descriptor derived "
        "from its paths equals the spec row it is dispatched for (format, width, byte order, prefix kind, bias, null "
        "sentinel and null behaviour, payload kind) and agrees with its sibling; the two dispatch tables are evaluated "
        "for every (kafka type, flexible, optional) and must be total where the protocol has an encoding; varints: the "
        "reader's k-byte path yields exactly the low seven bits of each byte (least significant group first) and "
        "continues iff bit 7 is set, for at most 5 / 10 bytes; the writer's k-byte path emits the canonical groups and is "
        "taken iff the value needs k groups (minimal length); substituting the writer's bytes into the reader yields the "
        "value (reader after writer is the identity on the whole unsigned domain); zig-zag encode is (v << 1) ^ (v >> w-1), "
        "non-negative on the w-bit domain, and decode(encode(v)) = v -- all decided in a bit-vector domain without "
        "enumeration. Length-limited writers guard the length with a raise. Time and error codecs: E6 rules.")
    R_T = rep.rule("C11-table", "get_reader/get_writer are total where the protocol has an encoding and select a function "
                   "whose grammar is the spec row", floor=100)
    R_S = rep.rule("C11-sibling", "the selected reader accepts what the selected writer emits", floor=40)
    R_F = rep.rule("C11-function", "public function's grammar = the spec row for its role", floor=12)
    R_V = rep.rule("C11-varint", "varint reader/writer bit-level structure, minimality, reader-after-writer identity, zig-zag", floor=7)
    R_L = rep.rule("C11-limits", "length-limited writers raise instead of wrapping", floor=5)
    R_E = rep.rule("C11-time", "time codecs: exact conversions (E6)", floor=6)
    limits: list[str] = []
    R_N = rep.rule("C11-census", "every public function of readers/writers was examined", floor=60)
    try:
        pm, sm = I.module("kio.serial._parse"), I.module("kio.serial._serialize")
        rm, wm = I.module("kio.serial.readers"), I.module("kio.serial.writers")
    except Raised as r:
        raise AnalysisError(f"importing kio.serial raises {r.exc!r}")
    get_reader, get_writer = pm.env.vars.get("get_reader"), sm.env.vars.get("get_writer")
    if not isinstance(get_reader, FuncV) or not isinstance(get_writer, FuncV):
        raise AnalysisError("anchor vanished: get_reader / get_writer")
    rfile, wfile = ctx.sm.require("kio.serial.readers").rel, ctx.sm.require("kio.serial.writers").rel
    kts = sorted(KAFKA_TYPES)
    for kt in kts:
        for flex in (False, True):
            for opt in (False, True):
                spec = spec_primitive(kt, flex, opt or kt == "uuid")
                must = (not opt) or kt in NULLABLE_KAFKA
                sel = {}
                for side, fn in (("reader", get_reader), ("writer", get_writer)):
                    try:
                        sel[side] = I.call(fn, [], {"kafka_type": kt, "flexible": flex, "optional": opt}, Run(), None)
                    except Raised as r:
                        sel[side] = ("raise", short_exc(r.cls))
                    except Limit as e:
                        raise AnalysisError(f"{fn.ref} not understood: {e}")
                row = f"({kt!r}, flexible={flex}, optional={opt})"
                for side in ("reader", "writer"):
                    v = sel[side]
                    src = ctx.sm.require("kio.serial._parse" if side == "reader" else "kio.serial._serialize")
                    gfn = get_reader if side == "reader" else get_writer
                    if isinstance(v, tuple):
                        rep.check(R_T, not must, construct=gfn.ref, stmt=f"case {row}",
                                  message=f"{gfn.name}{row} raises {v[1]} but the protocol has an encoding for it", file=src.rel,
                                  line=gfn.node.lineno, instance=f"{side}|{row}")
                        continue
                    if not must:
                        rep.count(R_T, 1, instance=f"{side}|{row}|extra")
                        continue
                    if side == "reader":
                        d = neutral_r(export_desc(D.reader_desc(v)))
                        diffs = cmp_reader(d, spec, row)
                    else:
                        t = resolve_type(I, SPEC_PYTYPE[kt])
                        vt = UnionV((t, None)) if (opt or kt == "uuid") else t
                        d = neutral_w(export_desc(D.writer_desc(v, vt)))
                        diffs = cmp_writer(d, spec, row)
                    if d.get("k") == "opaque" or (d.get("item") or {}).get("k") == "opaque":
                        limits.append(f"{v.ref} (selected for {row}) not understood: {d.get('reason')}")
                        continue
                    rep.check(R_T, not diffs, construct=gfn.ref, stmt=f"case {row}: return {v.ref.split(':')[1]}",
                              message="; ".join(diffs), file=src.rel, line=gfn.node.lineno, instance=f"{side}|{row}",
                              details={"selected": v.ref, "grammar": d, "spec": spec})
                    sel[side + "_d"] = d
                if "reader_d" in sel and "writer_d" in sel:
                    diffs = cmp_rw(sel["reader_d"], sel["writer_d"], row)
                    rep.check(R_S, not diffs, construct=sel["reader"].ref, stmt=f"{row}: {sel['reader'].ref} / {sel['writer'].ref}",
                              message="; ".join(diffs), file=rfile, line=sel["reader"].node.lineno, instance=row)
    # all public functions ------------------------------------------------------------------------
    prims = analyse_primitives(P)
    name_spec_r = {
        "read_unsigned_varint": {"k": "scalar", "prefix": {"k": "varint", "max": 5}, "conv": "identity", "null": None},
        "read_unsigned_varlong": {"k": "scalar", "prefix": {"k": "varint", "max": 10}, "conv": "identity", "null": None},
        "read_legacy_array_length": {"k": "scalar", "prefix": {"k": "fixed", "fmt": ">i"}, "conv": "identity", "null": None},
        "read_compact_array_length": {"k": "scalar", "prefix": {"k": "varint", "max": 5}, "conv": "conv:(X - 1)", "null": None},
        "compact_array_reader": spec_array(True, True, spec_primitive("int32", True, False)),
        "legacy_array_reader": spec_array(False, True, spec_primitive("int32", False, False)),
    }
    name_spec_w = {
        "write_unsigned_varint": {"k": "scalar", "prefix": {"k": "varint", "max": 5}, "conv": "identity", "null": None},
        "write_unsigned_varlong": {"k": "scalar", "prefix": {"k": "varint", "max": 5}, "conv": "identity", "null": None},
        "write_legacy_array_length": {"k": "scalar", "prefix": {"k": "fixed", "fmt": ">i"}, "conv": "identity", "null": None},
        "write_compact_array_length": {"k": "scalar", "prefix": {"k": "varint", "max": 5}, "conv": "conv:(X + 1)", "null": None},
        "compact_array_writer": spec_array(True, True, spec_primitive("int32", True, False)),
        "legacy_array_writer": spec_array(False, True, spec_primitive("int32", False, False)),
    }
    for side, table, specs, cmpf, neut, file in (("readers", prims["readers"], name_spec_r, cmp_reader, neutral_r, rfile),
                                                 ("writers", prims["writers"], name_spec_w, cmp_writer, neutral_w, wfile)):
        for name, rec in sorted(table.items()):
            rep.count(R_N, 1, instance=f"{side}.{name}")
            d = rec.get("desc")
            if d is not None and (d.get("k") == "opaque" or (d.get("item") or {}).get("k") == "opaque"):
                limits.append(f"kio.serial.{side}.{name} not understood: {d.get('reason') or (d.get('item') or {}).get('reason')}")
                continue
            if name in specs:
                n = neut(d)
                diffs = cmpf(n, specs[name], name)
                rep.check(R_F, not diffs, construct=f"kio.serial.{side}:{name}", stmt=name, message="; ".join(diffs), file=file,
                          line=rec["line"], details={"grammar": n, "spec": specs[name]})
            if side == "writers" and d is not None and d.get("k") in ("lenpref", "array") and d["prefix"].get("k") == "fixed":
                guards = d.get("guards") or []
                ok = any(g.get("else") and all(e in ("OutOfBoundValue", "struct.error", "TypeError", "ValueError", "OverflowError")
                                              for e in g["else"]) for g in guards)
                rep.check(R_L, ok, construct=f"kio.serial.writers:{name}", stmt=f"{name}: length guard {guards}",
                          message="a legacy (fixed-width) length is written without a guard that raises for an over-long value",
                          file=file, line=rec["line"])
                from ..grammar import max_len_accepted, length_capacity
                cap, mx = length_capacity(d["prefix"], d.get("bias", 0)), max_len_accepted(guards)
                rep.check(R_L, mx is None or cap is None or mx >= cap, construct=f"kio.serial.writers:{name}",
                          stmt=f"{name}: accepts lengths up to {mx}, {d['prefix']['fmt']} carries {cap}",
                          message=f"the writer rejects lengths above {mx} although its {d['prefix']['fmt']} prefix carries up to {cap}",
                          file=file, line=rec["line"], instance=f"{name}|domain")
            if d is not None and d.get("k") == "scalar":
                role = next((kt for kt in TIME if name.endswith(kt) or name.endswith(kt.replace("_i", "_i"))), None)
                for kt, (kind, bits) in TIME.items():
                    if name in (f"read_{kt}", f"read_nullable_{kt}", f"write_{kt}", f"write_nullable_{kt}"):
                        q, issues = (timeflow.read_side if side == "readers" else timeflow.write_side)(d["conv"], bits, kind)
                        issues = [i for i in issues if i[0] in ("T-gran", "T-float64", "T-trunc", "T-epoch")]
                        if q is None:
                            rep.limit(f"kio.serial.{side}:{name}: time conversion not understood: {timeflow.show(d['conv'])[:160]}")
                            continue
                        rep.check(R_E, not issues, construct=f"kio.serial.{side}:{name}", stmt=timeflow.show(d["conv"]),
                                  message="; ".join(f"{r}: {m}" for r, m, _ in issues), file=file, line=rec["line"])
    # the guards of an integer writer admit every value of its documented domain ------------------------------
    from ..grammar import eval_int_term, domain_points
    R_D = rep.rule("C11-w-domain", "an integer writer raises for no value of the domain its encoding is defined on (range guards are "
                   "evaluated at the boundary values of the domain)", floor=12,
                   necessary_because="a magnitude test abs(v) >> 31 rejects -2**31, which has the zig-zag encoding ff ff ff ff 0f")
    W_DOMAIN = {"write_int8": rng_(8, True), "write_int16": rng_(16, True), "write_int32": rng_(32, True), "write_int64": rng_(64, True),
                "write_uint8": rng_(8, False), "write_uint16": rng_(16, False), "write_uint32": rng_(32, False), "write_uint64": rng_(64, False),
                "write_unsigned_varint": (0, 2 ** 31 - 1), "write_unsigned_varlong": (0, 2 ** 63 - 1),
                "write_signed_varint": rng_(32, True), "write_signed_varlong": rng_(64, True),
                "write_legacy_array_length": (-1, 2 ** 31 - 1), "write_compact_array_length": (-1, 2 ** 31 - 1)}
    for name, (lo, hi) in W_DOMAIN.items():
        rec = prims["writers"].get(name)
        if rec is None:
            raise AnalysisError(f"anchor vanished: kio.serial.writers.{name}")
        d = rec.get("desc") or {}
        if d.get("k") != "scalar":
            continue  # reported as not understood / by C11-function
        bad = []
        for g in d.get("guards") or []:
            for v in domain_points(lo, hi):
                r = eval_int_term(g["cond"], v)
                if r is not None and bool(r) != bool(g["holds"]):
                    bad.append((v, g))
                    break
        rep.check(R_D, not bad, construct=f"kio.serial.writers:{name}", stmt=f"{name}: guards {[g['cond'] for g in d.get('guards') or []]}",
                  message="; ".join(f"the writer raises {'/'.join(g.get('else') or ['?'])} for {v}, which is inside its domain [{lo}, {hi}] "
                                    f"(guard {g['cond']})" for v, g in bad), file=wfile, line=rec["line"])
    R_RD = rep.rule("C11-r-domain", "a reader raises for no wire value of the domain its writer emits (range guards on the prefix value are "
                    "evaluated at the boundary values of that domain)", floor=20,
                    necessary_because="an upper bound derived from whole seconds rejects 9999-12-31T23:59:59.001Z..999Z, which the writer emits")
    DT_MAX_MS = 253402300799999  # 9999-12-31T23:59:59.999Z
    R_DOMAIN = {"read_int8": rng_(8, True), "read_int16": rng_(16, True), "read_int32": rng_(32, True), "read_int64": rng_(64, True),
                "read_uint8": rng_(8, False), "read_uint16": rng_(16, False), "read_uint32": rng_(32, False), "read_uint64": rng_(64, False),
                "read_unsigned_varint": (0, 2 ** 31 - 1), "read_unsigned_varlong": (0, 2 ** 63 - 1),
                "read_signed_varint": rng_(32, True), "read_signed_varlong": rng_(64, True),
                "read_legacy_array_length": (-1, 2 ** 31 - 1), "read_compact_array_length": (0, 2 ** 31),
                "read_datetime_i64": (0, DT_MAX_MS), "read_nullable_datetime_i64": (0, DT_MAX_MS),
                "read_timedelta_i32": rng_(32, True), "read_timedelta_i64": rng_(32, True),
                "read_legacy_string": (0, 32767), "read_nullable_legacy_string": (0, 32767),
                "read_legacy_bytes": (0, 2 ** 31 - 1), "read_nullable_legacy_bytes": (0, 2 ** 31 - 1),
                "read_compact_string": (1, 2 ** 31 - 1), "read_compact_string_nullable": (1, 2 ** 31 - 1),
                "read_compact_string_as_bytes": (1, 2 ** 31 - 1), "read_compact_string_as_bytes_nullable": (1, 2 ** 31 - 1)}
    for name, (lo, hi) in R_DOMAIN.items():
        rec = prims["readers"].get(name)
        if rec is None:
            raise AnalysisError(f"anchor vanished: kio.serial.readers.{name}")
        d = rec.get("desc") or {}
        if d.get("k") not in ("scalar", "lenpref", "array"):
            continue
        bad = []
        pts = domain_points(lo, hi) + ([DT_MAX_MS - 999, DT_MAX_MS - 998, DT_MAX_MS - 1] if hi == DT_MAX_MS else [])
        for g in d.get("range_guards") or []:
            for v in pts:
                r = eval_int_term(g["cond"], v)
                if r is not None and bool(r) != bool(g["holds"]):
                    bad.append((v, g))
                    break
        rep.check(R_RD, not bad, construct=f"kio.serial.readers:{name}", stmt=f"{name}: guards {[g['cond'] for g in d.get('range_guards') or []]}",
                  message="; ".join(f"the reader raises {'/'.join(g.get('else') or ['?'])} for the wire value {v}, which is inside the domain "
                                    f"[{lo}, {hi}] its writer emits (guard {g['cond']})" for v, g in bad), file=rfile, line=rec["line"])
    # primitives are functions of their arguments: no module-level or closure state in readers.py / writers.py
    from .. import scan
    R_ST = rep.rule("C11-stateless", "the primitive readers and writers keep no module-level mutable state and mutate nothing captured from an "
                    "enclosing scope (re-entrant: a value writer may itself call the same primitive)", floor=0,
                    necessary_because="write_tagged_field staging in a module-level buffer: a tagged struct that contains a tagged field resets the "
                                      "buffer its parent is being staged in")
    PRIM = ["kio.serial.readers", "kio.serial.writers"]
    for st_ in scan.module_state(ctx, PRIM):
        if st_["kind"] in ("module-mutable", "global", "nonlocal"):
            rep.check(R_ST, False, construct=f"{st_['module']}:{st_['function']}", stmt=st_["stmt"],
                      message=f"{st_['kind']}: {st_['name']} {st_['what']}: the bytes a primitive emits depend on calls in progress or left unfinished",
                      file=st_["file"], line=st_["line"])
    for m_ in scan.captured_mutations(ctx, PRIM):
        rep.check(R_ST, False, construct=m_["function"], stmt=m_["stmt"], message=f"mutates {m_['name']!r} of the enclosing {m_['outer']}",
                  file=m_["file"], line=m_["line"])
    rep.count(R_ST, len(PRIM), instance="scan")
    R_TD = rep.rule("C11-w-time-domain", "the duration writers accept every timedelta their sibling readers can return (analysed on a plain "
                   "datetime.timedelta, guards evaluated at the extremes)", floor=2)
    from .wire import time_writer_domain_rows
    for ok_, c_, stmt_, msg_, file_, line_ in time_writer_domain_rows(ctx):
        if ok_ is None:
            rep.limit(f"{c_}: {msg_}")
            continue
        rep.check(R_TD, ok_, construct=c_, stmt=stmt_, message=msg_, file=file_, line=line_)
    R_VD = rep.rule("C11-r-value-domain", "a scalar reader raises for no value its format carries and its Python type represents (guards of the "
                    "returning paths evaluated at boundary values, infinities and NaNs, the extremes of timedelta and datetime)", floor=15,
                    necessary_because="a reader that passes its result through a narrower validating type (f64 = finite floats, i64Timedelta = "
                                      "all but the last day) rejects canonical encodings of +Infinity, NaN, or a 64-bit duration near the maximum")
    from .wire import scalar_reader_domain_rows
    for ok_, c_, stmt_, msg_, line_ in scalar_reader_domain_rows(prims):
        if ok_ is None:
            rep.limit(f"{c_}: {msg_}")
            continue
        rep.check(R_VD, ok_, construct=c_, stmt=stmt_, message=msg_, file="src/kio/serial/readers.py", line=line_)
    # every raw read of the readers module is a checked exact read ---------------------------------------------
    R_X = rep.rule("C11-exact-reads", "every read in kio.serial.readers is length-checked with equality before its bytes are used", floor=1,
                   necessary_because="read(n) with a negative n returns everything up to EOF; `len(value) < n` never fires, so 'ff fe hello' "
                                     "decodes as the string 'hello' instead of being rejected")
    seen_reads = 0
    for key, cnt in A.log.items():
        d_, kind, skind, site, detail = key
        if kind == "read" and site.startswith("kio.serial.readers"):
            seen_reads += 1
            from .streams import site_loc, stmt_at
            where, fn_ = site_loc(ctx, site)
            rep.check(R_X, "unchecked-used" not in detail, construct=fn_, stmt=stmt_at(ctx, site),
                      message=f"the bytes of this read are used without establishing len(result) == requested size ({detail})",
                      instance=f"{site}|{detail}", **where)
    for o in scan.negative_size_reads(ctx, ["kio.serial.readers"]):
        rep.check(R_X, False, construct=o["function"], stmt=o["stmt"],
                  message=f"`{o['stmt']}`: the size is the parameter {o['param']!r}, which is never compared for (in)equality with the length that was "
                          f"read and never tested for being negative -- read(-2) returns the rest of the stream and `len(got) < -2` is false, so a "
                          f"length prefix of -2 or lower decodes to everything that follows instead of raising", file=o["file"], line=o["line"])
    # varints, bit level --------------------------------------------------------------------------------
    ratoms = {(a["fn"], a["max_bytes"]): a for a in A.atoms.values() if a and a["kind"] == "varint"}
    watoms = [a for a in A.atoms.values() if a and a["kind"] == "wvarint"]
    if not ratoms or not watoms:
        if rep.findings:
            rep.note("no varint reader / writer recognised (reported after the concrete findings above)")
            return
        raise AnalysisError("anchor vanished: no varint reader / writer recognised in kio.serial.readers/writers")
    for (fn, mx), a in sorted(ratoms.items()):
        pr = varint.check_varint_reader(a)
        rep.check(R_V, not pr and mx in (5, 10) and a["overflow_exc"] == ["ValueError"], construct=fn,
                  stmt=f"varint reader, at most {mx} bytes, then {a['overflow_exc']}", message="; ".join(pr) or f"max {mx}, overflow {a['overflow_exc']}",
                  file=rfile, line=a["line"], instance=f"{fn}|{mx}")
    w = max(watoms, key=lambda a: a["max_bytes"])
    for wa in {a["fn"]: a for a in watoms}.values():
        pr = list(wa.get("problems") or [])
        rep.check(R_V, not pr and (wa is not w or wa["max_bytes"] == 10), construct=wa["fn"], stmt=f"varint writer, up to {wa['max_bytes']} bytes",
                  message="; ".join(pr[:3]) or f"{wa['max_bytes']} bytes at most", file=wfile, line=wa["line"], instance=f"writer|{wa['fn']}")
    for (fn, mx), a in sorted(ratoms.items()):
        pr = varint.check_roundtrip(a, w)
        rep.check(R_V, not pr, construct=fn, stmt=f"reader({mx}) after writer", message="; ".join(pr), file=rfile, line=a["line"],
                  instance=f"roundtrip|{fn}|{mx}")
    for rname, wname, bits in (("read_signed_varint", "write_signed_varint", 32), ("read_signed_varlong", "write_signed_varlong", 64)):
        rd, wd = prims["readers"].get(rname, {}).get("desc"), prims["writers"].get(wname, {}).get("desc")
        if not rd or not wd or rd.get("k") != "scalar" or wd.get("k") != "scalar":
            # the describer could not describe one of the two: a limit of the analysis, never a verdict
            limits.append(f"zig-zag pair {rname}/{wname} not recognised: {(rd or {}).get('reason') or (wd or {}).get('reason')}")
            continue
        pr = varint.check_zigzag(varint.from_json(wd["conv"]), varint.from_json(rd["conv"]), bits)
        want_max = 5 if bits == 32 else 10
        if rd["prefix"].get("max") != want_max:
            pr.append(f"{rname} reads at most {rd['prefix'].get('max')} bytes, expected {want_max}")
        rep.check(R_V, not pr, construct=f"kio.serial.writers:{wname}", stmt=f"zig-zag {bits}: {timeflow.show(wd['conv'])} / {timeflow.show(rd['conv'])}",
                  message="; ".join(pr), file=wfile, line=prims["writers"][wname]["line"], instance=f"zigzag|{bits}")
    if limits and not rep.findings:
        raise AnalysisError(limits[0] + (f" (+{len(limits) - 1} more)" if len(limits) > 1 else ""))
    rep.sample({"rule": "C11-varint", "3-byte reader path value": ratoms[sorted(ratoms)[0]]["paths"][2]["bv"].show()})
    rep.extra.update(public_readers=len(prims["readers"]), public_writers=len(prims["writers"]), table_rows=len(kts) * 4)
    rep.trusted_base += ["struct format table", "values.BV: GF(2)-affine bit-vector domain (exact for and/or/xor with constants, constant shifts, carry-free add)"]
