"""C02 -- encoder output is the Kafka wire format: W(T) = S(T) for every class."""
from __future__ import annotations

from ..grammar import cmp_writer
from .. import timeflow
from .wire import Wire, fdesc, spec_tagged_default_term, TIME_TYPES

PID = "C02"
LEVEL = "other"
TECHNIQUE = ("abstract interpretation: plan building by constant propagation of the schema model through "
             "entity_writer/get_field_writer/get_writer, path summaries of the selected writers, comparison of the "
             "derived writer grammar with spec tables written from the Kafka protocol documents")


def check(rep, ctx):
    W = Wire(ctx)
    S = W.S
    rep.explanation = (
        "For each of the generated classes the writer closure entity_writer(T) is obtained by evaluating the factory "
        "code on the static schema model; the function selected for every field is summarised path by path (symbolic "
        "value, recorded writes) into a grammar descriptor and compared with the descriptor the protocol "
        "specification prescribes for (kafka type, flexibility, nullability, array, nesting). Field order, the tagged "
        "section framing (count, ascending tags, size = length of exactly the payload, default elision), nullable "
        "struct markers, UUID null form and the request header's client_id special case are checked on the same "
        "derived grammar. Not decided: that struct.pack produces two's complement big-endian bytes (trusted library).")
    R_F = rep.rule("C02-field", "writer grammar of each regular field equals the spec grammar for its "
                   "(kafka_type, flexible, nullable, array, nested) -- format, byte order, length prefix kind and bias, "
                   "null form, payload kind, marker bytes", floor=4500,
                   necessary_because="any instance exercising the differing atom is emitted in a form a Kafka peer mis-frames")
    R_O = rep.rule("C02-order", "regular fields are written in declaration order", floor=1500)
    R_X = rep.rule("C02-flex", "a tagged section is written iff the class is flexible", floor=1500)
    R_TF = rep.rule("C02-tagged-field", "payload of each tagged field is the field's flexible encoding", floor=50)
    R_TS = rep.rule("C02-tagged-frame", "tagged section = uvarint count of emitted fields, then per emitted field in "
                    "ascending tag order: uvarint tag, uvarint size = length of exactly the payload, payload; the "
                    "staged bytes are flushed once after the count", floor=800)
    R_TE = rep.rule("C02-tagged-elision", "a tagged field is emitted on exactly the paths where it was not found equal "
                    "to its default", floor=30)
    R_TV = rep.rule("C02-tagged-default-value", "the constant a tagged field is elided against is the default the definition gives it",
                    floor=50, necessary_because="a value equal to the real default must be omitted and any other value written; "
                                                 "CurrentLeader(0, 0, '', 0) is not the default of UpdateRaftVoterResponse.current_leader")
    R_M = rep.rule("C02-memo", "no function on the encode path is memoised on a value (only on types / bools / literals)", floor=0,
                   necessary_because="memoisation is keyed by == and hash: 0.0 == -0.0 and 1 == True, but their encodings differ; the second "
                                     "instance is written with the first one's bytes")
    from .. import scan
    for m in scan.memoised_functions(ctx, ["kio.serial._serialize", "kio.serial.writers", "kio.serial._implicit_defaults", "kio.serial._introspect"]):
        rep.check(R_M, not m["bad_params"], construct=f"{m['module']}:{m['function']}", stmt=m["stmt"],
                  message=f"memoised on parameters {m['bad_params']}: instances that compare equal but encode differently (0.0 / -0.0, 1 / True / "
                          f"1.0, datetimes differing in fold) share one cached encoding", file=m["file"], line=m["line"])
    rep.count(R_M, 1, instance="scan")
    R_TM = rep.rule("C02-time", "durations and timestamps are converted to the millisecond integer on the wire exactly (no inexact float "
                    "truncated, no float on a 64-bit duration, measured from the UTC epoch)", floor=380,
                    necessary_because="int(4.06 * 1000) is 4059: the big-endian int64 on the wire is 1 ms too small")
    R_DO = rep.rule("C02-decl-order", "the fields of every class are declared in the order of the pinned Kafka 3.9.0 definitions (the frozen "
                    "reference): the writer follows declaration order, so a swapped pair is written in an order no Kafka peer expects", floor=1600,
                    necessary_because="reader and writer of kio share the declaration, so a swapped pair of fields round-trips and no test pins the bytes of most APIs")
    from ..baseline import load_reference
    ref_mods = load_reference()["schema"]["modules"]
    R_P = rep.rule("C02-plan", "a writer plan can be derived for the class", floor=1600)
    n_tagged_paths = 0
    for key, cls, plan in W.classes():
        ok = rep.check(R_P, not plan["error"], construct=key, stmt=str(plan.get("error")),
                       message=f"no writer plan: {plan.get('error')}", **W.floc(cls, None) if False else W.floc(cls, cls))
        if not ok:
            continue
        flexible = bool(S.cv_const(cls, "__flexible__"))
        wr = plan["writer"]
        rmod_ = ref_mods.get(cls["module"])
        rcls_ = next((c_ for c_ in (rmod_ or {}).get("classes", []) if c_["name"] == cls["name"]), None)
        if rcls_ is not None:
            want_ = [f_["name"] for f_ in rcls_["fields"]]
            got_ = [f_["name"] for f_ in cls["fields"]]
            if sorted(want_) == sorted(got_):  # a field added or removed is C04's finding; here: the same fields in another order
                rep.check(R_DO, want_ == got_, construct=key, stmt=f"declared {got_}",
                          message=f"fields are declared (and therefore written) in the order {got_}; the Kafka definition has {want_}",
                          **W.floc(cls, cls))
        regular = [f["name"] for f in cls["fields"] if "tag" not in (f.get("metadata") or {})]
        w_order = [pf["name"] for pf in sorted((pf for pf in plan["fields"] if pf["w_index"] is not None),
                                               key=lambda x: x["w_index"])]
        rep.check(R_O, w_order == regular, construct=key, stmt=f"written order {w_order}",
                  message=f"fields are written in order {w_order} but declared {regular}", **W.codec_loc(wr["codec"]))
        rep.check(R_X, bool(wr["flexible"]) == flexible, construct=key, stmt=f"flexible={flexible} tagged_section={wr['flexible']}",
                  message=f"class is {'flexible' if flexible else 'not flexible'} but the writer "
                          f"{'emits' if wr['flexible'] else 'does not emit'} a tagged section", **W.codec_loc(wr["codec"]))
        tagged_names = {}
        for item in W.fields(key, cls, plan):
            f, pf, spec = item["f"], item["pf"], item["spec"]
            construct = f"{key}.{f['name']}"
            if pf is None or pf.get("w") is None:
                rep.check(R_F if item["kind"] == "regular" else R_TF, False, construct=construct, stmt=fdesc(cls, f),
                          message="the writer plan has no writer for this field", **W.floc(cls, f))
                continue
            w = W.nw(pf["w"])
            if item["kind"] == "tagged":
                tagged_names[f["name"]] = f["metadata"]["tag"]
            diffs = cmp_writer(w, spec, f["name"])
            rep.check(R_F if item["kind"] == "regular" else R_TF, not diffs, construct=construct,
                      stmt=f"{fdesc(cls, f)} written by {pf['w_codec']['fn'] if pf.get('w_codec') else '?'}",
                      message="; ".join(diffs), details={"writer": w, "spec": spec}, **W.codec_loc(pf.get("w_codec")))
            kt_ = (f.get("metadata") or {}).get("kafka_type")
            if kt_ in TIME_TYPES:
                kind_, bits_ = TIME_TYPES[kt_]
                wd = pf["w"]
                while wd.get("k") == "array":
                    wd = wd["item"]
                if wd.get("k") == "scalar":
                    q_, issues_ = timeflow.write_side(wd["conv"], bits_, kind_)
                    fn_ = wd.get("_codec", "?")
                    if q_ is None:
                        rep.limit(f"{fn_}: time conversion not understood: {timeflow.show(wd['conv'])[:160]}")
                    bad_ = [i for i in issues_ if i[0] in ("T-float64", "T-trunc", "T-epoch", "T-unit", "T-int")]
                    for rule_, msg_, op_ in bad_:
                        rep.check(R_TM, False, construct=fn_, stmt=timeflow.show(wd["conv"]), message=f"{rule_}: {msg_}", instance=construct,
                                  **W.codec_loc({"fn": fn_, "line": wd.get("_line", 0)}))
                    if q_ is not None and not bad_:
                        rep.check(R_TM, True, construct=fn_, stmt=timeflow.show(wd["conv"]), instance=construct)
            if len(rep.samples) < 3 and item["kind"] == "regular":
                rep.sample({"obligation": "C02-field", "field": construct, "spec": spec, "writer": w})
        import json as _json
        for item in W.fields(key, cls, plan):
            if item["kind"] != "tagged":
                continue
            f = item["f"]
            want = spec_tagged_default_term(ctx, key, f["name"])
            if want is None:
                continue
            consts = []
            for tp in wr["tagged_paths"]:
                for term, pol in tp["elided"]:
                    if term[0] == "eq" and isinstance(term[1], list) and term[1][0] == "attr" and term[1][2] == f["name"] and term[2] not in consts:
                        consts.append(term[2])
            rep.check(R_TV, consts == [want], construct=f"{key}.{f['name']}", stmt=f"elided when equal to {consts}",
                      message=f"the writer omits the field when it equals {consts} but the definition's default is {want}", **W.floc(cls, f))
        if not flexible or not wr["flexible"]:
            continue
        # tagged section
        all_tags = sorted(tagged_names.values())
        seen_emit_sets = set()
        for tp in wr["tagged_paths"]:
            n_tagged_paths += 1
            tags = [e["tag"] for e in tp["emitted"]]
            problems = list(tp["problems"])
            if tags != sorted(tags):
                problems.append(f"tags are emitted in order {tags}, not ascending")
            if len(set(tags)) != len(tags):
                problems.append(f"a tag is emitted twice: {tags}")
            if tp.get("count") != len(tags):
                problems.append(f"count written is {tp.get('count')} but {len(tags)} field(s) are emitted")
            if not tp["staged_flush"]:
                problems.append("staged tagged bytes are not flushed after the count")
            for e in tp["emitted"]:
                if not e["size_is_len_of_data"]:
                    problems.append(f"size of tag {e['tag']} is not the length of exactly its payload bytes")
                if tagged_names.get(e["attr"]) != e["tag"]:
                    problems.append(f"tag {e['tag']} carries attribute {e['attr']!r}, declared tag is {tagged_names.get(e['attr'])}")
            rep.check(R_TS, not problems, construct=key, stmt=f"tagged section path emitting {tags}",
                      message="; ".join(problems), instance=f"{key}|{tags}", **W.codec_loc(wr["codec"]))
            # elision: emitted <=> decided "not equal to default"
            elided = set()
            for term, pol in tp["elided"]:
                if pol and term[0] == "eq" and isinstance(term[1], list) and term[1][0] == "attr":
                    elided.add(term[1][2])
            emitted = {e["attr"] for e in tp["emitted"]}
            bad = [n for n in tagged_names if (n in emitted) == (n in elided)]
            rep.check(R_TE, not bad, construct=key, stmt=f"emitted={sorted(emitted)} elided={sorted(elided)}",
                      message=f"fields {bad} are neither/both elided and emitted on one path", instance=f"{key}|{tags}",
                      **W.codec_loc(wr["codec"]))
            seen_emit_sets.add(frozenset(emitted))
        if all_tags:
            rep.check(R_TE, len(seen_emit_sets) == 2 ** len(all_tags), construct=key, stmt=f"{len(seen_emit_sets)} emission patterns",
                      message=f"{len(seen_emit_sets)} emission patterns reachable, expected {2 ** len(all_tags)} "
                              f"(each tagged field independently elided or emitted)", instance=f"{key}|patterns",
                      **W.codec_loc(wr["codec"]))
    from .. import scan as _scan2
    R_SL = rep.rule("C02-slices", "no payload slice of the form x[-r:] with a remainder r that may be zero (for r == 0 that is the whole payload, "
                    "written a second time after its full chunks)", floor=0,
                    necessary_because="a value whose size is an exact multiple of the chunk size is followed by a copy of itself: the length "
                                      "prefix says N, 2N bytes follow")
    for o in _scan2.minus_zero_slices(ctx, ["kio.serial.writers", "kio.serial._serialize", "kio.records.writers"]):
        rep.check(R_SL, False, construct=o["function"], stmt=o["stmt"],
                  message=f"`{o['stmt']}`: {o['name']} is a remainder and may be 0, and x[-0:] is all of x -- the tail chunk repeats the whole value",
                  file=o["file"], line=o["line"])
    rep.count(R_SL, 1, instance="scan")
    W.finish(rep)
    rep.extra.update(classes=len(S.classes), tagged_section_paths=n_tagged_paths, engine_stats=W.bundle.get("stats"))
    rep.trusted_base += ["struct.pack/unpack format semantics (calcsize, byte order, two's complement)",
                         "kverif/spec.py + kverif/grammar.py: the protocol tables written from the Kafka protocol guide, KIP-482, KIP-893"]
