"""C01 -- encode then decode is the identity; exact consumption.

Decided part: reader/writer grammar symmetry, exactness of every data read, default
symmetry of tagged fields, exact time writers.  Not decided: equality of values."""
from __future__ import annotations

from .. import timeflow
from ..grammar import cmp_rw
from .wire import Wire, fdesc, TIME_TYPES

PID = "C01"
LEVEL = "other"
TECHNIQUE = ("abstract interpretation of the cached reader/writer factories on the static schema model; sibling "
             "agreement of derived reader and writer grammars; byte-count terms; time-exactness dataflow (E6)")


def check(rep, ctx):
    W = Wire(ctx)
    S = W.S
    rep.explanation = (
        "A round trip over all field values is a run-time fact and is not decided. Decided, for all classes and fields: "
        "(a) the descriptor derived for the writer's treatment of a field and the one derived for the reader agree on "
        "every atom reachable for well-typed values (prefix kind and width, bias, null sentinel, payload kind, item, "
        "nested class, marker constants), regular fields come in the same order and the tag maps bind the same tags to "
        "the same fields; (b) every data read is an exact read whose size term is the prefix the writer wrote, and the "
        "reader performs no read outside the field grammar; (c) the constant the writer elides a tagged field against "
        "and the constant the reader fills an absent tag with are the same term; (d) the writer of each time codec is "
        "exact on its whole value type (E6 T-float64 / T-trunc).")
    R_A = rep.rule("C01-a-field", "writer grammar ~ reader grammar for every field (regular and tagged)", floor=5000,
                   necessary_because="an instance exercising the differing atom decodes to something else or mis-frames what follows")
    R_O = rep.rule("C01-a-order", "reader and writer process regular fields in the same order", floor=1600)
    R_T = rep.rule("C01-a-tags", "reader tag map = writer tag map (same tags, same fields)", floor=800)
    R_B = rep.rule("C01-b-exact", "every length-prefixed payload is consumed by an exact read of the written length", floor=1000)
    R_C = rep.rule("C01-c-default", "tagged field: writer's elision constant = reader's fill-in constant", floor=50,
                   necessary_because="otherwise an instance holding one of the two constants does not read back equal")
    R_D = rep.rule("C01-d-time", "time writers are exact on their value type (no float on 64-bit durations, no "
                   "truncation of inexact floats)", floor=200,
                   necessary_because="timedelta(milliseconds=2**53+1) is a canonical i64Timedelta and is written as 2**53")
    R_L = rep.rule("C01-e-call-local", "encode/decode of one instance uses only state created in that call: no buffer or container is "
                   "allocated while the cached reader/writer closures are built", floor=0,
                   necessary_because="a buffer captured by a cached closure carries bytes from a failed or concurrent call into the next encode")
    from .streams import site_loc, stmt_at
    for side, cls_, site in W.bundle["factory"]["allocs"]:
        where, fn = site_loc(ctx, site)
        rep.check(R_L, False, construct=fn, stmt=stmt_at(ctx, site),
                  message=f"a scratch buffer is allocated while the cached {side} plan of {cls_} is built: what an earlier (failed) call left in it "
                          f"is emitted by the next encode of the same class, so decode(encode(x)) != x", **where)
    rep.count(R_L, 1, instance="factory-log")
    R_Z = rep.rule("C01-b-zero-read", "an end-of-stream test (`if not chunk: raise`) only follows a read whose size is shown to be positive",
                   floor=0, necessary_because="read(0) returns b'' on a complete stream: a chunked read_exact that asks for a 0-byte tail rejects "
                                              "every value of exactly k * 64 KiB that the encoder has just produced")
    from .. import scan
    for z in scan.zero_size_eof_tests(ctx, ["kio.serial.readers", "kio.serial._parse", "kio.records.readers"]):
        rep.check(R_Z, False, construct=z["function"], stmt=z["stmt"],
                  message=f"the result of read({z['size']}) is taken for end of stream when empty, but nothing shows {z['size']} > 0 on this path: "
                          f"a 0-byte request returns b'' and complete input is reported as BufferUnderflow", file=z["file"], line=z["line"])
    rep.count(R_Z, 1, instance="scan")
    R_LD = rep.rule("C01-f-length-domain", "every length a field's format can carry is accepted by its writer (an instance with a long value "
                    "encodes, so that it can decode back)", floor=1500)
    from .wire import length_domain_rows
    R_P = rep.rule("C01-plan", "reader and writer plans can be derived", floor=1600)
    for key, cls, plan in W.classes():
        if not rep.check(R_P, not plan["error"], construct=key, stmt=str(plan.get("error")),
                         message=f"no plan: {plan.get('error')}", **W.floc(cls, cls)):
            continue
        r_order = [pf["name"] for pf in sorted((p for p in plan["fields"] if p["r_index"] is not None), key=lambda x: x["r_index"])]
        w_order = [pf["name"] for pf in sorted((p for p in plan["fields"] if p["w_index"] is not None), key=lambda x: x["w_index"])]
        rep.check(R_O, r_order == w_order, construct=key, stmt=f"reader {r_order} writer {w_order}",
                  message=f"reader order {r_order} differs from writer order {w_order}", **W.codec_loc(plan["reader"]["codec"]))
        if plan["flexible"] or plan["tagged"]:
            rt = {t: v.get("name") for t, v in plan["tagged"].items() if v.get("r_codec")}
            wt = {t: v.get("w_name") for t, v in plan["tagged"].items() if v.get("w_codec")}
            rep.check(R_T, rt == wt, construct=key, stmt=f"reader tags {rt} writer tags {wt}",
                      message=f"reader binds tags {rt}, writer binds tags {wt}", **W.codec_loc(plan["reader"]["codec"]))
        for item in W.fields(key, cls, plan):
            f, pf = item["f"], item["pf"]
            construct = f"{key}.{f['name']}"
            if pf is None or pf.get("r") is None or pf.get("w") is None:
                rep.check(R_A, False, construct=construct, stmt=fdesc(cls, f),
                          message="field is missing from the reader or the writer plan", **W.floc(cls, f))
                continue
            r, w = W.nr(pf["r"]), W.nw(pf["w"])
            diffs = cmp_rw(r, w, f["name"])
            rep.check(R_A, not diffs, construct=construct,
                      stmt=f"{fdesc(cls, f)} read by {pf['r_codec']['fn']} written by {pf['w_codec']['fn']}",
                      message="; ".join(diffs), details={"reader": r, "writer": w}, **W.codec_loc(pf.get("r_codec")))
            if len(rep.samples) < 3:
                rep.sample({"obligation": "C01-a-field", "field": construct, "reader": r, "writer": w})
            # b: exactness of payload reads (recursively through arrays)
            d = pf["r"]
            while d is not None:
                if d.get("k") == "lenpref":
                    rep.check(R_B, bool(d.get("exact")), construct=d.get("_codec", construct), stmt="payload read of a length-prefixed value",
                              message="payload is obtained by a read whose result length is not checked against the prefix",
                              instance=construct, **W.codec_loc({"fn": d.get("_codec", ":"), "line": d.get("_line", 0)}))
                d = d.get("item") or d.get("inner")
            # c: defaults
            if item["kind"] == "tagged":
                name = f["name"]
                consts = set()
                import json
                for tp in plan["writer"]["tagged_paths"]:
                    for term, pol in tp["elided"]:
                        if term[0] == "eq" and isinstance(term[1], list) and term[1][0] == "attr" and term[1][2] == name:
                            consts.add(json.dumps(term[2], sort_keys=True))
                rd = pf.get("r_default")
                rd_term = json.dumps(rd.get("term") if isinstance(rd, dict) and "term" in rd else rd, sort_keys=True)
                rep.check(R_C, consts == {rd_term}, construct=construct, stmt=f"writer elides against {sorted(consts)}; reader fills {rd_term}",
                          message=f"writer elides the field when it equals {sorted(consts)} but the reader fills an absent tag with {rd_term}",
                          **W.floc(cls, f))
            # f: the writer accepts every well-typed value (length domains)
            for ok_, c_, stmt_, msg_, loc_ in length_domain_rows(W, pf, construct):
                rep.check(R_LD, ok_, construct=c_, stmt=stmt_, message=msg_, instance=construct + "|" + stmt_[:30], **loc_)
            # d: time writers
            kt = (f.get("metadata") or {}).get("kafka_type")
            if kt in TIME_TYPES:
                kind, bits = TIME_TYPES[kt]
                wd = pf["w"]
                while wd.get("k") == "array":
                    wd = wd["item"]
                if wd.get("k") == "scalar":
                    q, issues = timeflow.write_side(wd["conv"], bits, kind)
                    fn = wd.get("_codec", "?")
                    if q is None:
                        rep.limit(f"{fn}: time conversion not understood: {timeflow.show(wd['conv'])[:160]}")
                    for rule, msg, op in issues:
                        if rule in ("T-float64", "T-trunc", "T-epoch"):
                            rep.check(R_D, False, construct=fn, stmt=timeflow.show(wd["conv"]), message=f"{rule}: {msg}",
                                      instance=construct, **W.codec_loc({"fn": fn, "line": wd.get("_line", 0)}))
                    if not [i for i in issues if i[0] in ("T-float64", "T-trunc", "T-epoch")] and q is not None:
                        rep.check(R_D, True, construct=fn, stmt=timeflow.show(wd["conv"]), instance=construct)
    # exact consumption: chunked reads take what is missing, chunked writes write each byte once
    from .. import scan as _scan3
    R_XC = rep.rule("C01-b-chunks", "a value read or written in chunks is consumed / emitted exactly once: no fixed-size chunk reads that are cut "
                    "back or run 'until enough', no read(max(...)), no payload slice x[-r:] with a remainder that may be zero", floor=0,
                    necessary_because="the decoder must consume exactly the bytes the encoder wrote: a last chunk of 64 KiB swallows the next field, "
                                      "a tail slice view[-0:] writes the whole value a second time")
    RMODS_ = ["kio.serial.readers", "kio.serial._parse", "kio.records.readers"]
    for o in _scan3.fixed_chunk_reads(ctx, RMODS_) + _scan3.over_reads(ctx, RMODS_):
        rep.check(R_XC, False, construct=o["function"], stmt=o["stmt"],
                  message=f"`{o['stmt']}` asks for {o['size']} bytes whatever is still missing: bytes of what follows the value are consumed with it",
                  file=o["file"], line=o["line"])
    for o in _scan3.minus_zero_slices(ctx, ["kio.serial.writers", "kio.serial._serialize", "kio.records.writers"]):
        rep.check(R_XC, False, construct=o["function"], stmt=o["stmt"],
                  message=f"`{o['stmt']}`: {o['name']} is a remainder and may be 0, and x[-0:] is all of x -- the value is written twice while its "
                          f"length prefix announces it once", file=o["file"], line=o["line"])
    rep.count(R_XC, 1, instance="scan")
    # the varints every length prefix and tag goes through: reader(writer(v)) = v, decided at bit level (as in C11)
    from ..plans import analyse_primitives
    from .. import varint as _varint
    R_VR = rep.rule("C01-varint", "the unsigned varint reader returns what the varint writer wrote, for every value (bit-vector proof over the "
                    "recognised reader and writer atoms)", floor=2,
                    necessary_because="a reader that rejects an all-zero middle group cannot read back 16384 = 80 80 01: a compact string of 16383 bytes does not decode")
    P_ = ctx.plans
    analyse_primitives(P_)
    ratoms_ = {(a["fn"], a["max_bytes"]): a for a in P_.A.atoms.values() if a and a["kind"] == "varint"}
    watoms_ = [a for a in P_.A.atoms.values() if a and a["kind"] == "wvarint"]
    if not ratoms_ or not watoms_:
        rep.limit("no varint reader / writer atom recognised in kio.serial.readers / writers")
    else:
        w_ = max(watoms_, key=lambda a: a["max_bytes"])
        for (fn_, mx_), a_ in sorted(ratoms_.items()):
            pr_ = _varint.check_varint_reader(a_) + _varint.check_roundtrip(a_, w_)
            rep.check(R_VR, not pr_, construct=fn_, stmt=f"varint reader ({mx_} bytes) after the varint writer", message="; ".join(pr_[:3]),
                      file="src/kio/serial/readers.py", line=a_["line"], instance=f"{fn_}|{mx_}")
    W.finish(rep)
    rep.extra.update(classes=len(S.classes), engine_stats=W.bundle.get("stats"))
    rep.trusted_base += ["struct format semantics", "IEEE-754 binary64: integers above 2**53 are not all representable"]
