"""One module per property; each exposes PID, LEVEL, TECHNIQUE, check(rep, ctx)."""
import importlib

ALL = [f"C{n:02d}" for n in range(1, 20)]


def load(pid: str):
    return importlib.import_module(f"kverif.props.{pid.lower()}")
