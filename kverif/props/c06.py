"""C06 -- truncated input is always reported as buffer underflow, never decoded."""
from __future__ import annotations

import ast

from .. import scan
from ..core import AnalysisError
from .streams import SERIAL_MODULES, site_loc, stmt_at, exc_class

PID = "C06"
LEVEL = "other"
TECHNIQUE = ("stream-capability analysis (E4) over the effect traces of every reader path; path-sensitive check that "
             "every raw read's result length is compared with the requested size before its bytes flow anywhere; "
             "exception-handler scan (E5) with resolved exception hierarchy; module/captured state scan")

DECODE_OK = {"read", "xread", "varint", "codec"}


def check(rep, ctx):
    b = ctx.bundle
    eng = b["engine"]
    I = ctx.interp
    rep.explanation = (
        "(a) On every explored path of every reader (all public functions of kio.serial.readers, the closures of both "
        "array factories, entity_reader's closures for all classes) the caller's stream is used only through .read(n) "
        "with an explicit size, or passed on in stream position. (b) For each raw read site, on every path on which the "
        "bytes flow into a result or a later operation, the path condition contains len(result) == n and the other "
        "branch raises BufferUnderflow, whose MRO is the documented one. (c) No except clause of the decode code catches "
        "BufferUnderflow or one of its bases without re-raising the same exception. (d) Readers consult nothing but the "
        "stream and their static plan (no module state, no mutated captured state). (e) Loops: the varint loop has a "
        "constant trip count; array loops are covered by C10-c. With C01-b (a full decode consumes exactly the encoding, "
        "so a strict prefix has a read that crosses the cut) this entails the property for every class and cut point.")
    R_A = rep.rule("C06-a-capability", "the caller's source stream is only read with an explicit size (or passed on)", floor=19,
                   necessary_because="read()/read(-1)/peek/seek on the source makes the result depend on bytes beyond the message")
    R_B = rep.rule("C06-b-checked", "every raw read is length-checked before its bytes are used; the short branch raises "
                   "BufferUnderflow", floor=2,
                   necessary_because="an unchecked short read returns fewer bytes and decoding continues with a truncated value")
    R_H = rep.rule("C06-b-hierarchy", "BufferUnderflow < DecodeError < SerialError < Exception", floor=1)
    R_C = rep.rule("C06-c-no-intercept", "no handler on the decode code catches BufferUnderflow (or a base) without "
                   "re-raising it", floor=5)
    R_D = rep.rule("C06-d-stateless", "readers mutate no pre-existing object and there is no mutable module state", floor=1)
    R_E = rep.rule("C06-e-varint-bounded", "varint readers have a constant trip count and exit after max_bytes", floor=2)
    n_sites = 0
    for d, kind, skind, site, detail, n in eng["effects"]:
        if d != "r" or not site.startswith("kio.serial"):
            continue
        where, fn = site_loc(ctx, site)
        if skind == "param":
            base = kind.split(":")[0]
            ok = kind in DECODE_OK and "size=None" not in detail
            if kind in ("read", "xread", "varint"):
                n_sites += 1
            rep.check(R_A, ok, construct=fn, stmt=stmt_at(ctx, site),
                      message=f"the caller's stream is used through {kind}{' (' + detail + ')' if detail else ''}: only sized reads are "
                              f"available on every source kind", **where)
        if kind == "read":
            rep.check(R_B, "unchecked-used" not in detail and "size=None" not in detail, construct=fn, stmt=stmt_at(ctx, site),
                      message=f"raw read whose bytes are used without comparing their length with the requested size ({detail})",
                      instance=f"{site}|{detail}", **where)
    # every syntactic read of the decode modules is covered by the path analysis as a checked read
    R_S = rep.rule("C06-b-sites", "every read call written in the decode modules is reached by the path analysis and is length-checked there", floor=1)
    status = {}
    unreached = []
    for d, kind, skind, site, detail, n in eng["effects"]:
        if kind == "read":
            status.setdefault(site, set()).add(detail)
    for r in scan.raw_read_sites(ctx, ["kio.serial.readers", "kio.serial._parse", "kio.serial._introspect", "kio.serial._implicit_defaults"]):
        st_ = status.get(r["site"])
        if st_ is None and not r["referenced"]:
            rep.note(f"{r['site']}: read in a function nothing refers to (dead code), not on a decode path")
            continue
        ok = st_ is not None and not any("unchecked-used" in x or "size=None" in x for x in st_) and r["method"] == "read"
        if ok and not any(x.endswith(";checked") for x in st_):
            # reached, but on no explored path was its length established (the paths that use the bytes were not followed to the end)
            st_, ok = None, False
        if st_ is None and r["method"] == "read" and scan.result_is_tested(ctx, r):
            # the function does test what it read, the path analysis just cannot follow it: a limit, not a verdict
            unreached.append(f"{r['site']}: `{r['stmt']}` is tested locally but was not reached by the path analysis")
            continue
        why = ("has its length established on no path the analysis followed, and the function never tests what it read" if st_ is None
               else f"uses {r['method']}()" if r["method"] != "read" else f"is used unchecked ({sorted(st_)})")
        rep.check(R_S, ok, construct=r["function"], stmt=r["stmt"], message=f"the read `{r['stmt']}` {why}: a short result is not turned into "
                  f"BufferUnderflow", file=r["file"], line=r["line"])
    R_LOOP = rep.rule("C06-e-loops", "a loop that reads from the stream leaves the loop when a read comes back empty or short", floor=0)
    for l in scan.unbounded_read_loops(ctx, ["kio.serial.readers", "kio.serial._parse", "kio.records.readers"]):
        rep.check(R_LOOP, False, construct=l["function"], stmt=l["stmt"],
                  message="the loop keeps reading until it has enough bytes but never tests the chunk it got: at end of stream read() returns b'' "
                          "forever and the decoder spins instead of raising BufferUnderflow", file=l["file"], line=l["line"])
    for l in scan.silent_eof_exits(ctx, ["kio.serial.readers", "kio.serial._parse", "kio.records.readers"]):
        rep.check(R_LOOP, False, construct=l["function"], stmt=l["stmt"],
                  message="at end of stream the chunk loop is left without raising, and the length collected is never compared with the size "
                          "asked for: a truncated input yields a short value instead of BufferUnderflow", file=l["file"], line=l["line"])
    rep.count(R_LOOP, 1, instance="scan")
    xr = [a for a in eng["atoms"] if a["kind"] == "xread"]
    if not xr:
        # not recognising the idiom is the analyser's inability, not a fact about the code: a limit unless something concrete is found
        unreached.append("no function of the decode path was recognised as a checked exact read")
    for a in {(a["fn"], a["exc"], a["line"]) for a in xr}:
        rep.check(R_B, a[1] == "BufferUnderflow", construct=a[0], stmt=f"short read raises {a[1]}",
                  message=f"the length check of {a[0]} raises {a[1]}, not BufferUnderflow",
                  file=ctx.sm.require(a[0].split(":")[0]).rel, line=a[2], instance=f"atom|{a[0]}")
    # hierarchy
    em = I.module("kio.serial.errors").env.vars
    try:
        chain = [em["BufferUnderflow"], em["DecodeError"], em["SerialError"]]
    except KeyError as e:
        raise AnalysisError(f"anchor vanished: kio.serial.errors.{e}")
    ok = I.is_subclass(chain[0], chain[1]) and I.is_subclass(chain[1], chain[2]) and I.is_subclass(chain[2], exc_class(ctx, "Exception")) \
        and not I.is_subclass(chain[2], exc_class(ctx, "ValueError"))
    rep.check(R_H, ok, construct="kio.serial.errors:BufferUnderflow", stmt="class BufferUnderflow(DecodeError)",
              message="BufferUnderflow's bases are not the documented DecodeError < SerialError < Exception",
              file="src/kio/serial/errors.py", line=chain[0].node.lineno)
    # the error classes are plain exception classes: raising, re-raising, `raise ... from`, add_note() and the traceback machinery assign
    # attributes on the instance; a frozen / slotted class turns that assignment into a different exception that replaces the underflow
    esrc = ctx.sm.require("kio.serial.errors")
    for cnode in [n for n in esrc.tree.body if isinstance(n, ast.ClassDef)]:
        problems = []
        if cnode.decorator_list:
            problems.append(f"decorated with {[ast.unparse(d_) for d_ in cnode.decorator_list]}")
        for st_ in cnode.body:
            names = [t.id for t in getattr(st_, "targets", []) if isinstance(t, ast.Name)] + ([st_.name] if isinstance(st_, ast.FunctionDef) else [])
            for nm in names:
                if nm in ("__slots__", "__setattr__", "__delattr__", "__getattribute__", "__init_subclass__", "__new__"):
                    problems.append(f"defines {nm}")
        rep.check(R_H, not problems, construct=f"kio.serial.errors:{cnode.name}", stmt=f"class {cnode.name}",
                  message=f"the error class is not a plain exception class ({'; '.join(problems)}): exception.add_note(...), a chained raise or a "
                          f"traceback assignment raises TypeError / FrozenInstanceError in place of the decode error", file=esrc.rel, line=cnode.lineno)
    # handlers
    bu = chain[0]
    for h in scan.handlers(ctx, SERIAL_MODULES):
        c = scan.catches(I, h, bu)
        rep.check(R_C, not (c and not h["reraises_same"] and h["try_has_call"]), construct=f"{h['module']}:{h['function']}",
                  stmt=h["stmt"], message=f"handler `except {h['type_src']}` catches BufferUnderflow and does not re-raise it",
                  file=h["file"], line=h["line"])
    # state
    bad_mut = [(site, detail) for d, kind, skind, site, detail, n in eng["effects"] if d == "r" and kind == "mutate" and "pre-existing" in detail]
    for site, detail in bad_mut:
        where, fn = site_loc(ctx, site)
        rep.check(R_D, False, construct=fn, stmt=stmt_at(ctx, site), message=f"a reader mutates an object that outlives the call ({detail})", **where)
    st = [s for s in scan.module_state(ctx, SERIAL_MODULES) if s["kind"] in ("module-mutable", "global", "nonlocal")]
    for s in st:
        rep.check(R_D, False, construct=f"{s['module']}:{s['function']}", stmt=s["stmt"],
                  message=f"{s['kind']}: {s['name']} {s['what']}", file=s["file"], line=s["line"])
    rep.count(R_D, 1, instance="scan-complete")
    for a in {(a["fn"], a["max_bytes"], tuple(a["overflow_exc"] or ()), a["line"]) for a in eng["atoms"] if a["kind"] == "varint"}:
        rep.check(R_E, a[1] in (5, 10) and len(a[2]) == 1, construct=a[0], stmt=f"varint reader, at most {a[1]} bytes, then {a[2]}",
                  message=f"varint reader reads up to {a[1]} bytes and then {a[2]}", file=ctx.sm.require(a[0].split(':')[0]).rel, line=a[3],
                  instance=f"{a[0]}|{a[1]}")
    if ctx.tier == "thorough":
        from ..faults import explore_faults
        R_F = rep.rule("C06-f-fault-paths", "thorough: on every path on which some checked read of some codec root raises "
                       "BufferUnderflow, that exception leaves the root unchanged (path-sensitive exception flow with one "
                       "injected short read per stream operation)", floor=2000)
        out, st = explore_faults(ctx, "underflow", "r")
        for codec, problems, limit in out:
            if limit:
                raise AnalysisError(f"{getattr(codec, 'ref', codec)}: {problems[0]}")
            rep.check(R_F, False, construct=getattr(codec, "ref", str(codec)), stmt="; ".join(problems)[:200], message="; ".join(problems),
                      file=ctx.sm.require(codec.module).rel if ctx.sm.get(codec.module) else "", line=codec.node.lineno)
        rep.count(R_F, st["fault_paths"], instance="fault-paths")
        rep.extra["fault_injection"] = st
    rep.sample({"rule": "C06-b-checked", "atom": xr[0] if xr else None})
    rep.extra.update(read_sites=n_sites, functions_on_decode_and_encode_paths=len(eng["functions"]),
                     depends_on="C01-b (exact consumption) for the existence of a crossing read")
    if unreached and not rep.findings:
        raise AnalysisError("; ".join(unreached))
