"""C08 -- header schema and request/response pairing follow the Kafka rules."""
from __future__ import annotations

import collections

from ..core import AnalysisError
from ..interp_base import Raised, Run, Limit
from ..spec import header_module, header_class
from ..values import ClassV, FuncV
from .common import loc

PID = "C08"
LEVEL = "proof"
TECHNIQUE = ("exhaustive decision over the AST-derived schema model; abstract evaluation of kio/index.py's lookup "
             "functions on every payload class; path enumeration of codegen/header_schema.py against the Kafka rule")


def check(rep, ctx):
    S = ctx.schema
    rep.level = LEVEL
    rep.exhaustive = True
    rep.explanation = (
        "The quantifier is the finite set of request/response classes; every clause is a source-level fact. For each "
        "class the module its __header_schema__ resolves to is compared with the rule of ApiMessageTypeGenerator; "
        "request and response of one API version are compared for key and flexibility; load_response_from_request / "
        "load_request_from_response are *evaluated by the abstract interpreter* from the source of kio/index.py on each "
        "of the top-level payload classes against the index tables, and the composition must be the identity; the "
        "decision paths of codegen/header_schema.py are enumerated over (type, apiKey==7, version==0, apiKey==18, "
        "flexible) and compared with the same rule.")
    R_H = rep.rule("C08-header", "__header_schema__ resolves to the header module the Kafka rule mandates", floor=1500)
    R_HT = rep.rule("C08-header-present", "every top-level request/response class advertises a header schema", floor=640)
    R_P = rep.rule("C08-pair", "request and response of one API version share API key and flexibility", floor=320)
    R_I = rep.rule("C08-inverse", "load_response_from_request and load_request_from_response are mutually inverse "
                   "on every payload class (evaluated from kio/index.py's source)", floor=640)
    R_G = rep.rule("C08-generator", "codegen/header_schema.py decides the header import by the same rule", floor=12)
    pairs = collections.defaultdict(dict)
    for mname, m in sorted(S.modules.items()):
        if m["type"] not in ("request", "response"):
            continue
        for c in m["classes"]:
            hs = S.cv_const(c, "__header_schema__")
            top = S.cv_const(c, "__type__") != "nested"
            if top:
                pairs[(m["api"], m["version"])][m["type"]] = c
                rep.check(R_HT, hs is not None, construct=c["key"], stmt="__header_schema__",
                          message="top-level payload class has no __header_schema__", **loc(S, c))
            if hs is None:
                continue
            key, flex, ver = S.cv_const(c, "__api_key__"), S.cv_const(c, "__flexible__"), S.cv_const(c, "__version__")
            if not isinstance(key, int) or not isinstance(flex, bool) or not isinstance(ver, int):
                rep.check(R_H, False, construct=c["key"], stmt=f"api_key={key} flexible={flex} version={ver}",
                          message="class variables are not constants the rule can be evaluated on", **loc(S, c))
                continue
            want = f"{header_module(m['type'], key, ver, flex)}:{header_class(m['type'])}"
            rep.check(R_H, hs == want, construct=c["key"], stmt=f"__header_schema__ = {hs}",
                      message=f"header schema is {hs} but Kafka mandates {want} for {m['type']} key={key} v{ver} "
                              f"flexible={flex}", **loc(S, c))
    rep.sample({"rule": "C08-header", "class": "kio.schema.controlled_shutdown.v0.request:ControlledShutdownRequest",
                "mandated": header_module("request", 7, 0, False)})
    for (api, ver), d in sorted(pairs.items()):
        rq, rs = d.get("request"), d.get("response")
        if rq is None or rs is None:
            rep.check(R_P, False, construct=f"kio.schema.{api}.v{ver}", stmt=str(sorted(d)),
                      message="request or response missing for this API version")
            continue
        a = (S.cv_const(rq, "__api_key__"), S.cv_const(rq, "__flexible__"))
        b = (S.cv_const(rs, "__api_key__"), S.cv_const(rs, "__flexible__"))
        rep.check(R_P, a == b, construct=f"kio.schema.{api}.v{ver}", stmt=f"request {a} response {b}",
                  message=f"request has (key, flexible) = {a}, response has {b}", **loc(S, rs))
    # inverse: evaluate kio.index on every payload class
    I = ctx.interp
    try:
        idx = I.module("kio.index")
    except Raised as r:
        raise AnalysisError(f"importing kio.index raises {r.exc!r}")
    f_rr = idx.env.vars.get("load_response_from_request")
    f_rq = idx.env.vars.get("load_request_from_response")
    if not isinstance(f_rr, FuncV) or not isinstance(f_rq, FuncV):
        raise AnalysisError("anchor vanished: kio.index.load_response_from_request / load_request_from_response")
    src = ctx.sm.require("kio.index")

    def call(fn, cls):
        try:
            return I.call(fn, [cls], {}, Run(), None), None
        except Raised as r:
            return None, f"raises {r.exc!r}"
        except Limit as e:
            raise AnalysisError(f"kio.index not understood: {e}")
    for (api, ver), d in sorted(pairs.items()):
        rq, rs = d.get("request"), d.get("response")
        if rq is None or rs is None:
            continue
        crq, crs = I.entity_class(rq["key"]), I.entity_class(rs["key"])
        got, err = call(f_rr, crq)
        rep.check(R_I, got is crs, construct=rq["key"], stmt="load_response_from_request(cls)",
                  message=f"load_response_from_request({rq['key']}) -> {got.ref if isinstance(got, ClassV) else got} {err or ''}; expected {rs['key']}",
                  file=src.rel, line=f_rr.node.lineno)
        got, err = call(f_rq, crs)
        rep.check(R_I, got is crq, construct=rs["key"], stmt="load_request_from_response(cls)",
                  message=f"load_request_from_response({rs['key']}) -> {got.ref if isinstance(got, ClassV) else got} {err or ''}; expected {rq['key']}",
                  file=src.rel, line=f_rq.node.lineno)
    # generator side
    from ..gen import header_schema_paths
    for row in header_schema_paths(ctx):
        rep.check(R_G, row["ok"], construct="codegen.header_schema:get_header_schema_import", stmt=row["case"],
                  message=row["message"], file="codegen/header_schema.py", line=row.get("line", 0))
    rep.extra.update(payload_versions=len(pairs))
    rep.trusted_base += ["kverif E2 evaluation of kio/index.py (about 40 lines) and of the index tables",
                         "kverif/spec.py header rule, written from ApiMessageTypeGenerator"]
