"""C14 -- the versions of an API form a coherent family (DESIGN.md section 5, C14).

Finite, source-level: decided exhaustively over the static schema model."""
from __future__ import annotations

import collections

from ..spec import basic_name
from .common import loc

PID = "C14"
LEVEL = "proof"
TECHNIQUE = ("exhaustive AST-derived schema model (E1) + closed-form family rules; generator side: abstract evaluation (E2) of "
             "generate_models on synthetic definitions; nothing of the repository is executed")


def check(rep, ctx):
    S = ctx.schema
    rep.level = LEVEL
    rep.exhaustive = True
    rep.explanation = (
        "Every clause of C14 is a fact about class variables and module paths of the generated package. The "
        "static schema model (kverif/ssm.py) reads them from the syntax trees of all version modules; the rules "
        "below are evaluated for every module, class and (API, entity type) family. No sampling, no execution.")
    R_TOP = rep.rule("C14-one-top", "each version module has exactly one non-nested class", floor=600)
    R_UNI = rep.rule("C14-uniform", "every class of a module carries the module's version, flexibility, API key "
                     "and header schema (those of its top-level class)", floor=1500)
    R_REF = rep.rule("C14-local-entities", "every entity class a module's fields refer to is defined in that module (and so carries its "
                     "version, flexibility, key and header)", floor=900)
    R_PATH = rep.rule("C14-path", "module path (api, vN, type) = (snake(top class) minus _request/_response, "
                      "__version__, __type__)", floor=600)
    R_CONT = rep.rule("C14-contiguous", "versions of an (API, type) family are contiguous", floor=150)
    R_FLEX = rep.rule("C14-flex-monotone", "flexibility never reverts once enabled", floor=150)
    R_KEYC = rep.rule("C14-key-const", "API key is constant across the versions and types of an API", floor=90)
    R_KEYU = rep.rule("C14-key-unique", "an API key belongs to exactly one API", floor=80)
    R_RR = rep.rule("C14-req-resp", "requests and responses exist for exactly the same versions", floor=80)

    # generator side (anchor codegen/generate_schema.py): what it emits for small synthetic definitions is coherent in the same sense
    from ..gen_tables import generated_modules
    R_GEN = rep.rule("C14-generator", "generate_models, evaluated by the abstract interpreter on synthetic definitions, emits for every declared "
                     "version -- requests and responses alike -- classes that all carry the module's version, flexibility, key and header", floor=15)
    for row in generated_modules(ctx):
        rep.check(R_GEN, row["ok"], construct="codegen.generate_schema:generate_models", stmt=row["case"], message=row["message"],
                  file="codegen/generate_schema.py", line=0)
    from ..gen_tables import naming_rows
    for row in naming_rows(ctx):
        if row["construct"].endswith(":basic_name"):  # the package a definition lands in (the path half of C14-path, generator side)
            rep.check(R_GEN, row["ok"], construct=row["construct"], stmt=row["stmt"], message=row["message"], file=row["file"], line=row["line"])
    from .. import scan as _scan
    R_GE = rep.rule("C14-generator-errors", "the generator's driver drops no exception (a family is written completely or the run fails): no "
                    "swallowing handler, suppress() or ignore_errors in the modules that write the schema tree", floor=2)
    for row in _scan.swallowed_errors(ctx, ["codegen.generate_schema", "codegen.recreate_schema_path", "codegen.generate_index", "codegen.util"]):
        rep.check(R_GE, row["ok"], construct=f"{row['module']}:{row['function']}", stmt=row["stmt"], message=row["what"], file=row["file"], line=row["line"])
    families = collections.defaultdict(dict)  # (api, type) -> version -> top class
    for mname, m in sorted(S.modules.items()):
        tops = S.top_level(m)
        ok = rep.check(R_TOP, len(tops) == 1, construct=mname, stmt=", ".join(c["name"] for c in tops),
                       message=f"module has {len(tops)} non-nested classes", file=m["path"], line=1)
        if not ok:
            continue
        top = tops[0]
        sig = lambda c: tuple(S.cv_const(c, k) for k in ("__version__", "__flexible__", "__api_key__", "__header_schema__"))
        for c in m["classes"]:
            a, b = sig(c), sig(top)
            rep.check(R_UNI, a == b and not any(isinstance(x, dict) for x in a), construct=c["key"],
                      stmt=f"version={a[0]} flexible={a[1]} api_key={a[2]} header={a[3]}",
                      message=f"class variables differ from the module's top-level class {top['name']}: "
                              f"{a} vs {b}", **loc(S, c))
        for c in m["classes"]:
            for f in c["fields"]:
                base, arr, outer, inner = S.base_of(f["type"])
                n_ = base.get("n", "")
                if n_.startswith("kio.schema.") and ":" in n_ and not n_.startswith(("kio.schema.types:", "kio.schema.errors:")):
                    rep.check(R_REF, n_.split(":")[0] == mname, construct=f"{c['key']}.{f['name']}", stmt=f"{f['name']}: {n_}",
                              message=f"the field's entity type {n_} is defined in another version module: it carries that module's version, "
                                      f"flexibility and header schema, not this module's", file=m["path"], line=f["line"])
        exp = (basic_name(top["name"]), S.cv_const(top, "__version__"), S.cv_const(top, "__type__"))
        got = (m["api"], m["version"], m["type"])
        rep.check(R_PATH, exp == got, construct=top["key"], stmt=f"path={got}",
                  message=f"module path says {got} but the top-level class says {exp}", **loc(S, top))
        families[(m["api"], m["type"])][m["version"]] = top
    rep.sample({"module": "kio.schema.metadata.v12.request", "rule": "C14-path",
                "computed": [basic_name("MetadataRequest"), 12, "request"]})

    api_keys = collections.defaultdict(set)
    keys_api = collections.defaultdict(set)
    for (api, typ), vs in sorted(families.items()):
        vv = sorted(vs)
        fam = f"kio.schema.{api}:{typ}"
        rep.check(R_CONT, vv == list(range(vv[0], vv[-1] + 1)), construct=fam, stmt=str(vv),
                  message=f"versions are not contiguous: {vv}", file=f"src/kio/schema/{api}")
        flex = [S.cv_const(vs[v], "__flexible__") for v in vv]
        mono = all(isinstance(x, bool) for x in flex) and all((not a) or b for a, b in zip(flex, flex[1:]))
        rep.check(R_FLEX, mono, construct=fam, stmt=str(flex),
                  message=f"flexibility reverts or is not a bool along versions {vv}: {flex}",
                  file=f"src/kio/schema/{api}")
        ks = {S.cv_const(vs[v], "__api_key__") for v in vv}
        for k in ks:
            api_keys[api].add(k)
            if k is not None:
                keys_api[k].add(api)
    for api, ks in sorted(api_keys.items()):
        rep.check(R_KEYC, len(ks) == 1, construct=f"kio.schema.{api}", stmt=str(sorted(map(str, ks))),
                  message=f"API carries several API keys: {sorted(map(str, ks))}", file=f"src/kio/schema/{api}")
    for k, apis in sorted(keys_api.items(), key=lambda kv: str(kv[0])):
        rep.check(R_KEYU, len(apis) == 1 and isinstance(k, int), construct=f"api_key={k}", stmt=str(sorted(apis)),
                  message=f"API key {k} is used by several APIs: {sorted(apis)}")
    apis = sorted({a for a, _ in families})
    for api in apis:
        rq, rs = families.get((api, "request")), families.get((api, "response"))
        if rq is None and rs is None:
            continue
        rep.check(R_RR, rq is not None and rs is not None and sorted(rq) == sorted(rs),
                  construct=f"kio.schema.{api}", stmt=f"request={sorted(rq or [])} response={sorted(rs or [])}",
                  message="request and response versions differ", file=f"src/kio/schema/{api}")
    rep.extra.update(modules=len(S.modules), classes=len(S.classes), families=len(families), api_keys=len(keys_api))
    rep.trusted_base += ["kverif/ssm.py constant folding of class variables (i16(N) -> N, EntityType.x -> x)"]
