"""Shared helpers for the stream-capability / exception-flow / state properties."""
from __future__ import annotations

import struct as _struct

from ..core import AnalysisError
from ..values import LibClass, ClassV

SERIAL_MODULES = ["kio.serial", "kio.serial._parse", "kio.serial._serialize", "kio.serial.readers", "kio.serial.writers",
                  "kio.serial._introspect", "kio.serial._implicit_defaults", "kio.serial._shared", "kio.serial.errors",
                  "kio._utils", "kio.static._phantom", "kio.static.primitive", "kio.static.constants"]


def site_loc(ctx, site: str):
    """'module:qualname:line' -> file/line/function."""
    parts = site.rsplit(":", 2)
    if len(parts) != 3:
        return {"file": "", "line": 0}, site
    mod, fn, line = parts
    src = ctx.sm.get(mod)
    return {"file": src.rel if src else mod, "line": int(line) if line.isdigit() else 0}, f"{mod}:{fn}"


def stmt_at(ctx, site: str) -> str:
    """Normalised source statement at a site (key of a finding: not a line number)."""
    import ast
    parts = site.rsplit(":", 2)
    if len(parts) != 3 or not parts[2].isdigit():
        return site
    src = ctx.sm.get(parts[0])
    if src is None:
        return site
    line = int(parts[2])
    best = None
    for n in ast.walk(src.tree):
        if isinstance(n, ast.stmt) and n.lineno <= line <= (n.end_lineno or n.lineno):
            if not isinstance(n, (ast.FunctionDef, ast.ClassDef, ast.If, ast.For, ast.While, ast.With, ast.Try, ast.Match)):
                if best is None or n.lineno >= best.lineno:
                    best = n
    if best is None:
        for n in ast.walk(src.tree):
            if isinstance(n, ast.stmt) and n.lineno == line:
                best = n
                break
    return ast.unparse(best)[:200] if best is not None else site


def exc_class(ctx, ref: str):
    I = ctx.interp
    if ":" in ref:
        mod, name = ref.split(":", 1)
        v = I.module(mod).env.vars.get(name)
        if isinstance(v, ClassV):
            return v
        raise AnalysisError(f"exception class {ref} not found")
    return LibClass.get(ref)


def min_size(n, classes_min) -> int:
    """Minimum number of wire bytes a reader grammar consumes on a returning path."""
    k = n.get("k")
    if k == "scalar":
        p = n["prefix"]
        return _struct.calcsize(p["fmt"]) if p["k"] == "fixed" else 1
    if k in ("lenpref", "array"):
        p = n["prefix"]
        return _struct.calcsize(p["fmt"]) if p["k"] == "fixed" else 1
    if k == "uuid":
        return 16
    if k == "marked":
        return 1
    if k == "struct":
        return classes_min(n.get("class"))
    if k == "opaque":
        return 1  # not understood: reported as an analysis limit by the caller (W.finish), never as "0 bytes"
    return 0
