"""C07 -- messages are self-delimiting on a sequential stream; independent of sink/source kind."""
from __future__ import annotations

from .streams import site_loc, stmt_at

PID = "C07"
LEVEL = "other"
TECHNIQUE = ("stream-capability and allocation-scope analysis (E4) over the effect traces of every reader and writer "
             "path; byte-count terms from the derived grammars (C01-b)")

ENCODE_OK = {"write", "wvarint", "codec"}
DECODE_OK = {"read", "xread", "varint", "codec"}


def check(rep, ctx):
    b = ctx.bundle
    eng = b["engine"]
    rep.explanation = (
        "Encode side: on every explored path of every writer (public functions of kio.serial.writers, both array "
        "factories' closures, write_tagged_field, entity_writer's closures for all classes) the caller's sink is used "
        "only through .write(x) with x an immutable bytes value (struct.pack result, int.to_bytes, str.encode, a bytes "
        "value, getvalue() of a *local* scratch buffer, which copies); the result of .write is unused; no seek / tell / "
        "truncate / flush / close / getvalue / writelines on the sink. Staging buffers are allocated inside the writing "
        "call, never while a cached plan is built. Decode side: only sized sequential reads (C06-a). These are the "
        "capabilities common to io.BytesIO, a write-only socket file, asyncio.StreamWriter and a read-only source. "
        "Self-delimitation: the bytes a decode consumes are the bytes the encode produced (C01-a/b).")
    R_W = rep.rule("C07-w-capability", "the caller's sink is only written to (or passed on)", floor=18)
    R_B = rep.rule("C07-w-bytes", "every write passes an immutable bytes value; the result of write() is unused", floor=18)
    R_L = rep.rule("C07-w-staging", "scratch buffers are local to the writing call", floor=2)
    R_OV = rep.rule("C07-r-no-over-read", "no read asks the caller's stream for the larger of what is needed and something else (read(max(...)))", floor=0,
                   necessary_because="skipping an unknown tagged field with read(max(remaining, 4096)) swallows up to 4 KiB of what follows it")
    from .. import scan as _scan
    for o in _scan.over_reads(ctx, ["kio.serial.readers", "kio.serial._parse", "kio.records.readers"]):
        rep.check(R_OV, False, construct=o["function"], stmt=o["stmt"],
                  message=f"`{o['stmt']}` requests {o['size']} bytes: more than the item holds whenever the other operand is larger -- the bytes of "
                          f"the next field, element or message are consumed and discarded", file=o["file"], line=o["line"])
    for o in _scan.fixed_chunk_reads(ctx, ["kio.serial.readers", "kio.serial._parse", "kio.records.readers"]):
        rep.check(R_OV, False, construct=o["function"], stmt=o["stmt"],
                  message=f"`{o['stmt']}` in a loop takes {o['size']} bytes at a time whatever is still missing: unless the length is a multiple of "
                          f"{o['size']} the last chunk swallows bytes of the next field, element or message (a chunked reader asks for "
                          f"min(remaining, {o['size']}))", file=o["file"], line=o["line"])
    rep.count(R_OV, 1, instance="scan")
    R_R = rep.rule("C07-r-capability", "the caller's source is only read sequentially with explicit sizes", floor=19)
    for d, kind, skind, site, detail, n in eng["effects"]:
        if not site.startswith("kio.serial"):
            continue
        where, fn = site_loc(ctx, site)
        if d == "w" and skind == "param" and kind != "mutate":
            rep.check(R_W, kind in ENCODE_OK, construct=fn, stmt=stmt_at(ctx, site),
                      message=f"the caller's sink is used through {kind}: only write() is available on every sink kind", **where)
        if d == "w" and kind == "write":
            rep.check(R_B, detail == "bytes", construct=fn, stmt=stmt_at(ctx, site),
                      message=f"write() receives {detail}", instance=f"{site}|{skind}|{detail}", **where)
        if d == "w" and kind == "alloc":
            rep.check(R_L, True, construct=fn, stmt=stmt_at(ctx, site), **where)
        if d == "r" and skind == "param" and kind != "mutate":
            rep.check(R_R, kind in DECODE_OK and "size=None" not in detail, construct=fn, stmt=stmt_at(ctx, site),
                      message=f"the caller's source is used through {kind} {detail}", **where)
    for side, cls, site in b["factory"]["allocs"]:
        where, fn = site_loc(ctx, site)
        rep.check(R_L, False, construct=fn, stmt=stmt_at(ctx, site),
                  message=f"a scratch buffer is allocated while the cached {side} plan of {cls} is built: it is shared by every later call",
                  **where)
    # self-delimitation: the bytes a field's reader consumes are the bytes its writer produced (prefix kind, bias, payload)
    from ..grammar import cmp_rw
    from .wire import Wire
    W = Wire(ctx)
    R_S = rep.rule("C07-selfdelim", "per field, the reader's framing (prefix kind, width, bias, null form, item framing) is the writer's: "
                   "a message ends exactly where the next one starts", floor=5000)
    for key, cls, plan in W.classes():
        if plan["error"]:
            continue
        for item in W.fields(key, cls, plan):
            pf, f = item["pf"], item["f"]
            if pf is None or pf.get("r") is None or pf.get("w") is None:
                continue
            diffs = [x for x in cmp_rw(W.nr(pf["r"]), W.nw(pf["w"]), f["name"]) if "conversion" not in x]
            rep.check(R_S, not diffs, construct=f"{key}.{f['name']}", stmt=f"{pf['r_codec']['fn']} / {pf['w_codec']['fn']}",
                      message="; ".join(diffs), **W.codec_loc(pf.get("w_codec")))
    R_LD = rep.rule("C07-length-domain", "no field's reader rejects, and no field's writer refuses, a length the field's format carries "
                    "(the message is lost in the middle of the stream otherwise)", floor=1500)
    from .wire import length_domain_rows
    for key, cls, plan in W.classes():
        if plan["error"]:
            continue
        for item in W.fields(key, cls, plan):
            pf, f = item["pf"], item["f"]
            if pf is None or pf.get("r") is None or pf.get("w") is None:
                continue
            for ok_, c_, stmt_, msg_, loc_ in length_domain_rows(W, pf, f"{key}.{f['name']}"):
                rep.check(R_LD, ok_, construct=c_, stmt=stmt_, message=msg_, instance=f"{key}.{f['name']}|{stmt_[:30]}", **loc_)
    from .. import scan as _scan2
    R_SL = rep.rule("C07-w-slices", "no payload slice of the form x[-r:] with a remainder r that may be zero (for r == 0 that is the whole payload, "
                    "written a second time after its full chunks)", floor=0,
                    necessary_because="a value whose size is an exact multiple of the chunk size is followed by a copy of itself: the length "
                                      "prefix says N, 2N bytes follow")
    for o in _scan2.minus_zero_slices(ctx, ["kio.serial.writers", "kio.serial._serialize", "kio.records.writers"]):
        rep.check(R_SL, False, construct=o["function"], stmt=o["stmt"],
                  message=f"`{o['stmt']}`: {o['name']} is a remainder and may be 0, and x[-0:] is all of x -- the tail chunk repeats the whole value",
                  file=o["file"], line=o["line"])
    rep.count(R_SL, 1, instance="scan")
    W.finish(rep)
    rep.sample({"rule": "C07-w-capability", "effects": [e for e in eng["effects"] if e[0] == "w" and e[2] == "param"][:4]})
    rep.extra.update(depends_on="C01-a/b for byte-count agreement; C06-a for the decode side")
