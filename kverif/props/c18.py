"""C18 -- reading a record batch is faithful and rejects damaged data."""
from __future__ import annotations

import struct as _struct

from .. import timeflow
from ..core import AnalysisError
from ..descr import contains, linear
from ..plans import jsonable
from ..records import RecordsAnalysis, BATCH_SPEC, MAGIC, ZIGZAG_DEC, fmt_of_write
from ..values import Sym, InstV, term_of, show_term
from .streams import site_loc, stmt_at

PID = "C18"
LEVEL = "other"
TECHNIQUE = ("path summaries of read_batch/read_record/read_header: effect-trace layout vs the v2 specification and vs the "
             "writer's layout, checksum-coverage terms, data-flow of every unchecked raw read (into a local buffer, the "
             "checksum, an emptiness probe -- or a returned value), E6 T-gran on the record timestamp")


def canon_facts(p):
    """Facts of a path with wire/stream identifiers renamed by order of appearance in the effects."""
    from ..descr import Canon, event_of
    cn = Canon()
    for e in p.effects:
        event_of(e, cn)
    return cn, [(cn.term(f[0]), f[1], f[3]) for f in p.facts]


def check(rep, ctx):
    RA = RecordsAnalysis(ctx)
    rep.explanation = (
        "read_batch is explored with a symbolic source. Layout: the sequence of reads and the unpack format bound to every "
        "RecordBatch field equal the v2 specification (and therefore the writer's layout, C17). Magic: any value but 2 "
        "raises. Checksum: the bytes passed to crc32c are read right after the CRC field, start at the attributes field and "
        "extend to batch_length counted from partitionLeaderEpoch; a mismatch raises before any record is parsed. "
        "Truncation: a non-exact read is tolerated only where a short result is caught downstream (bytes go into a local "
        "buffer consumed by exact reads, into the checksum, or into an emptiness probe); a raw read whose bytes reach a "
        "returned value is a violation -- nothing downstream can notice that they are short. E6: the record timestamp is "
        "decoded without coarsening below a millisecond. Not decided: the detection strength of CRC-32C.")
    R_L = rep.rule("C18-layout", "batch header fields are read in the v2 order with the v2 formats", floor=13)
    R_M = rep.rule("C18-magic", "a magic byte other than 2 raises", floor=1)
    R_C = rep.rule("C18-crc", "CRC-32C is verified over attributes..end of the batch before records are parsed", floor=3)
    R_R = rep.rule("C18-record", "record fields are read in the v2 order with zig-zag varint lengths and deltas", floor=6)
    R_T = rep.rule("C18-truncation", "no unchecked raw read reaches a returned value", floor=2,
                   necessary_because="a batch cut inside the last header value, with a CRC that matches the prefix, is returned with a short value")
    R_G = rep.rule("C18-time", "record timestamps are decoded to the millisecond (T-gran)", floor=1,
                   necessary_because="base timestamp ...908 ms is read as ...:38.000; write_batch(read_batch(b)) != b")
    R_A = rep.rule("C18-accepts", "no raising path of read_batch is decided by the record count alone for a well-formed count (>= 0)", floor=2,
                   necessary_because="numRecords == 0 is a well-formed batch; max() over its records raises ValueError")
    R_W = rep.rule("C18-rewrite", "write_prepared_batch writes every field of a read batch back in the same layout", floor=13)
    file = ctx.sm.require("kio.records.readers").rel
    B = RA.batch_reader()
    fn = B["fn"]
    p = B["path"]
    layout = B["layout"]
    fields = B["fields"]
    # expected order of exact reads: P0: 8, 4; L0: 4, 1, 4, [crc region], 2, 4, 8, 8, 8, 2, 4, 4
    exact = [(lab, size, w, pos) for lab, size, w, pos in layout if isinstance(size, int)]
    raws = [(lab, size, w, pos) for lab, size, w, pos in layout if not isinstance(size, int)]
    names = [n for n, _ in BATCH_SPEC]
    ok = len(exact) == len(BATCH_SPEC)
    rep.check(R_L, ok, construct=fn.ref, stmt=f"{len(exact)} fixed-size reads", message=f"{len(exact)} fixed-size reads, the v2 header has {len(BATCH_SPEC)} fields",
              file=file, line=fn.node.lineno, instance="count")
    wire_of = {}
    if ok:
        for (name, fmt), (lab, size, w, pos) in zip(BATCH_SPEC, exact):
            want = _struct.calcsize(fmt)
            got = fields.get(name if name != "count" else "__count__")
            problems = []
            if size != want:
                problems.append(f"{size} bytes are read, {fmt} takes {want}")
            if name not in ("magic", "count"):
                if got is None:
                    problems.append("the field of the returned batch is not an unpacked wire value")
                elif got[0] != fmt:
                    problems.append(f"unpacked with {got[0]!r}, the v2 format is {fmt!r}")
                elif got[1] != w:
                    problems.append("the field is taken from a different position of the batch")
            rep.check(R_L, not problems, construct=fn.ref, stmt=f"{name}: read {size} bytes" + (f" as {got[0]}" if got else ""),
                      message=f"slot {name}: " + "; ".join(problems), file=file, line=fn.node.lineno, instance=name)
            wire_of[name] = w
        # magic
        cn0, facts0 = canon_facts(p)

        def U(name, fmt, canon=False):
            """The value term of a header field: unpack of its own read, or code i of the several-field read it was part of."""
            w_ = wire_of[name]
            if isinstance(w_, tuple) and w_[:1] == ("part",):
                t_ = ("unpack", B["multi"][w_[1]], w_[1], w_[2])
            else:
                t_ = ("unpack", fmt, w_, 0)
            return cn0.term(t_) if canon else t_
        mterm = ("eq", U("magic", ">b", True), ("k", MAGIC))
        has_true = any(f[0] == mterm and f[1] for f in facts0)
        bad = [q for q in B["paths"] if any(f[0] == mterm and not f[1] for f in canon_facts(q)[1])]
        rep.check(R_M, has_true and bad and all(q.outcome == "raise" for q in bad), construct=fn.ref, stmt="magic_byte != RecordBatch.magic",
                  message="the magic byte is not compared with 2, or a different value does not raise", file=file, line=fn.node.lineno)
        # crc
        cw = wire_of["crc"]
        crc_facts = [f for f in p.facts if f[0][0] == "eq" and contains(f[0], U("crc", ">I")) and contains(f[0], "crc32c")]
        problems = []
        region = None
        if len(crc_facts) != 1 or not crc_facts[0][1]:
            problems.append("the stored CRC is not compared with crc32c of the data on the accepting path")
        else:
            t = crc_facts[0][0]
            other = t[2] if contains(t[1], U("crc", ">I")) else t[1]
            if not (isinstance(other, tuple) and other[0] == "crc32c"):
                problems.append(f"CRC compared with {show_term(other)}")
            else:
                region = other[1]
                r = [x for x in raws if x[2] == region]
                crc_end0 = next(pos2 + sz for (n, f), (l2, sz, w2, pos2) in zip(BATCH_SPEC, exact) if n == "crc")
                attr_pos0 = next(pos2 for (n, f), (l2, sz, w2, pos2) in zip(BATCH_SPEC, exact) if n == "attributes")
                sliced = None
                if isinstance(region, tuple) and len(region) == 4 and region[0] == "slice" and isinstance(region[1], tuple) and region[1][:1] == ("contents",):
                    # the other spelling: everything the batch buffer holds from the current position on -- the same bytes when the buffer
                    # was filled by one read of batch_length bytes and nothing was written to it since
                    uid = region[1][1]
                    allocs = [e for e in p.effects if e[0] == "alloc" and getattr(e[1], "uid", None) == uid]
                    filled = allocs[0][3] if len(allocs) == 1 else None
                    bl_ = U("batch_length", ">i")
                    _t = lambda x_: x_ if isinstance(x_, tuple) else term_of(x_)
                    src_reads = [e for e in p.effects if e[0] == "read" and filled is not None and _t(e[3]) == _t(filled)]
                    writes = [e for e in p.effects if e[0] in ("write", "wvarint") and getattr(e[1], "uid", None) == uid]
                    sliced = []
                    if len(src_reads) != 1 or term_of(src_reads[0][2]) != bl_:
                        sliced.append("the batch buffer is not filled by one read of batch_length bytes")
                    if writes:
                        sliced.append("the batch buffer is written to before its contents are checksummed")
                    if region[2] != ("k", crc_end0) or region[3] != ("k", None):
                        sliced.append(f"the checksummed slice is [{show_term(region[2])}:{show_term(region[3])}], expected from offset {crc_end0} to the end")
                    if attr_pos0 != crc_end0:
                        sliced.append(f"the attributes field is read at offset {attr_pos0}, the CRC field ends at {crc_end0}")
                if sliced is not None:
                    problems.extend(sliced)
                elif len(r) != 1:
                    problems.append("the checksummed bytes are neither one read of the batch buffer nor a slice of its contents")
                else:
                    lab, size, w, pos = r[0]
                    crc_end = next(pos2 + sz for (n, f), (l2, sz, w2, pos2) in zip(BATCH_SPEC, exact) if n == "crc")
                    attr_pos = next(pos2 for (n, f), (l2, sz, w2, pos2) in zip(BATCH_SPEC, exact) if n == "attributes")
                    if pos != crc_end or attr_pos != crc_end:
                        problems.append(f"the checksummed region starts at offset {pos} of the batch buffer, the attributes field at {attr_pos}, "
                                        f"the CRC field ends at {crc_end}")
                    bl = U("batch_length", ">i")
                    lin = linear(size[1], bl)
                    if lin != (1, -crc_end):
                        problems.append(f"the checksummed region has length {show_term(size[1])}, expected batch_length - {crc_end}")
            ct = cn0.term(t)
            mism = [q for q in B["paths"] if any(f[0] == ct and not f[1] for f in canon_facts(q)[1])]
            if not mism or not all(q.outcome == "raise" for q in mism):
                problems.append("a checksum mismatch does not raise")
            # the records loop comes after the check
            idx_rep = next((i for i, e in enumerate(p.effects) if e is B["repeat"]), None)
            if idx_rep is None or crc_facts[0][3] > idx_rep:
                problems.append("records are parsed before the checksum is verified")
        rep.check(R_C, not problems, construct=fn.ref, stmt="crc != crc32c(batch_buffer.read(batch_length - attributes_pos))",
                  message="; ".join(problems), file=file, line=fn.node.lineno)
        # batch buffer = read(batch_length) of the source
        outer = [x for x in raws if x[0] == "P0"]
        bl = U("batch_length", ">i")
        rep.check(R_C, len(outer) == 1 and outer[0][1][1] == bl, construct=fn.ref, stmt="buffer.read(batch_length)",
                  message="the batch body is not obtained by reading batch_length bytes after the batchLength field", file=file,
                  line=fn.node.lineno, instance="outer")
        rep.check(R_C, B["repeat"] is not None and B["repeat"][1] == U("count", ">i"), construct=fn.ref,
                  stmt="for _ in range(num_records)", message="records are not read `count` times", file=file, line=fn.node.lineno, instance="count-loop")
        # acceptance: the record count alone never makes a batch malformed (zero records is a well-formed batch)
        from ..grammar import eval_int_term
        cnt_c = U("count", ">i", True)

        def count_only(t):
            """Rewrite a condition on the record list / count into a condition on X = count, or None."""
            if not isinstance(t, tuple) or not t:
                return t
            if t == cnt_c:
                return ("X",)
            if t[0] == "nonempty" and isinstance(t[1], tuple) and t[1][:1] in (("repeat",), ("tuple",)):
                inner = t[1][1] if t[1][0] == "repeat" else (t[1][1][1] if isinstance(t[1][1], tuple) and t[1][1][:1] == ("repeat",) else None)
                return ("gt", count_only(inner), ("k", 0)) if inner is not None else None
            if t[0] == "len" and isinstance(t[1], tuple) and t[1][:1] == ("repeat",):
                return ("max", count_only(t[1][1]), ("k", 0))
            if t[0] == "k":
                return t
            if t[0] in ("eq", "ne", "lt", "le", "gt", "ge", "add", "sub", "not", "nonzero", "max", "min"):
                args = [count_only(x) for x in t[1:]]
                return None if any(a is None for a in args) else (t[0],) + tuple(args)
            return None
        n_acc = 0
        for q in B["paths"]:
            if q.outcome != "raise" or not q.facts:
                continue
            cq, fq = canon_facts(q)
            t, pol = fq[-1][0], fq[-1][1]
            c = count_only(t)
            n_acc += 1
            if c is None or not contains(c, ("X",)):
                rep.check(R_A, True, construct=fn.ref, stmt=show_term(t)[:120], instance=f"raise|{n_acc}", file=file, line=fn.node.lineno)
                continue
            hit = next((v for v in (0, 1, 2, 1000, 2 ** 31 - 1) if (lambda r: r is not None and bool(r) == bool(pol))(eval_int_term(c, v))), None)
            rep.check(R_A, hit is None, construct=fn.ref, stmt=f"raise when {show_term(c)} is {pol}",
                      message=f"a batch is rejected ({getattr(q.value.cls, 'name', None) or q.value.cls.ref} at {q.value.attrs.get('__site__', '?')}) on a "
                              f"condition of its record count alone, which holds for the well-formed count {hit}: a batch with {hit} record(s) "
                              f"(what a broker serves after compaction removed every record, for 0) cannot be read",
                      file=file, line=fn.node.lineno)
        # acceptance, after the integrity checks: once magic and CRC have passed, read_batch itself (or the RecordBatch constructor) has no
        # ground to reject a batch -- the v2 format puts no further constraint on the header fields (compaction leaves lastOffsetDelta and
        # the base offset as they were and removes records)
        crc_t = cn0.term(crc_facts[0][0]) if len(crc_facts) == 1 else None
        for q in B["paths"]:
            if q.outcome != "raise" or crc_t is None:
                continue
            cq, fq = canon_facts(q)
            if not any(f_[0] == crc_t and f_[1] for f_ in fq):
                continue
            site_ = str(q.value.attrs.get("__site__", ""))
            if not site_.startswith(("kio.records.readers:read_batch", "kio.records.schema")):
                continue
            t_ = fq[-1][0] if fq else None
            if t_ is not None and count_only(t_) is not None and contains(count_only(t_), ("X",)):
                continue  # the count-only rule above reports it
            maxw_c = U("max_timestamp", ">q", True)
            attw_c = U("attributes", ">h", True)
            if t_ is not None and contains(t_, maxw_c) and any(contains(f_[0], attw_c) and contains(f_[0], ("k", 8)) for f_ in fq):
                continue  # CreateTime batches only: maxTimestamp is by definition the largest record timestamp
            rep.check(R_A, False, construct=fn.ref, stmt=stmt_at(ctx, site_) or site_,
                      message=f"a batch whose magic and checksum are right is rejected ({getattr(q.value.cls, 'name', None) or q.value.cls.ref} at "
                              f"{site_}) on {show_term(t_)[:160] if t_ is not None else '?'}: the format does not constrain the header this way "
                              f"(a compacted batch keeps its base offset and lastOffsetDelta while records are removed)", file=file,
                      line=fn.node.lineno, instance=f"post-crc|{site_}")
        # acceptance, record loop: the format relates a record to the batch header through base offset / base timestamp only.  A raise
        # decided by comparing a record with maxTimestamp is justified only for CreateTime batches (attributes bit 3 clear), where
        # maxTimestamp is by definition the largest record timestamp; under LogAppendTime it is the broker's clock.
        if B["repeat"] is not None:
            maxw = U("max_timestamp", ">q")
            attw = U("attributes", ">h")
            seen_acc = set()
            for facts_, effs_, out_, val_ in B["repeat"][2]:
                if out_ != "raise" or not facts_:
                    continue
                t_, pol_, site_ = facts_[-1][0], facts_[-1][1], facts_[-1][2]
                if not contains(t_, maxw) or not str(site_).startswith("kio.records.readers:read_batch"):
                    continue
                create_time_only = any(contains(f_[0], attw) and contains(f_[0], ("k", 8)) for f_ in list(facts_) + list(p.facts))
                key_ = (site_, pol_, create_time_only)
                if key_ in seen_acc:
                    continue
                seen_acc.add(key_)
                rep.check(R_A, create_time_only, construct=fn.ref, stmt=stmt_at(ctx, site_),
                          message="a batch is rejected because a record's timestamp exceeds the header's maxTimestamp, whatever the timestamp type: "
                                  "under LogAppendTime (attributes bit 3) maxTimestamp is the broker's append time and records keep their own "
                                  "timestamps, so a well-formed batch (producer clock ahead of the broker's) cannot be read", file=file,
                          line=int(str(site_).rsplit(":", 1)[1]) if str(site_).rsplit(":", 1)[1].isdigit() else fn.node.lineno)
    # records ------------------------------------------------------------------------------------------------
    RR = RA.record_reader()
    rfn = RR["fn"]
    bt, bo = RR["bt"].term, RR["bo"].term
    rrets = [q for q in RR["paths"] if q.outcome == "return"]
    rep.check(R_R, len(rrets) >= 4, construct=rfn.ref, stmt=f"{len(rrets)} returning paths",
              message=f"key and value are each null or not: at least 4 returning paths are needed, found {len(rrets)}", file=file,
              line=rfn.node.lineno, instance="paths")
    ts_terms = []
    for q in rrets:
        evs = [e for e in q.effects if e[0] in ("xread", "varint", "read", "repeat", "alloc")]
        kinds = []
        for e in evs:
            if e[0] == "varint":
                kinds.append(("varint", e[2]["max_bytes"], e[3], e[1].kind))
            elif e[0] == "xread":
                kinds.append(("xread", e[2], e[3], e[1].kind))
            elif e[0] == "read":
                kinds.append(("read", e[2], e[3], e[1].kind))
            elif e[0] == "repeat":
                kinds.append(("repeat", e[1], None, None))
            else:
                kinds.append(("alloc", term_of(e[3]) if e[3] is not None else None, None, None))
        problems = []
        res = q.value
        try:
            it = iter(kinds)
            k = next(it)
            if k[0] != "varint" or k[1] != 5 or k[3] != "param":
                problems.append("record length is not a varint read from the source")
            ln = ZIGZAG_DEC(k[2])
            k = next(it)
            if k[0] != "read" or term_of(k[1]) != ln:
                problems.append(f"record body is not read with the zig-zag decoded length: {show_term(term_of(k[1]))}")
            body = k[2]
            k = next(it)
            if k[0] != "alloc" or k[1] != body:
                problems.append("record body is not wrapped in a local buffer")
            k = next(it)
            if k[:2] != ("xread", 1):
                problems.append("attributes is not a 1-byte exact read")
            aw = k[2]
            k = next(it)
            if k[0] != "varint" or k[1] != 10:
                problems.append("timestamp delta is not a varlong")
            tsd = ZIGZAG_DEC(k[2])
            k = next(it)
            if k[0] != "varint" or k[1] != 5:
                problems.append("offset delta is not a varint")
            od = ZIGZAG_DEC(k[2])
            if isinstance(res, InstV):
                if term_of(res.attrs.get("attributes")) != ("unpack", ">b", aw, 0):
                    problems.append("attributes is not the int8 at the start of the record")
                if term_of(res.attrs.get("offset")) != ("add", bo, od):
                    problems.append(f"offset is {show_term(term_of(res.attrs.get('offset')))[:100]}, expected base_offset + zigzag(offset delta)")
                tt = term_of(res.attrs.get("timestamp"))
                if not contains(tt, ("add", bt, tsd)):
                    problems.append("timestamp is not derived from base_timestamp + zigzag(timestamp delta)")
                else:
                    ts_terms.append(tt)
            for nm in ("key", "value"):
                k = next(it)
                if k[0] != "varint" or k[1] != 5:
                    problems.append(f"{nm} length is not a varint")
                    continue
                L = ZIGZAG_DEC(k[2])
                isnull = any(f[0] == ("eq", L, ("k", -1)) and f[1] for f in q.facts)
                got = term_of(res.attrs.get(nm)) if isinstance(res, InstV) else None
                if isnull:
                    if got != ("k", None):
                        problems.append(f"{nm}: length -1 does not yield None")
                else:
                    k = next(it)
                    if k[0] not in ("xread", "read") or term_of(k[1]) != L:
                        problems.append(f"{nm} bytes are not read with the decoded length")
                    elif got != k[2]:
                        problems.append(f"{nm} is not the bytes read")
                    neg = [f for f in q.facts if f[0] == ("lt", L, ("k", 0)) and not f[1]]
                    if not neg:
                        problems.append(f"{nm}: a negative length other than -1 is not rejected")
            k = next(it)
            if k[0] != "varint" or k[1] != 5:
                problems.append("header count is not a varint")
            hc = ZIGZAG_DEC(k[2])
            k = next(it)
            if k[0] != "repeat" or k[1] != hc:
                problems.append("headers are not read `header count` times")
            k = next(it)
            if k[0] != "read" or term_of(k[1]) != ("k", 1):
                problems.append("no trailing-bytes probe after the headers")
            rest = list(it)
            if rest:
                problems.append(f"{len(rest)} further reads after the record")
        except StopIteration:
            problems.append("the record reader performs fewer reads than the format has fields")
        rep.check(R_R, not problems, construct=rfn.ref, stmt="read_record path", message="; ".join(problems), file=file, line=rfn.node.lineno,
                  instance=str(sorted((show_term(f[0])[:40], f[1]) for f in q.facts))[:200])
    hp, hfn = RA.read_paths("read_header")
    rep.check(R_R, len([x for x in hp if x.outcome == "return"]) >= 2, construct=hfn.ref, stmt="read_header paths",
              message="header reader: a header value is null or not, at least 2 returning paths are needed", file=file, line=hfn.node.lineno, instance="header")
    # truncation: data-flow of unchecked raw reads -------------------------------------------------------------------
    seen = {}
    for name, paths in (("read_batch", B["paths"]), ("read_record", RR["paths"]), ("read_header", hp)):
        for r in RA.raw_reads(paths, name):
            key = r["site"]
            cur = seen.setdefault(key, {"uses": set(), "checked": True})
            cur["uses"].update(r["uses"])
            cur["checked"] = cur["checked"] and r["checked"]
    for site, info in sorted(seen.items()):
        where, f_ = site_loc(ctx, site)
        bad = "returned-value" in info["uses"] and not info["checked"]
        rep.check(R_T, not bad, construct=f_, stmt=stmt_at(ctx, site),
                  message=f"the bytes of an unchecked read become part of the returned value (uses: {sorted(info['uses'])}): "
                          f"a truncated batch whose CRC matches its prefix yields a short key/value/header", **where)
    # E6 ---------------------------------------------------------------------------------------------------------------
    done = set()
    for tt in ts_terms:
        conv = jsonable(tt)
        hole = None

        def find(x):
            nonlocal hole
            if isinstance(x, list) and len(x) == 3 and x[0] == "add" and x[1] == jsonable(bt) and hole is None:
                hole = x
            elif isinstance(x, list):
                for y in x:
                    find(y)
        find(conv)

        def sub(x):
            if x == hole:
                return ["X"]
            if isinstance(x, list):
                return [sub(y) for y in x]
            return x
        c2 = sub(conv)
        key = timeflow.show(c2)
        if key in done:
            continue
        done.add(key)
        qv, issues = timeflow.read_side(c2, 64, "timestamp")
        issues = [i for i in issues if i[0] in ("T-gran", "T-trunc", "T-epoch")]
        if qv is None:
            rep.limit(f"{rfn.ref}: record timestamp conversion not understood: {key[:160]}")
            continue
        rep.check(R_G, qv is not None and not issues, construct=rfn.ref, stmt=key,
                  message="; ".join(f"{r}: {m}" for r, m, _ in issues) or "conversion not understood", file=file, line=rfn.node.lineno)
    # exceptions: a well-formed batch (any record count, incl. zero) must not end in an internal error
    R_X = rep.rule("C18-exceptions", "no internal error (IndexError, KeyError, AttributeError, AssertionError) can leave the batch reader: "
                   "a well-formed batch of any record count is returned", floor=3)
    from .streams import exc_class
    I = ctx.interp
    allowed = [exc_class(ctx, n) for n in ("ValueError", "kio.serial.errors:SerialError", "OverflowError")]
    seen_exc = {}
    for name, paths in (("read_batch", B["paths"]), ("read_record", RR["paths"]), ("read_header", hp)):
        def visit(effects, outcome, value):
            for e in effects:
                if e[0] == "raise-site":
                    seen_exc.setdefault((e[1], e[2]), e[3])
                elif e[0] == "repeat":
                    for f2, e2, o2, v2 in e[2]:
                        visit(e2, o2, v2)
            if outcome == "raise":
                seen_exc.setdefault((value.cls.name if hasattr(value.cls, "name") and not hasattr(value.cls, "ref") else value.cls.ref,
                                     value.attrs.get("__site__", "")), "")
        for q in paths:
            visit(q.effects, q.outcome, q.value)
    for (exc, site), why in sorted(seen_exc.items()):
        ok = exc.split(":")[-1] not in ("IndexError", "KeyError", "AttributeError", "AssertionError", "NameError", "LookupError")
        where, f_ = site_loc(ctx, site) if site else ({"file": file, "line": 0}, "kio.records.readers")
        rep.check(R_X, ok, construct=f_, stmt=stmt_at(ctx, site) if site else exc,
                  message=f"{exc} can leave the batch reader ({why or 'raised here'}): a well-formed batch must be returned, a damaged one "
                          f"rejected with a decode error", **where)
    # rewrite: write_prepared_batch ---------------------------------------------------------------------------------------
    batch = RA.I.sym_of_type(("param", "batch"), RA.cls("RecordBatch"))
    wp, wfn = RA.write_paths("write_prepared_batch", [batch])
    wfile = ctx.sm.require("kio.records.writers").rel
    wrets = [x for x in wp if x.outcome == "return"]
    if not wrets:
        rep.check(R_W, False, construct=wfn.ref, stmt="write_prepared_batch", message="no returning path: a batch that was read cannot be written back", file=wfile, line=wfn.node.lineno)
    first_wret = True
    for wret in wrets:  # every returning path is held to the same rules (a helper that forks is not a violation)
        _chk = (lambda rule, ok, **kw: rep.check(rule, ok, **kw)) if first_wret else (lambda rule, ok, **kw: (ok or rep.check(rule, ok, **kw)))
        first_wret = False
        ws = [e for e in wret.effects if e[0] in ("write", "wvarint") and e[1].kind == "param"]
        for i, (name, fmt) in enumerate(BATCH_SPEC):
            if i >= len(ws):
                _chk(R_W, False, construct=wfn.ref, stmt=name, message=f"slot {name} is not written", file=wfile, line=wfn.node.lineno, instance=name)
                continue
            gf, gv = fmt_of_write(ws[i])
            if name == "count":
                want = ("len", ("attr", batch.term, "records"))
            else:
                want = ("attr", batch.term, name)
            if name == "magic":
                okk = gf in (fmt, "const:" + _struct.pack(fmt, MAGIC).hex())
            else:
                okk = gf == fmt and gv == want
            _chk(R_W, okk, construct=wfn.ref, stmt=f"{name}: {gf} <- {show_term(gv)[:80]}",
                      message=f"slot {name} is written as {gf} <- {show_term(gv)[:100]}, expected {fmt} <- {show_term(want)}",
                      file=wfile, line=wfn.node.lineno, instance=name)
        # the records are written relative to the batch's own base offset / base timestamp (what the reader adds back)
        loops = [e for e in wret.effects if e[0] == "repeat" and e[1] == ("len", ("attr", batch.term, "records"))]
        _chk(R_W, len(loops) == 1, construct=wfn.ref, stmt="for record in batch.records", message="the records of the batch are not written "
                  "once each", file=wfile, line=wfn.node.lineno, instance="loop")
        if len(loops) == 1:
            subs = set()

            def walk(t):
                if isinstance(t, tuple):
                    if t[:1] == ("sub",) and len(t) == 3:
                        subs.add(t)
                    for x in t:
                        walk(x)
            for facts_, effs_, out_, val_ in loops[0][2]:
                for x in effs_:
                    if x[0] in ("wvarint", "write"):
                        for a in x[2:]:
                            try:
                                walk(term_of(a))
                            except Exception:  # noqa: BLE001 -- non-term payloads (dict summaries) carry no value terms
                                pass
            elem = ("elem", ("attr", batch.term, "records"))
            for fld, base in (("offset", "base_offset"), ("timestamp", "base_timestamp")):
                rel = [t for t in subs if contains(t[1], ("attr", elem, fld)) and not (t[2][0] == "k")]
                want = ("attr", batch.term, base)
                bad = [t for t in rel if t[2] != want]
                _chk(R_W, bool(rel) and not bad, construct=wfn.ref, stmt=f"record {fld} delta relative to {show_term(rel[0][2])[:80] if rel else '?'}",
                          message=(f"record {fld} deltas are written relative to {show_term(bad[0][2])[:120]}, not to batch.{base}: the reader adds "
                                   f"batch.{base} back, so a batch whose first record is not at the base (compacted) is not written back as read")
                          if bad else f"no {fld} delta relative to a base found in the records loop",
                          file=wfile, line=wfn.node.lineno, instance=f"delta|{fld}")
    rep.sample({"rule": "C18-truncation", "raw_reads": {k: sorted(v["uses"]) for k, v in seen.items()}})
    rep.trusted_base += ["crc32c.crc32c", "struct format table", "io.BytesIO(bytes) semantics: read(n) returns at most n bytes"]
