"""C16 -- the generator translates any well-formed message definition faithfully.

Input -> output faithfulness quantifies over inputs of the generator and is NOT decided (no
static argument in reach bounds it; the upstream definitions are absent).  Decided: closed-world
facts about the generator's own tables that every definition depends on (G1-G7)."""
from __future__ import annotations

import ast

from ..core import AnalysisError
from ..gen import header_schema_paths
from ..gen_tables import (hint_and_default_table, primitive_members, classvar_templates, metadata_keys_written,
                          metadata_keys_read, eval_in, _mod)
from ..grammar import SPEC_PYTYPE
from ..interp_base import Raised, Run, Limit, short_exc
from ..values import ClassV, FuncV, UnionV, LibClass, InstV, EnumMemberV
from .c13 import inhabits

PID = "C16"
LEVEL = "other"
TECHNIQUE = ("abstract evaluation (E2) of the generator's pure functions over their finite input tables (Primitive enum, "
             "header rule decision space, version-range forms); its emitted strings are parsed as Python fragments and "
             "evaluated in the environment the generated-module template imports")


def check(rep, ctx):
    I = ctx.interp
    rep.explanation = (
        "Explicitly partial. NOT decided: which fields appear in which version with what nullability/tag/default for an "
        "arbitrary definition (input->output faithfulness), and that generated instances encode to the bytes the "
        "definition prescribes. Decided -- closed-world tables every definition depends on: G1 every Primitive member has a "
        "reader and a writer row for both flexibilities; G2 get_type_hint and _format_default_for_tagged are exhaustive over "
        "the enum and every string they return parses as an expression whose names are bound by the generated module's "
        "imports and (for defaults) denotes a member of the hint type; G3 hint type = the type the serializer's tables "
        "handle for that kafka type; G4 header_schema.py = the Kafka rule; G5 the class-variable templates carry the names "
        "the protocols and the serializer read; G6 metadata keys written = keys read by _introspect, index entry format = "
        "what kio.index parses; G7 VersionRange.matches is inclusive at both ends, 'none' is empty, 'N+' is unbounded above.")
    R1 = rep.rule("C16-G1-rows", "every Primitive member has a reader and a writer for both flexibilities", floor=60)
    R2 = rep.rule("C16-G2-strings", "type hints and tagged defaults are exhaustive, evaluate in a generated module and the "
                  "default inhabits the hint type", floor=30,
                  necessary_because="a tagged, ignorable bool without default yields `default=false`: NameError on import")
    R3 = rep.rule("C16-G3-hint-type", "hint type = the type the serializer handles for the kafka type", floor=15)
    R4 = rep.rule("C16-G4-header", "header import rule = the Kafka rule", floor=20)
    R5 = rep.rule("C16-G5-classvars", "class variable templates carry the names the protocols and serializer read", floor=5)
    R6 = rep.rule("C16-G6-keys", "metadata keys written = keys read; index entry format = what kio.index parses", floor=3)
    R7 = rep.rule("C16-G7-versions", "VersionRange semantics: inclusive bounds, 'none' empty, 'N+' unbounded", floor=16)
    P, members = primitive_members(ctx)
    pm, sm = _mod(ctx, "kio.serial._parse"), _mod(ctx, "kio.serial._serialize")
    gr, gw = pm.env.vars.get("get_reader"), sm.env.vars.get("get_writer")
    if not isinstance(gr, FuncV) or not isinstance(gw, FuncV):
        raise AnalysisError("anchor vanished: get_reader/get_writer")
    for m in members:
        for flex in (False, True):
            for side, fn in (("reader", gr), ("writer", gw)):
                try:
                    I.call(fn, [], {"kafka_type": m.value, "flexible": flex, "optional": False}, Run(), None)
                    ok, why = True, ""
                except Raised as r:
                    ok, why = False, f"raises {short_exc(r.cls)}"
                rep.check(R1, ok, construct=fn.ref, stmt=f"({m.value!r}, flexible={flex}, optional=False)",
                          message=f"Primitive.{m.name} ({m.value!r}) has no {side}: {why}",
                          file=ctx.sm.require(fn.module).rel, line=fn.node.lineno, instance=f"{side}|{m.value}|{flex}")
    table, env, fdt = hint_and_default_table(ctx)
    gsfile = ctx.sm.require("codegen.generate_schema").rel
    pfile = ctx.sm.require("codegen.parser").rel
    for row in table:
        hp = [p for p in row["problems"] if "hint" in p]
        rep.check(R2, not hp and isinstance(row["hint"], str), construct="codegen.parser:Primitive.get_type_hint",
                  stmt=f"{row['member']}: {row['hint']!r}", message="; ".join(hp) or "no hint", file=pfile, line=0,
                  instance=f"hint|{row['member']}")
        dp = [p for p in row["problems"] if "default" in p]
        ok = not dp and isinstance(row["default"], str)
        msg = "; ".join(dp)
        if ok:
            # the default must inhabit the type of an (optional where None) tagged field of that primitive
            dv = row.get("default_value")
            hv = row.get("hint_opt_value") if dv is None else row.get("hint_value")
            try:
                if not inhabits(I, dv, hv):
                    ok, msg = False, f"tagged default {row['default']!r} = {dv!r} is not a member of {row['hint']}"
            except (Raised, Limit) as e:
                ok, msg = False, f"cannot decide membership of {row['default']!r}: {e}"
        if ok and row["kafka_type"] in ("int8", "int16", "int32", "int64", "uint16", "uint32", "uint64", "float64", "bool", "error_code"):
            # a type without a wire-level null: an absent tagged field takes the type's zero value
            dv = row.get("default_value")
            zero = dv is False if row["kafka_type"] == "bool" else (
                isinstance(dv, EnumMemberV) and dv.value == 0 if row["kafka_type"] == "error_code" else
                (isinstance(dv, InstV) and dv.attrs.get("_base_value_") == 0) or (isinstance(dv, (int, float)) and not isinstance(dv, bool) and dv == 0))
            if not zero:
                ok, msg = False, (f"tagged default of {row['kafka_type']} is {row['default']!r}; the type has no null on the wire, an absent tag "
                                  f"means the zero value")
        line = 0
        for n in ast.walk(fdt.node):
            if isinstance(n, ast.match_case) and ast.unparse(n.pattern).endswith("." + row["member"]):
                line = n.pattern.lineno
        rep.check(R2, ok, construct=fdt.ref, stmt=f"case Primitive.{row['member']}: result = {row['default']!r}",
                  message=msg, file=gsfile, line=line or fdt.node.lineno, instance=f"default|{row['member']}")
        # G3
        hv = row.get("hint_value")
        base = hv
        if isinstance(hv, UnionV):
            nn = [a for a in hv.args if not (isinstance(a, LibClass) and a.name == "NoneType")]
            base = nn[0] if len(nn) == 1 else hv
        ref = base.ref if isinstance(base, ClassV) else {"str": "builtins:str", "bytes": "builtins:bytes", "bool": "builtins:bool",
                                                        "uuid.UUID": "uuid:UUID"}.get(getattr(base, "name", None))
        rep.check(R3, ref == SPEC_PYTYPE.get(row["kafka_type"]), construct="codegen.parser:Primitive.get_type_hint",
                  stmt=f"{row['member']}: {row['hint']!r} -> {ref}",
                  message=f"the generator types {row['kafka_type']} fields as {ref}, the serializer's tables handle {SPEC_PYTYPE.get(row['kafka_type'])}",
                  file=pfile, line=0, instance=row["member"])
    rep.sample({"rule": "C16-G2-strings", "table": [{k: r[k] for k in ("member", "hint", "default")} for r in table[:4]]})
    for row in header_schema_paths(ctx):
        rep.check(R4, row["ok"], construct="codegen.header_schema:get_header_schema_import", stmt=row["case"], message=row["message"],
                  file="codegen/header_schema.py", line=row.get("line", 0))
    # G5: names read by the serializer / protocols
    tpl = classvar_templates(ctx)
    need = {"__type__": "kio.static.protocol Entity", "__version__": "kio.static.protocol Entity",
            "__flexible__": "kio.serial._parse / _serialize", "__api_key__": "kio.static.protocol Payload / kio.index",
            "__header_schema__": "kio.static.protocol Payload"}
    psrc = ctx.sm.require("kio.static.protocol")
    declared = {n.target.id for c in ast.walk(psrc.tree) if isinstance(c, ast.ClassDef) for n in c.body
                if isinstance(n, ast.AnnAssign) and isinstance(n.target, ast.Name)} | \
               {n.name for c in ast.walk(psrc.tree) if isinstance(c, ast.ClassDef) for n in c.body if isinstance(n, ast.FunctionDef)}
    for name, who in need.items():
        rep.check(R5, name in tpl and name in declared, construct="codegen.generate_schema:class variable templates",
                  stmt=f"{name}: {sorted((a, s) for a, s, _ in tpl.get(name, ()))}",
                  message=f"{name} (read by {who}) is {'not ' if name not in tpl else ''}emitted by the generator and "
                          f"{'not ' if name not in declared else ''}declared by the protocols", file=gsfile,
                  line=min((l for _, _, l in tpl.get(name, ())), default=0))
    # G6
    w, r = metadata_keys_written(ctx), metadata_keys_read(ctx)
    rep.check(R6, set(w) == set(r), construct="codegen.generate_schema:format_dataclass_field", stmt=f"metadata keys written {sorted(w)}",
              message=f"generator writes metadata keys {sorted(w)}, kio.serial._introspect reads {sorted(r)}", file=gsfile,
              line=min(w.values(), default=0))
    gi = _mod(ctx, "codegen.generate_index")
    fqn, PP = gi.env.vars.get("fqn"), gi.env.vars.get("PathParts")
    ET = _mod(ctx, "kio.static.constants").env.vars["EntityType"]
    if not isinstance(fqn, FuncV) or not isinstance(PP, ClassV):
        raise AnalysisError("anchor vanished: codegen.generate_index.fqn / PathParts")
    try:
        got = I.call(fqn, [I.call(PP, [], {"api_name": "metadata", "version": 12, "entity_type": ET.flags["enum"]["request"],
                                           "entity_name": "MetadataRequest"}, Run(), None)], {}, Run(), None)
    except (Raised, Limit) as e:
        got = f"<{e}>"
    want = "kio.schema.metadata.v12.request:MetadataRequest"
    rep.check(R6, got == want, construct=fqn.ref, stmt=f"fqn(...) = {got!r}", message=f"index entries are formatted as {got!r}; kio.index "
              f"splits 'module:Class' and resolves it with pkgutil.resolve_name, which needs {want!r}", file=ctx.sm.require("codegen.generate_index").rel,
              line=fqn.node.lineno, instance="fqn")
    idx_shipped = ctx.schema.raw["index"]["schema_name_map"].get("metadata", {}).get("12", {}).get("EntityType.request")
    rep.check(R6, idx_shipped == want, construct="kio.schema.index:schema_name_map", stmt=str(idx_shipped),
              message=f"shipped index entry {idx_shipped!r} is not in the generator's format", file="src/kio/schema/index.py", instance="shipped")
    # G7
    VR = _mod(ctx, "codegen.versions").env.vars.get("VersionRange")
    if not isinstance(VR, ClassV):
        raise AnalysisError("anchor vanished: codegen.versions.VersionRange")
    vfile = ctx.sm.require("codegen.versions").rel
    try:
        validators = I.call(I.getattr_(VR, "__get_validators__", Run(), None), [], {}, Run(), None)
        parse = validators.items[0]
    except (Raised, Limit, AttributeError, IndexError) as e:
        raise AnalysisError(f"VersionRange.__get_validators__ not understood: {e}")
    cases = {"3-5": {2: False, 3: True, 4: True, 5: True, 6: False}, "7": {6: False, 7: True, 8: False},
             "4+": {3: False, 4: True, 5: True, 10 ** 6: True}, "none": {0: False, 1: False, 10 ** 6: False},
             "0-0": {0: True, 1: False}}
    for text, exp in cases.items():
        try:
            rng = I.call(parse, [text], {}, Run(), None)
        except (Raised, Limit) as e:
            rep.check(R7, False, construct=parse.ref, stmt=f"parse({text!r})", message=f"raises {e}", file=vfile, line=parse.node.lineno)
            continue
        for v, want_b in exp.items():
            try:
                got_b = I.call(I.getattr_(rng, "matches", Run(), None), [v], {}, Run(), None)
            except (Raised, Limit) as e:
                got_b = f"<{e}>"
            rep.check(R7, got_b is want_b, construct="codegen.versions:VersionRange.matches", stmt=f"{text!r}.matches({v}) = {got_b}",
                      message=f"VersionRange {text!r}: matches({v}) is {got_b}, the message-definition README says {want_b}", file=vfile,
                      line=0, instance=f"{text}|{v}")
    from ..gen_tables import dataclass_field_invariants
    from ..gen_tables import field_nullability_grid, bool_default_spellings
    R9 = rep.rule("C16-G9-per-version", "get_tag(v) / is_nullable(v) over a grid of definitions: tagging and nullability are resolved per version "
                  "(taggedVersions / nullableVersions contain v), numeric primitives never nullable", floor=2000,
                  necessary_because="a field that becomes tagged in v2 is an ordinary mandatory field in v0-v1")
    psrc = ctx.sm.require("codegen.parser")
    for row in field_nullability_grid(ctx):
        rep.check(R9, row["ok"], construct=f"codegen.parser:PrimitiveField.{row['method']}", stmt=row["case"], message=row["message"],
                  file=psrc.rel, line=0)
    R10 = rep.rule("C16-G10-bool-default", "format_default prints the boolean the definition states for every accepted spelling", floor=8)
    gsrc = ctx.sm.require("codegen.generate_schema")
    for row in bool_default_spellings(ctx):
        rep.check(R10, row["ok"], construct="codegen.generate_schema:format_default", stmt=row["case"], message=row["message"],
                  file=gsrc.rel, line=row["line"])
    from ..gen_tables import naming_rows
    R11 = rep.rule("C16-G11-naming", "to_snake_case / basic_name applied to the shipped vocabulary (capitalised-word form of every field name, "
                   "every top-level class name) give the shipped names", floor=500)
    for row in naming_rows(ctx):
        rep.check(R11, row["ok"], construct=row["construct"], stmt=row["stmt"], message=row["message"], file=row["file"], line=row["line"])
    from ..gen_tables import struct_field_lines, string_default_literals
    R12 = rep.rule("C16-G12-struct-fields", "the lines emitted for struct and struct-array fields over a grid of definitions x versions: name, "
                   "nullability, tag and default as the definition states for that version (an array without explicit default is the empty array)",
                   floor=60)
    for row in struct_field_lines(ctx):
        rep.check(R12, row["ok"], construct=f"codegen.generate_schema:{'format_non_primitive_array_field' if row['kind'] == 'array' else 'generate_entity_field'}",
                  stmt=f"{row['kind']} {row['case']}", message=row["message"], file=gsrc.rel, line=0)
    R13 = rep.rule("C16-G13-string-default", "a string default is emitted as a literal that evaluates to that string (quotes, backslashes, "
                   "control characters, non-ASCII, characters beyond U+FFFF)", floor=10)
    for row in string_default_literals(ctx):
        rep.check(R13, row["ok"], construct="codegen.generate_schema:format_default", stmt=row["case"], message=row["message"],
                  file=gsrc.rel, line=row["line"])
    from ..gen_tables import generated_modules
    R14 = rep.rule("C16-G14-modules", "generate_models evaluated on synthetic definitions: for every declared version one class per visible "
                   "structure, nested classes first, with the definition's fields valid for that version in order, their names, nullability, "
                   "tags, defaults, and the version / flexibility / type / API key / header class variables", floor=15,
                   necessary_because="the statement of C16 itself, decided on definitions small enough to read by eye")
    for row in generated_modules(ctx):
        rep.check(R14, row["ok"], construct="codegen.generate_schema:generate_models", stmt=row["case"], message=row["message"], file=gsrc.rel, line=0)
    from ..gen_tables import index_builder_rows
    R15 = rep.rule("C16-G15-index", "build_index evaluated on a handful of shipped entity classes lists every one of them under its name/version/type "
                   "and every API key (0 included) exactly once, headers without key contribute none", floor=8)
    for row in index_builder_rows(ctx):
        rep.check(R15, row["ok"], construct="codegen.generate_index:build_index", stmt=row["case"], message=row["message"],
                  file="codegen/generate_index.py", line=0)
    from ..gen_tables import special_name_rows
    R16 = rep.rule("C16-G16-special-names", "the parser's name-based special cases (ErrorCode, ...Ms durations and timestamps) give every shipped scalar field "
                   "the kafka type it ships with", floor=250)
    for row in special_name_rows(ctx):
        rep.check(R16, row["ok"], construct=row["construct"], stmt=row["stmt"], message=row["message"], file=row["file"], line=row["line"])
    from ..gen_tables import custom_type_rows
    R17 = rep.rule("C16-G17-custom-types", "the definition emitted for every shipped custom type is a subclass of the shipped base", floor=5)
    for row in custom_type_rows(ctx):
        rep.check(R17, row["ok"], construct="codegen.generate_schema:CustomTypeDef.get_definition", stmt=row["case"], message=row["message"],
                  file="codegen/generate_schema.py", line=0)
    from ..gen_tables import primitive_array_lines
    R18 = rep.rule("C16-G18-primitive-arrays", "the line emitted for an array of primitives carries the definition's name, tag and nullability "
                   "for the version", floor=4)
    pa_problems, pa_cases = primitive_array_lines(ctx)
    for aspect, probs in pa_problems.items():
        rep.check(R18, not probs, construct="codegen.generate_schema:generate_primitive_array_field", stmt=f"{aspect} of primitive array fields",
                  message=f"{len(probs)} of {pa_cases} definition x version cases: " + "; ".join(probs[:3]) +
                          (" -- an array of primitives that the definition declares nullable (nullableVersions) is generated as a non-nullable "
                           "tuple[T, ...]" if aspect == "nullability" else ""), file=gsrc.rel, line=0)
    from ..gen_tables import field_validator_rows
    R19 = rep.rule("C16-G19-field-validators", "the field model's validators accept exactly the key combinations of the definition format (tag and "
                   "taggedVersions together or not at all; versions falls back to taggedVersions)", floor=6)
    for row in field_validator_rows(ctx):
        rep.check(R19, row["ok"], construct="codegen.parser:_BaseField", stmt=row["case"], message=row["message"], file=psrc.rel, line=0)
    from .. import scan as _scan
    R20 = rep.rule("C16-G20-driver-errors", "the generator's driver drops no exception: a definition it cannot translate, or an old tree it cannot "
                   "remove, ends the run instead of leaving a partial or stale schema tree behind", floor=2,
                   necessary_because="version modules are written while generate_models is being consumed: a swallowed NotImplementedError "
                                     "leaves versions 0..k-1 of one entity on disk without the later ones; a swallowed deletion error leaves the "
                                     "previous release's modules among the new ones")
    for row in _scan.swallowed_errors(ctx, ["codegen.generate_schema", "codegen.recreate_schema_path", "codegen.generate_index", "codegen.util"]):
        rep.check(R20, row["ok"], construct=f"{row['module']}:{row['function']}", stmt=row["stmt"], message=row["what"], file=row["file"], line=row["line"])
    R8 = rep.rule("C16-G8-field", "format_dataclass_field: an explicit default is emitted as given whatever the tagging/ignorability; "
                  "metadata carries the kafka type and the tag iff tagged", floor=40,
                  necessary_because="ApiVersionsResponse.FinalizedFeaturesEpoch is tagged, ignorable and has default -1: it must stay -1")
    for row in dataclass_field_invariants(ctx):
        rep.check(R8, row["ok"], construct="codegen.generate_schema:format_dataclass_field", stmt=row["case"], message=row["message"],
                  file=gsfile, line=row.get("line", 0))
    rep.extra.update(primitive_members=len(members))
    rep.assumptions.append("NOT decided: input->output faithfulness of the generator for arbitrary definitions (see DESIGN.md C16)")
    rep.trusted_base += ["kverif E2 evaluation of codegen's pure functions; pydantic validators are modelled as identity decorators"]
