"""C10 -- malformed input fails fast with a decode error, never an internal error or hang."""
from __future__ import annotations

from ..core import AnalysisError
from ..grammar import cmp_rw
from .streams import site_loc, stmt_at, exc_class, min_size
from .wire import Wire

PID = "C10"
LEVEL = "other"
TECHNIQUE = ("exception-flow analysis (E5): may-raise sets of all reader paths with the wire symbolic, filtered through "
             "handlers, checked against the allowed exception hierarchy; acyclicity/depth of the schema's entity graph; "
             "loop-progress analysis (minimum wire size of every loop body)")

ALLOWED_ROOTS = ["kio.serial.errors:SerialError", "ValueError", "OverflowError"]


def check(rep, ctx):
    W = Wire(ctx)
    S = W.S
    I = ctx.interp
    eng = W.bundle["engine"]
    rep.explanation = (
        "(a) The set of exceptions that can leave any reader path (explicit raises, lookups keyed by wire data, enum "
        "construction, bytes.decode, timedelta/datetime construction, struct size mismatches, tuple-unpacking arity, "
        "dataclass construction, attribute access on possibly-None values), after filtering through enclosing handlers, "
        "is a subset of {SerialError and subclasses, ValueError and subclasses, OverflowError}. (b) Recursion is bounded "
        "by the schema: the entity reference graph is acyclic. (c) Every loop driven by a wire count consumes at least one "
        "byte per iteration on every path (array items have minimum size >= 1, the tagged loop reads two varints), so an "
        "absurd count ends in BufferUnderflow after at most len(input) iterations; the varint loop has a constant trip "
        "count. (d) No unbounded read (C06-a). (e) Reader results are accepted by the sibling writer at the level of "
        "formats (C01-a). Not decided: wall-clock constants; MemoryError from the caller's stream.")
    R_A = rep.rule("C10-a-exceptions", "exceptions leaving reader paths are SerialError/ValueError subclasses or OverflowError", floor=8,
                   necessary_because="a corrupted tag number or enum value must not surface as KeyError/TypeError/AttributeError")
    R_B = rep.rule("C10-b-acyclic", "the entity reference graph of the schema is acyclic (bounded nesting)", floor=1600)
    R_C = rep.rule("C10-c-progress", "every array item consumes at least one byte; tagged iterations read two varints", floor=900)
    R_D = rep.rule("C10-d-bounded-reads", "no reader path performs an unsized read", floor=19)
    R_OV = rep.rule("C10-d-no-over-read", "no read asks the caller's stream for the larger of what is needed and something else (read(max(...)))", floor=0,
                   necessary_because="skipping an unknown tagged field with read(max(remaining, 4096)) swallows up to 4 KiB of what follows it")
    from .. import scan as _scan
    for o in _scan.over_reads(ctx, ["kio.serial.readers", "kio.serial._parse", "kio.records.readers"]):
        rep.check(R_OV, False, construct=o["function"], stmt=o["stmt"],
                  message=f"`{o['stmt']}` requests {o['size']} bytes: more than the item holds whenever the other operand is larger -- the bytes of "
                          f"the next field, element or message are consumed and discarded", file=o["file"], line=o["line"])
    for o in _scan.negative_size_reads(ctx, ["kio.serial.readers"]):
        rep.check(R_OV, False, construct=o["function"], stmt=o["stmt"],
                  message=f"`{o['stmt']}`: the size {o['param']!r} is never compared for (in)equality with the length read nor tested for being negative: "
                          f"a corrupt length prefix of -2 or lower makes read() return the rest of the stream, and it is accepted as the value",
                  file=o["file"], line=o["line"])
    for o in _scan.fixed_chunk_reads(ctx, ["kio.serial.readers", "kio.serial._parse", "kio.records.readers"]):
        rep.check(R_OV, False, construct=o["function"], stmt=o["stmt"],
                  message=f"`{o['stmt']}` in a loop takes {o['size']} bytes at a time whatever is still missing: unless the length is a multiple of "
                          f"{o['size']} the last chunk swallows bytes of the next field, element or message (a chunked reader asks for "
                          f"min(remaining, {o['size']}))", file=o["file"], line=o["line"])
    rep.count(R_OV, 1, instance="scan")
    R_TD = rep.rule("C10-e-time-reencodable", "the duration writers accept every timedelta their sibling readers can return (analysed on a plain "
                   "datetime.timedelta, guards evaluated at the extremes)", floor=2)
    from .wire import time_writer_domain_rows
    for ok_, c_, stmt_, msg_, file_, line_ in time_writer_domain_rows(ctx):
        if ok_ is None:
            rep.limit(f"{c_}: {msg_}")
            continue
        rep.check(R_TD, ok_, construct=c_, stmt=stmt_, message=msg_, file=file_, line=line_)
    R_E = rep.rule("C10-e-reencodable", "what a field reader returns is in the format its sibling writer accepts", floor=5000)
    allowed = [exc_class(ctx, r) for r in ALLOWED_ROOTS]
    seen = {}
    for d, exc, site, root, how, n in eng["raises"]:
        if d != "r":
            continue
        seen.setdefault((exc, site), set()).add(root)
    for (exc, site), roots in sorted(seen.items()):
        try:
            cls = exc_class(ctx, exc)
        except AnalysisError:
            cls = None
        ok = cls is not None and any(I.is_subclass(cls, a) for a in allowed)
        if site:
            where, fn = site_loc(ctx, site)
            stmt = stmt_at(ctx, site)
        else:
            where, fn, stmt = {"file": "", "line": 0}, sorted(roots)[0], f"raise {exc}"
        rep.check(R_A, ok, construct=fn, stmt=stmt if site else f"{exc} leaves {fn}",
                  message=f"{exc} can leave the decoder for corrupted input (reached from {sorted(roots)[:3]})", **where)
    # b: acyclic
    graph = {}
    for key, c in S.classes.items():
        refs = []
        for f in c["fields"]:
            base, arr, outer, inner = S.base_of(f["type"])
            if S.is_entity_ref(base):
                refs.append(base["n"])
        graph[key] = refs
    depth = {}

    def dfs(k, stack):
        if k in depth:
            return depth[k]
        if k in stack:
            return None
        ds = [dfs(r, stack | {k}) for r in graph.get(k, [])]
        if any(x is None for x in ds):
            depth[k] = None
            return None
        depth[k] = 1 + max(ds, default=0)
        return depth[k]
    for k in sorted(graph):
        d = dfs(k, frozenset())
        rep.check(R_B, d is not None, construct=k, stmt=f"references {graph[k]}", message="entity class takes part in a reference cycle",
                  file=S.modules[S.classes[k]["module"]]["path"], line=S.classes[k]["line"])
    # c: progress
    cmin = {}
    unknown = set()

    def class_min(key):
        if key in cmin:
            return cmin[key]
        cmin[key] = 0  # cycle guard
        plan = W.bundle["classes"].get(key)
        if plan is None or plan["error"]:
            unknown.add(key)
            return 1  # unknown: do not turn an analysis limit into a progress violation
        tot = 1 if plan["flexible"] else 0
        for pf in plan["fields"]:
            if pf.get("r") is not None and pf["r_index"] is not None:
                tot += min_size(W.nr(pf["r"]), class_min)
        cmin[key] = tot
        return tot
    for key, cls, plan in W.classes():
        if plan["error"]:
            continue
        for item in W.fields(key, cls, plan):
            pf = item["pf"]
            if pf is None or pf.get("r") is None:
                continue
            d = W.nr(pf["r"])
            if d.get("k") == "array":
                ms = min_size(d["item"], class_min)
                rep.check(R_C, ms >= 1, construct=f"{key}.{item['f']['name']}", stmt=f"array item {d['item'].get('k')} {d['item'].get('class', '')}",
                          message=f"array items can be {ms} bytes long: a corrupted count makes the decoder loop without consuming input",
                          **W.floc(cls, item["f"]))
        tg = plan["reader"]["tagged"]
        if tg is not None:
            rep.check(R_C, tg.get("iteration_prefix") == [5, 5], construct=plan["reader"]["codec"]["fn"], stmt="tagged loop iteration",
                      message=f"a tagged-field iteration does not start with two varint reads: {tg.get('iteration_prefix')}",
                      instance=key, **W.codec_loc(plan["reader"]["codec"]))
    # d
    for d, kind, skind, site, detail, n in eng["effects"]:
        if d == "r" and kind in ("read", "xread", "varint"):
            where, fn = site_loc(ctx, site)
            rep.check(R_D, "size=None" not in detail, construct=fn, stmt=stmt_at(ctx, site),
                      message="unsized read: consumes whatever follows the message", **where)
        elif d == "r" and skind == "param" and (kind in ("seek", "tell") or kind.startswith("other:")) and site.startswith("kio.serial"):
            where, fn = site_loc(ctx, site)
            rep.check(R_D, False, construct=fn, stmt=stmt_at(ctx, site),
                      message=f"the decoder moves the source with {kind.replace('other:', '')}() instead of reading: the position can pass the end of "
                              f"the data it was given without any error", **where)
    # e
    for key, cls, plan in W.classes():
        if plan["error"]:
            continue
        for item in W.fields(key, cls, plan):
            pf, f = item["pf"], item["f"]
            if pf is None or pf.get("r") is None or pf.get("w") is None:
                continue
            diffs = [x for x in cmp_rw(W.nr(pf["r"]), W.nw(pf["w"]), f["name"]) if "conversion" in x or "emits a" in x or "prefix" in x or "payload" in x]
            rep.check(R_E, not diffs, construct=f"{key}.{f['name']}", stmt=f"{pf['r_codec']['fn']} / {pf['w_codec']['fn']}",
                      message="; ".join(diffs), **W.codec_loc(pf.get("r_codec")))
    # what a reader can return for a null marker, the sibling writer must take: decided live for representative non-nullable arrays
    R_N = rep.rule("C10-e-null-reencodable", "where the reader of a non-nullable array field returns None for the null marker, the sibling writer "
                   "writes None back (the decoded entity can be encoded again)", floor=3)
    from ..plans import export_desc
    from ..values import UnionV
    from ..interp_base import Raised as _Raised, Limit as _Limit
    P_ = ctx.plans
    for key in ("kio.schema.metadata.v5.response:MetadataResponse", "kio.schema.metadata.v12.response:MetadataResponse",
                "kio.schema.metadata.v12.response:MetadataResponsePartition"):
        if key not in S.classes:
            raise AnalysisError(f"anchor vanished: {key}")
        pl = P_.plan(key)
        if pl.error:
            raise AnalysisError(f"plan of {key} not understood: {pl.error}")
        for rec in pl.fields:
            rd = rec.get("r_desc") or {}
            fld = rec.get("field")
            if rd.get("k") != "array" or rd.get("null") is None or (rd.get("null") or {}).get("then") != "none" or fld is None:
                continue
            if any(getattr(a, "name", None) == "NoneType" for a in I.alts(fld.type)):
                continue  # nullable by declaration
            try:
                wd = export_desc(P_.D.writer_desc(rec["w_codec"], UnionV((fld.type, None))))
            except (_Raised, _Limit) as e:
                raise AnalysisError(f"writer of {key}.{rec['name']} not understood with a None value: {e}")
            if wd.get("k") == "opaque":
                rep.limit(f"writer of {key}.{rec['name']} with a None value: {wd.get('reason')}")
                continue
            nl = wd.get("null")
            ok = isinstance(nl, dict) and bool(nl.get("wire_bytes") or "wire" in nl) and not str(nl.get("then", "")).startswith("raise")
            rep.check(R_N, ok, construct=f"{key}.{rec['name']}", stmt=f"reader null -> None; writer null arm: {nl}",
                      message=f"the reader returns None when the array length is the null marker, but the writer writes nothing "
                              f"for None: a corrupted (or merely null) array decodes into an entity that cannot be encoded again",
                      **W.floc(S.classes[key], next(f for f in S.classes[key]["fields"] if f["name"] == rec["name"])))
    rep.sample({"rule": "C10-a-exceptions", "seen": sorted({e for (e, s) in seen})})
    W.finish(rep)
    rep.extra.update(max_nesting_depth=max((d for d in depth.values() if d), default=0),
                     min_item_size=min((v for v in cmin.values()), default=None),
                     notes=[r for r in eng["effects"] if r[1] == "note"][:3])
    rep.trusted_base += ["kverif library raise model (DESIGN.md section 3, E2): the complete list of modelled raise sets"]
