"""C09 -- the dynamic index resolves every known entity and nothing else."""
from __future__ import annotations

from ..core import AnalysisError
from ..interp_base import Raised, Run, Limit, short_exc
from ..values import FuncV, Sym, ClassV
from .common import loc

PID = "C09"
LEVEL = "proof"
TECHNIQUE = ("exhaustive comparison of the AST-parsed index tables with the static schema model; path-sensitive "
             "exception-flow analysis (E5) of kio/index.py with symbolic keys")


def check(rep, ctx):
    S = ctx.schema
    rep.level = LEVEL
    rep.exhaustive = True
    idx = S.raw["index"]
    rep.explanation = (
        "Table half (proof by enumeration): schema_name_map and api_key_map are parsed from the literal in "
        "kio/schema/index.py; every version module must have exactly its entry 'module:TopLevelClass' under "
        "(api, version, EntityType.<type>), every entry must point at an existing module and its top-level class, "
        "api_key_map must be injective with domain = the __api_key__ values of payload classes and value = the API "
        "package those classes live in. Exception half (static, `other`-strength, counted in the same table): the "
        "public lookup functions of kio/index.py are explored path by path with symbolic keys; every path on which "
        "a table lookup misses must end in UnknownAPIKey / UnknownEntity and no other exception may leave.")
    R_E = rep.rule("C09-entry", "schema_name_map[api][version][type] = 'module:TopLevelClass' for every version module", floor=600)
    R_X = rep.rule("C09-no-extra", "every index entry points at an existing version module and its top-level class", floor=600)
    R_K = rep.rule("C09-keys", "api_key_map: domain = API keys of payload classes, value = their API package", floor=80)
    R_J = rep.rule("C09-injective", "api_key_map is injective (keys <-> payload API names is a bijection)", floor=80)
    R_R = rep.rule("C09-raises", "lookup functions: a missing key/version/type raises UnknownAPIKey/UnknownEntity and "
                   "nothing else can leave", floor=5)
    snm, akm = idx["schema_name_map"], idx["api_key_map"]
    file = "src/kio/schema/index.py"
    seen = set()
    for mname, m in sorted(S.modules.items()):
        tops = S.top_level(m)
        want = f"{mname}:{tops[0]['name']}" if len(tops) == 1 else None
        got = snm.get(m["api"], {}).get(str(m["version"]), {}).get(f"EntityType.{m['type']}")
        seen.add((m["api"], str(m["version"]), f"EntityType.{m['type']}"))
        rep.check(R_E, want is not None and got == want, construct=mname, stmt=f"schema_name_map[{m['api']!r}][{m['version']}][EntityType.{m['type']}] = {got!r}",
                  message=f"index entry is {got!r}, expected {want!r}", file=file, line=idx.get("schema_name_map_line", 0))
    for api, vm in sorted(snm.items()):
        for ver, tm in sorted(vm.items()):
            for et, path in sorted(tm.items()):
                ok = (api, ver, et) in seen
                rep.check(R_X, ok, construct=f"schema_name_map[{api!r}][{ver}][{et}]", stmt=str(path),
                          message=f"index entry {path!r} has no corresponding version module", file=file,
                          line=idx.get("schema_name_map_line", 0))
    key_api = {}
    for c in S.classes.values():
        k = S.cv_const(c, "__api_key__")
        if k is not None and S.cv_const(c, "__type__") in ("request", "response"):
            key_api.setdefault(k, set()).add(S.modules[c["module"]]["api"])
    for k, apis in sorted(key_api.items(), key=lambda kv: str(kv[0])):
        got = akm.get(str(k))
        rep.check(R_K, len(apis) == 1 and got == next(iter(apis)), construct=f"api_key_map[{k}]", stmt=f"{k}: {got!r}",
                  message=f"api_key_map[{k}] = {got!r} but the payload classes with that key live in {sorted(apis)}",
                  file=file, line=idx.get("api_key_map_line", 0))
    for k, name in sorted(akm.items(), key=lambda kv: int(kv[0]) if kv[0].lstrip('-').isdigit() else 0):
        ok = k.lstrip("-").isdigit() and int(k) in key_api
        rep.check(R_K, ok, construct=f"api_key_map[{k}]", stmt=f"{k}: {name!r}",
                  message=f"api_key_map has key {k} -> {name!r} but no payload class carries that API key", file=file,
                  line=idx.get("api_key_map_line", 0), instance=f"extra|{k}")
    names = list(akm.values())
    for n in sorted(set(names)):
        rep.check(R_J, names.count(n) == 1, construct=f"api_key_map -> {n!r}", stmt=n,
                  message=f"API name {n!r} is the value of {names.count(n)} keys", file=file, line=idx.get("api_key_map_line", 0))
    rep.sample({"rule": "C09-entry", "module": "kio.schema.metadata.v12.request",
                "entry": snm.get("metadata", {}).get("12", {}).get("EntityType.request")})
    # exception flow --------------------------------------------------------------------------------
    I = ctx.interp
    try:
        mod = I.module("kio.index")
        ET = I.module("kio.static.constants").env.vars["EntityType"]
    except Raised as r:
        raise AnalysisError(f"importing kio.index raises {r.exc!r}")
    src = ctx.sm.require("kio.index")
    allowed = {"UnknownAPIKey", "UnknownEntity"}
    for nm in ("UnknownAPIKey", "UnknownEntity", "KioIndexError"):
        if not isinstance(mod.env.vars.get(nm), ClassV):
            raise AnalysisError(f"anchor vanished: kio.index.{nm}")
    base = mod.env.vars["KioIndexError"]
    for nm in allowed:
        rep.check(R_R, I.is_subclass(mod.env.vars[nm], base), construct=f"kio.index:{nm}", stmt=f"class {nm}",
                  message=f"{nm} is not a KioIndexError", file=src.rel, line=mod.env.vars[nm].node.lineno)
    funcs = {n: f for n, f in mod.env.vars.items() if isinstance(f, FuncV) and f.module == "kio.index"}
    deferred: list[str] = []
    expected = {"load_entity_module": {"UnknownEntity"}, "load_payload_module": allowed, "load_entity_schema": {"UnknownEntity"},
                "load_response_schema": allowed, "load_request_schema": allowed}
    for name, exp in expected.items():
        f = funcs.get(name)
        if f is None:
            raise AnalysisError(f"anchor vanished: kio.index.{name}")
        args = []
        for p in f.node.args.args:
            a = p.arg
            if a in ("api_key", "version"):
                args.append(Sym(("param", a), "int"))
            elif a == "name":
                args.append(Sym(("param", a), "str"))
            elif a == "entity_type":
                args.append(I.sym_of_type(("param", a), ET))
            else:
                raise AnalysisError(f"kio.index.{name}: unexpected parameter {a}")
        try:
            paths = I.explore(lambda run: I.call(f, args, {}, run, None))
        except Limit as e:
            deferred.append(f"kio.index.{name} not understood with symbolic keys: {e}")
            continue
        raised = set()
        returns = 0
        for p in paths:
            for e in p.effects:
                if e[0] == "note" and e[1] == "negative-index":
                    where_ = e[2]
                    rep.check(R_R, False, construct=f"kio.index:{name}", stmt="sequence indexed by the caller's version",
                              message=f"{e[3]} (at {where_}): e.g. version -1 resolves to the newest version instead of raising UnknownEntity",
                              file=src.rel, line=int(where_.rsplit(":", 1)[1]) if where_.rsplit(":", 1)[1].isdigit() else f.node.lineno,
                              instance=f"{name}|negative-index")
        for p in paths:
            if p.outcome == "raise":
                raised.add(short_exc(p.value.cls))
            else:
                returns += 1
        bad = sorted(raised - allowed)
        rep.check(R_R, not bad and raised == exp and returns >= 1, construct=f"kio.index:{name}",
                  stmt=f"may raise {sorted(raised)}; {returns} returning path(s)",
                  message=f"with symbolic arguments the function may raise {sorted(raised)} (documented: {sorted(exp)})",
                  file=src.rel, line=f.node.lineno, details={"paths": len(paths)})
    # exhaustive evaluation of the lookup functions on every valid key (E2, concrete arguments) --------------------
    R_L = rep.rule("C09-lookup", "every lookup function, evaluated from kio/index.py's source on every existing (name | key, version, "
                   "type), returns exactly the corresponding module / class", floor=2500,
                   necessary_because="a falsy-zero test (`version or latest`, `if not api_key`) breaks exactly version 0 / API key 0 (Produce)")
    from ..values import ModuleV, EnumMemberV
    members = ET.flags["enum"]
    key_of_api = {v: int(k) for k, v in akm.items()}

    def ev(fname, args, want, what):
        f = funcs.get(fname)
        if f is None:
            raise AnalysisError(f"anchor vanished: kio.index.{fname}")
        try:
            got = I.call(f, args, {}, Run(), None)
            err = None
        except Raised as r:
            got, err = None, f"raises {short_exc(r.cls)}"
        except Limit as e:
            raise AnalysisError(f"kio.index.{fname} not understood: {e}")
        ok = got is want
        rep.check(R_L, ok, construct=f"kio.index:{fname}", stmt=f"{fname}{what}",
                  message=f"{fname}{what} -> {getattr(got, 'ref', getattr(got, 'name', got))} {err or ''}; expected {getattr(want, 'ref', getattr(want, 'name', want))}",
                  file=src.rel, line=f.node.lineno, instance=f"{fname}|{what}")
    for mname, m in sorted(S.modules.items()):
        tops = S.top_level(m)
        if len(tops) != 1 or m["type"] not in members:
            continue
        cls_v = I.entity_class(tops[0]["key"])
        mod_v = I.module(mname)
        et = members[m["type"]]
        ev("load_entity_module", [m["api"], m["version"], et], mod_v, (m["api"], m["version"], m["type"]))
        ev("load_entity_schema", [m["api"], m["version"], et], cls_v, (m["api"], m["version"], m["type"]))
        if m["type"] in ("request", "response") and m["api"] in key_of_api:
            k = key_of_api[m["api"]]
            ev("load_payload_module", [k, m["version"], et], mod_v, (k, m["version"], m["type"]))
            ev("load_request_schema" if m["type"] == "request" else "load_response_schema", [k, m["version"]], cls_v, (k, m["version"]))
            other = S.modules.get(mname.rsplit(".", 1)[0] + (".response" if m["type"] == "request" else ".request"))
            if other is not None and len(S.top_level(other)) == 1:
                ev("load_response_from_request" if m["type"] == "request" else "load_request_from_response", [cls_v],
                   I.entity_class(S.top_level(other)[0]["key"]), (tops[0]["key"],))
    # near misses: what does not exist is reported with the documented error (E2, concrete arguments) -----------------------------
    R_X = rep.rule("C09-miss", "a lookup of something that does not exist raises the documented error: UnknownAPIKey for an unknown key, "
                   "UnknownEntity for a known API with a version (or name) that does not exist -- evaluated for every API at the versions "
                   "just outside its range, at version == key, and at unknown keys", floor=700,
                   necessary_because="an error path that tells key from version by comparing the missing dict key with api_key reports "
                                     "(18, 18) as an unknown API key")

    def ev_miss(fname, args, want_exc, what):
        f = funcs.get(fname)
        try:
            got = I.call(f, args, {}, Run(), None)
            res = f"returns {getattr(got, 'ref', getattr(got, 'name', got))}"
        except Raised as r:
            res = short_exc(r.cls).split(":")[-1].split(".")[-1]
        except Limit as e:
            raise AnalysisError(f"kio.index.{fname} not understood: {e}")
        rep.check(R_X, res == want_exc, construct=f"kio.index:{fname}", stmt=f"{fname}{what}",
                  message=f"{fname}{what} -> {res}; nothing of that kind exists, the documented outcome is {want_exc}",
                  file=src.rel, line=f.node.lineno, instance=f"{fname}|{what}")
    versions_of = {}
    for mname, m in S.modules.items():
        if m["type"] in ("request", "response") and m["api"] in key_of_api:
            versions_of.setdefault(m["api"], set()).add(m["version"])
    req, resp = members["request"], members["response"]
    for api, vs in sorted(versions_of.items()):
        k = key_of_api[api]
        for v in sorted({min(vs) - 1, max(vs) + 1, k, k + 1, 1000} - vs):
            ev_miss("load_payload_module", [k, v, req], "UnknownEntity", (k, v, "request"))
            ev_miss("load_request_schema", [k, v], "UnknownEntity", (k, v))
            ev_miss("load_response_schema", [k, v], "UnknownEntity", (k, v))
            ev_miss("load_entity_schema", [api, v, resp], "UnknownEntity", (api, v, "response"))
    # the payload loader is for requests and responses: any other entity type is not something it can return
    for api, vs in sorted(versions_of.items())[:12]:
        k = key_of_api[api]
        for tname in ("header", "data", "nested"):
            if tname in members:
                ev_miss("load_payload_module", [k, max(vs), members[tname]], "UnknownEntity", (k, max(vs), tname))
    known_keys = set(key_of_api.values())
    for k in sorted({-1, max(known_keys) + 1, 1000, 12345} - known_keys):
        for v in (0, k, max(0, k)):
            ev_miss("load_payload_module", [k, v, req], "UnknownAPIKey", (k, v, "request"))
            ev_miss("load_request_schema", [k, v], "UnknownAPIKey", (k, v))
            ev_miss("load_response_schema", [k, v], "UnknownAPIKey", (k, v))
    # names are matched exactly: a different spelling of a known name is not a known name
    for api, vs in sorted(versions_of.items()):
        v0 = min(vs)
        for variant in {api.upper(), api.capitalize(), api.replace("_", "-"), api + " ", "\u017f" + api[1:] if api.startswith("s") else api.upper()} - {api}:
            ev_miss("load_entity_schema", [variant, v0, req], "UnknownEntity", (variant, v0, "request"))
    ev_miss("load_entity_schema", ["no_such_api", 0, req], "UnknownEntity", ("no_such_api", 0, "request"))
    ev_miss("load_entity_module", ["no_such_api", 0, req], "UnknownEntity", ("no_such_api", 0, "request"))
    if deferred and not rep.findings:
        raise AnalysisError(deferred[0])
    rep.extra.update(index_entries=sum(len(tm) for vm in snm.values() for tm in vm.values()), api_keys=len(akm))
    rep.trusted_base += ["kverif literal evaluation of the nested MappingProxyType({...}) tables", "kverif E2 on kio/index.py"]
