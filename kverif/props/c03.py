"""C03 -- the decoder accepts every conforming encoding, including forward-compatible ones."""
from __future__ import annotations

from .. import timeflow
from ..grammar import cmp_reader
from .wire import Wire, fdesc, TIME_TYPES, spec_tagged_default_term

PID = "C03"
LEVEL = "other"
TECHNIQUE = ("abstract interpretation of entity_reader on the static schema model; derived reader grammar compared with "
             "the protocol spec tables (R >= S); path analysis of the tagged-field loop (switch on the wire tag, miss arm); "
             "time-granularity dataflow (E6)")


def check(rep, ctx):
    W = Wire(ctx)
    S = W.S
    rep.explanation = (
        "Decided for all classes: (a) each reader descriptor accepts every form the specification allows for the field "
        "(it may accept more); (b) in the tagged-field loop of the reader plan the lookup keyed by the wire tag has a "
        "non-raising miss arm that consumes exactly `size` bytes read in the same iteration -- the same closure code "
        "serves every nesting level, and every nested struct is decoded through a closure built by the same factory; "
        "(c) every tagged field of the class is bound after the loop, to the wire value or to a resolvable default; "
        "(d) no reader path compares a decoded tagged value with its default and raises; (e) millisecond values are "
        "decoded without coarsening (E6 T-gran). Not decided: success on every value (datetime cannot hold wire "
        "integers beyond year 9999); explicit null for nullable tagged strings (observation O1).")
    R_A = rep.rule("C03-a-accepts", "reader grammar of every field accepts the spec grammar (R >= S)", floor=5000)
    R_B = rep.rule("C03-b-unknown-tag", "tagged loop: a tag not in the map is skipped by an exact read of its size", floor=800,
                   necessary_because="a peer speaking a newer version sends tags this version does not know; "
                                     "MetadataRequest v12 with tagged section 01 63 02 61 62 raises KeyError otherwise")
    R_BN = rep.rule("C03-b-nested", "nested structs are decoded by closures of the same entity_reader factory", floor=900)
    R_C = rep.rule("C03-c-defaults", "every tagged field is bound after the loop (wire value or resolvable default)", floor=50)
    R_CV = rep.rule("C03-c-default-value", "an absent tagged field decodes to the default the definition gives it (explicit default, "
                    "zero value, or for a struct its members' declared defaults)", floor=50,
                    necessary_because="UpdateRaftVoterResponse.current_leader absent must decode to CurrentLeader(-1, -1, '', 0), the members' declared defaults")
    R_D = rep.rule("C03-d-no-default-reject", "entity reader has no raising path after its reads other than construction", floor=1600)
    R_E = rep.rule("C03-e-ms-exact", "millisecond timestamps/durations are decoded without coarsening (T-gran) and "
                   "64-bit durations without a float (T-float64)", floor=200,
                   necessary_because="wire value 1500 is decoded to 1 s; the value on the wire is lost")
    R_OV = rep.rule("C03-f-no-over-read", "no read asks the caller's stream for the larger of what is needed and something else (read(max(...)))", floor=0,
                   necessary_because="skipping an unknown tagged field with read(max(remaining, 4096)) swallows up to 4 KiB of what follows it")
    from .. import scan as _scan
    for o in _scan.over_reads(ctx, ["kio.serial.readers", "kio.serial._parse", "kio.records.readers"]):
        rep.check(R_OV, False, construct=o["function"], stmt=o["stmt"],
                  message=f"`{o['stmt']}` requests {o['size']} bytes: more than the item holds whenever the other operand is larger -- the bytes of "
                          f"the next field, element or message are consumed and discarded", file=o["file"], line=o["line"])
    for o in _scan.fixed_chunk_reads(ctx, ["kio.serial.readers", "kio.serial._parse", "kio.records.readers"]):
        rep.check(R_OV, False, construct=o["function"], stmt=o["stmt"],
                  message=f"`{o['stmt']}` in a loop takes {o['size']} bytes at a time whatever is still missing: unless the length is a multiple of "
                          f"{o['size']} the last chunk swallows bytes of the next field, element or message (a chunked reader asks for "
                          f"min(remaining, {o['size']}))", file=o["file"], line=o["line"])
    rep.count(R_OV, 1, instance="scan")
    R_NA = rep.rule("C03-a-null-arrays", "an array of primitives is decoded from its null marker to None whatever the annotation says (the "
                    "generator does not carry nullableVersions of primitive arrays into the annotation, finding F11, so the annotation cannot be "
                    "taken for the definition)", floor=220)
    R_LD = rep.rule("C03-a-length-domain", "no field reader rejects a length its format carries", floor=1000)
    from .wire import length_domain_rows
    R_EC = rep.rule("C03-error-codes", "every error code of the pinned Kafka 3.9.0 listing (the frozen reference) is a member of ErrorCode: a "
                    "conforming response may carry any of them, and ErrorCode(value) raises ValueError for a value that is not a member", floor=120,
                    necessary_because="an errors.py generated from an older client library lacks the codes the newest APIs return (121..127)")
    from ..baseline import load_reference
    ref_codes = {row[1][0]: row[0] for row in load_reference()["schema"]["errors"]}
    have_codes = set(ctx.schema.error_codes)
    esrc_ = ctx.sm.require("kio.schema.errors")
    for code_, name_ in sorted(ref_codes.items()):
        rep.check(R_EC, code_ in have_codes, construct=f"kio.schema.errors:ErrorCode.{name_}", stmt=f"{name_} = {code_}",
                  message=f"error code {code_} ({name_}) of Kafka 3.9.0 is not a member of ErrorCode: a response carrying it cannot be decoded "
                          f"(read_error_code raises ValueError)", file=esrc_.rel, line=0)
    R_P = rep.rule("C03-plan", "a reader plan can be derived", floor=1600)
    factory_fn = None
    for key, cls, plan in W.classes():
        if not rep.check(R_P, not plan["error"], construct=key, stmt=str(plan.get("error")),
                         message=f"no plan: {plan.get('error')}", **W.floc(cls, cls)):
            continue
        rd = plan["reader"]
        factory_fn = factory_fn or rd["codec"]["fn"]
        flexible = bool(S.cv_const(cls, "__flexible__"))
        if flexible:
            tg = rd["tagged"]
            problems = []
            if tg is None:
                problems.append("flexible class but the reader has no tagged-field loop")
            else:
                miss = tg.get("miss") or {}
                if miss.get("k") != "skip":
                    if miss.get("k") == "raise":
                        problems.append(f"a tag that is not in the reader's map raises {miss.get('exc')}")
                    elif miss.get("k") == "parsed-as-field":
                        problems.append("a tag that is not in the reader's map has its payload parsed by a field reader"
                                        + (f" left in {miss.get('carried')} by an earlier iteration of the loop" if miss.get("carried") else "")
                                        + ": an unknown tagged field that follows a known one overwrites that field or mis-frames the stream")
                    elif miss.get("k") == "ignore-without-skipping":
                        problems.append("an unknown tag is ignored without consuming its payload (the stream is mis-framed)")
                    else:
                        # the analyser could not describe the arm: a limit of the analysis, never a verdict about the code
                        rep.limit(f"{plan['reader']['codec'].get('fn')}: arm for an unknown tag not understood: {str(miss)[:200]}")
                elif not miss.get("exact"):
                    problems.append("unknown tag payload is skipped with an unchecked read")
                if tg.get("iteration_prefix") != [5, 5]:
                    problems.append(f"iteration does not start with uvarint tag, uvarint size: {tg.get('iteration_prefix')}")
                if tg.get("count_max_bytes") != 5:
                    problems.append("tag count is not an unsigned varint")
            site = ((tg or {}).get("miss") or {}).get("site") or ""
            line = int(site.rsplit(":", 1)[1]) if site and site.rsplit(":", 1)[1].isdigit() else rd["codec"]["line"]
            loc_ = W.codec_loc({"fn": rd["codec"]["fn"], "line": line})
            rep.check(R_B, not problems, construct=rd["codec"]["fn"], stmt="tagged_field_readers[<wire tag>]" if problems else "",
                      message="; ".join(problems), instance=key, **loc_)
        elif rd["tagged"] is not None:
            rep.check(R_B, False, construct=key, stmt="tagged loop in a non-flexible class",
                      message="non-flexible class reads a tagged section", **W.codec_loc(rd["codec"]))
        # d: raises after reads
        bad = [e for e in (rd.get("raises") or [])]
        rep.check(R_D, not bad, construct=key, stmt=f"raises {bad}", message=f"entity reader may raise {bad} after decoding its fields",
                  **W.codec_loc(rd["codec"]))
        names = {f["name"] for f in cls["fields"]}
        res = rd.get("results") or []
        if len(res) > 1:
            base = res[0]["fields"]
            for other in res[1:]:
                diff = sorted(k for k in set(base or {}) | set(other["fields"] or {}) if (base or {}).get(k) != (other["fields"] or {}).get(k))
                rep.check(R_C, not diff, construct=key, stmt=f"fields {diff} bound differently under {other['conds']}",
                          message=f"the decoded value of fields {diff} depends on {other['conds']}: an absent tagged field is not always "
                                  f"resolved to its default", instance=key + "|paths", **W.codec_loc(rd["codec"]))
        rep.check(R_C, set(rd.get("result_fields") or []) == names, construct=key, stmt=f"constructed with {rd.get('result_fields')}",
                  message=f"entity is constructed with fields {rd.get('result_fields')} but declares {sorted(names)}",
                  instance=key + "|all", **W.codec_loc(rd["codec"]))
        for item in W.fields(key, cls, plan):
            f, pf, spec = item["f"], item["pf"], item["spec"]
            construct = f"{key}.{f['name']}"
            if pf is not None and pf.get("r") is not None:
                rraw = pf["r"]
                if rraw.get("k") == "array" and (f.get("metadata") or {}).get("kafka_type") and item["kind"] == "regular":
                    nl = rraw.get("null")
                    rep.check(R_NA, isinstance(nl, dict) and nl.get("then") == "none", construct=construct, stmt=f"array reader null arm: {nl}",
                              message=f"the reader of this array of primitives answers the null marker with {nl.get('then') if isinstance(nl, dict) else 'no arm'}: "
                                      f"a conforming null (DescribeConfigs configuration_keys = null means 'all keys') is not decoded to None",
                              **W.codec_loc(pf.get("r_codec")))
                if pf.get("w") is not None:
                    for ok_, c_, stmt_, msg_, loc_ in length_domain_rows(W, pf, construct):
                        if "reader" in stmt_:
                            rep.check(R_LD, ok_, construct=c_, stmt=stmt_, message=msg_, instance=construct + "|" + stmt_[:30], **loc_)
            if pf is None or pf.get("r") is None:
                rep.check(R_A, False, construct=construct, stmt=fdesc(cls, f), message="the reader plan has no reader for this field",
                          **W.floc(cls, f))
                continue
            r = W.nr(pf["r"])
            diffs = cmp_reader(r, spec, f["name"])
            rep.check(R_A, not diffs, construct=construct, stmt=f"{fdesc(cls, f)} read by {pf['r_codec']['fn']}",
                      message="; ".join(diffs), details={"reader": r, "spec": spec}, **W.codec_loc(pf.get("r_codec")))
            if len(rep.samples) < 3:
                rep.sample({"obligation": "C03-a-accepts", "field": construct, "spec": spec, "reader": r})
            # nested structs go through the factory's closures
            d = pf["r"]
            while d is not None:
                if d.get("k") == "struct":
                    sub = W.bundle["classes"].get(d.get("class"))
                    if sub is not None and sub["error"] and sub["error"].get("side") == "analysis":
                        d = d.get("item") or d.get("inner")
                        continue
                    ok = sub is not None and not sub["error"]
                    inner_fn = (pf["r_codec"] or {}).get("fn", "")
                    rep.check(R_BN, ok, construct=construct, stmt=f"nested {d.get('class')}",
                              message=f"nested struct {d.get('class')} has no derivable reader", **W.floc(cls, f))
                d = d.get("item") or d.get("inner")
            if item["kind"] == "tagged":
                rdft = pf.get("r_default")
                ok = pf.get("name") == f["name"] and not (isinstance(rdft, dict) and rdft.get("MISSING")) and not pf.get("arm_problem")
                rep.check(R_C, ok, construct=construct, stmt=f"tag {f['metadata']['tag']} default {rdft}",
                          message=f"tagged field is not bound by the reader (arm {pf.get('name')}, default {rdft}, {pf.get('arm_problem')})",
                          **W.floc(cls, f))
                want = spec_tagged_default_term(ctx, key, f["name"])
                if want is not None and isinstance(rdft, dict) and "term" in rdft:
                    rep.check(R_CV, rdft["term"] == want, construct=construct, stmt=f"absent tag {f['metadata']['tag']} -> {rdft['term']}",
                              message=f"an absent tagged field is filled with {rdft['term']} but the definition's default is {want}",
                              **W.floc(cls, f))
            kt = (f.get("metadata") or {}).get("kafka_type")
            if kt in TIME_TYPES:
                kind, bits = TIME_TYPES[kt]
                rdsc = pf["r"]
                while rdsc.get("k") == "array":
                    rdsc = rdsc["item"]
                if rdsc.get("k") == "scalar":
                    q, issues = timeflow.read_side(rdsc["conv"], bits, kind)
                    fn = rdsc.get("_codec", "?")
                    if q is None:
                        rep.limit(f"{fn}: time conversion not understood: {timeflow.show(rdsc['conv'])[:160]}")
                    elif issues:
                        for rule, msg, op in issues:
                            rep.check(R_E, False, construct=fn, stmt=timeflow.show(rdsc["conv"]), message=f"{rule}: {msg}",
                                      instance=construct, **W.codec_loc({"fn": fn, "line": rdsc.get("_line", 0)}))
                    else:
                        rep.check(R_E, True, construct=fn, stmt=timeflow.show(rdsc["conv"]), instance=construct)
    R_VD = rep.rule("C03-a-value-domain", "a scalar reader raises for no value its format carries and its Python type represents (guards of the "
                    "returning paths evaluated at boundary values, infinities and NaNs, the extremes of timedelta and datetime)", floor=15,
                    necessary_because="a reader that passes its result through a narrower validating type (f64 = finite floats, i64Timedelta = "
                                      "all but the last day) rejects canonical encodings of +Infinity, NaN, or a 64-bit duration near the maximum")
    from .wire import scalar_reader_domain_rows
    for ok_, c_, stmt_, msg_, line_ in scalar_reader_domain_rows(W.bundle["primitives"]):
        if ok_ is None:
            rep.limit(f"{c_}: {msg_}")
            continue
        rep.check(R_VD, ok_, construct=c_, stmt=stmt_, message=msg_, file="src/kio/serial/readers.py", line=line_)
    W.finish(rep)
    rep.extra.update(classes=len(S.classes), engine_stats=W.bundle.get("stats"))
    rep.trusted_base += ["struct format semantics", "datetime.replace(microsecond=0) zeroes the sub-second part"]
