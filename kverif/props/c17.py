"""C17 -- new record batches are written in the Kafka v2 batch format."""
from __future__ import annotations

import struct as _struct

from .. import timeflow
from ..core import AnalysisError
from ..descr import contains
from ..plans import jsonable
from ..records import RecordsAnalysis, BATCH_SPEC, MAGIC, sink_writes, fmt_of_write, zigzag_enc
from ..values import Sym, term_of, show_term
from .streams import site_loc, stmt_at

PID = "C17"
LEVEL = "other"
TECHNIQUE = ("path summaries of write_new_batch/write_record/write_header with symbolic records: effect-trace layout vs "
             "the v2 batch specification, def-use provenance of every header slot, framing arithmetic from the trace, "
             "identity of the checksummed / counted / appended byte term, E6 T-trunc on the timestamp conversions")


def tj(t):
    return jsonable(t)


def check(rep, ctx):
    RA = RecordsAnalysis(ctx)
    rep.explanation = (
        "write_new_batch is explored with a symbolic NewRecordBatch. Layout: the concatenated writes to the sink and to the "
        "staged buffer equal the v2 field sequence in order, format and signedness. Provenance: each slot's value term is "
        "the documented function of the records (base offset <- first record, last offset delta <- last - first, base "
        "timestamp <- first record's timestamp in ms, max timestamp <- max over records, count <- len(records), magic <- 2). "
        "Framing: the constant added to the staged length equals the summed calcsize of the fields between batchLength and "
        "the staged bytes as found in the trace; the bytes passed to crc32c, the bytes counted and the bytes appended are "
        "the same getvalue() term taken after the last staged write. Records: varint length of exactly the staged record, "
        "int8 attributes, zig-zag varlong timestamp delta, zig-zag varint offset delta, nullable key/value, header count "
        "and headers. E6: the millisecond conversions do not truncate an inexact float. Not decided: CRC-32C itself.")
    R_L = rep.rule("C17-layout", "batch header fields are written in the v2 order with the v2 formats", floor=13)
    R_P = rep.rule("C17-provenance", "every header slot is derived from the records as the format prescribes", floor=10)
    R_F = rep.rule("C17-framing", "batchLength / CRC / appended bytes refer to the same staged bytes; the length constant is "
                   "the size of the fields between batchLength and the staged bytes", floor=2)
    R_R = rep.rule("C17-record", "a record is written as varint length + attributes, timestamp delta, offset delta, key, value, headers", floor=6)
    R_T = rep.rule("C17-time", "timestamp -> millisecond conversions do not truncate an inexact float (T-trunc)", floor=3,
                   necessary_because="1970-01-01T00:00:01.001Z * 1000 = 1000.9999999999999 -> int() -> 1000")
    file = ctx.sm.require("kio.records.writers").rel
    # concrete boundary cases first (they need no symbolic summary): the record length prefix equals the number of bytes that follow
    from ..records import concrete_record_length_rows
    rfn0 = RA.fn(RA.rw, "write_record")
    for row in concrete_record_length_rows(RA):
        if row["ok"] is None:
            rep.limit(f"{rfn0.ref}: {row['message']}")
            continue
        rep.check(R_R, row["ok"], construct=rfn0.ref, stmt=row["case"], message=row["message"], file=file, line=rfn0.node.lineno,
                  instance="concrete-lengths" if row["ok"] else row["case"])
    W = RA.new_batch_writer()
    fn = W["fn"]
    nb = W["param"].term
    records = ("attr", nb, "records")
    rets = [p for p in W["paths"] if p.outcome == "return"]
    if not rets:
        raised = sorted({f"{getattr(q.value.cls, 'name', '?')} at {q.value.attrs.get('__site__', '?')}" for q in W["paths"] if q.outcome == "raise"})
        rep.check(R_P, False, construct=fn.ref, stmt="write_new_batch never returns",
                  message=f"no path of write_new_batch returns: every call raises ({'; '.join(raised[:3])})", file=file, line=fn.node.lineno)
        return
    empties = [p for p in W["paths"] if p.outcome == "raise" and any(f[0][0] in ("ge", "eq") and contains(f[0], ("len", records)) for f in p.facts)]
    time_terms = []
    for p in rets:
        first = ("item", records, 0)
        many = any(f[0] == ("ge", ("len", records), ("k", 2)) and f[1] for f in p.facts)
        exactly_one = any(f[0] == ("eq", ("len", records), ("k", 1)) and f[1] for f in p.facts)
        # records[-1] is the last record of any non-empty sequence; records[0] is the last one only where the path knows len == 1
        last = first if exactly_one else ("item", records, -1)
        case = "len(records) >= 2" if many else "len(records) == 1" if exactly_one else "len(records) >= 1"

        def _norm_last(t_):
            if exactly_one and isinstance(t_, tuple):
                if t_ == ("item", records, -1):
                    return first
                return tuple(_norm_last(x_) for x_ in t_)
            return t_
        sink = [e for e in p.effects if e[0] in ("write", "wvarint") and e[1].kind == "param"]
        staged = [e for e in p.effects if e[0] in ("write", "wvarint", "repeat") and (e[0] == "repeat" or e[1].kind == "local")]
        staged_writes = [e for e in staged if e[0] != "repeat"]
        seq = [fmt_of_write(e) for e in sink[:5]] + [fmt_of_write(e) for e in staged_writes]
        names = [n for n, _ in BATCH_SPEC]
        ok_len = len(sink) == 6 and len(staged_writes) == 8
        rep.check(R_L, ok_len, construct=fn.ref, stmt=f"{case}: {len(sink)} sink writes, {len(staged_writes)} staged writes",
                  message=f"{case}: expected 5 header writes + the staged bytes on the sink and 8 staged header writes, found "
                          f"{len(sink)} / {len(staged_writes)}", file=file, line=fn.node.lineno, instance=f"{case}|count")
        if not ok_len:
            continue
        vals = {}
        for (name, fmt), (got_fmt, val), e in zip(BATCH_SPEC, seq, sink[:5] + staged_writes):
            if name == "magic":
                want = "const:" + _struct.pack(fmt, MAGIC).hex()
                ok = got_fmt == want
            else:
                ok = got_fmt == fmt
            where, f_ = site_loc(ctx, e[-1])
            rep.check(R_L, ok, construct=fn.ref, stmt=f"{name}: written as {got_fmt}",
                      message=f"{case}: slot {name} is written as {got_fmt} but the v2 format prescribes {fmt}"
                              + (f" with value {MAGIC}" if name == "magic" else ""), instance=f"{case}|{name}", file=file, line=fn.node.lineno)
            vals[name] = val
        # provenance
        attr = lambda o, n: ("attr", o, n)
        want = {
            "base_offset": attr(first, "offset"),
            "last_offset_delta": ("sub", attr(last, "offset"), attr(first, "offset")),
            "producer_id": attr(nb, "producer_id"), "producer_epoch": attr(nb, "producer_epoch"),
            "base_sequence": attr(nb, "base_sequence"), "attributes": attr(nb, "attributes"),
            "partition_leader_epoch": attr(nb, "partition_leader_epoch"), "count": ("len", records),
        }
        for name, w in want.items():
            rep.check(R_P, _norm_last(vals.get(name)) == w, construct=fn.ref, stmt=f"{name} <- {show_term(vals.get(name))}",
                      message=f"{case}: slot {name} carries {show_term(vals.get(name))}, expected {show_term(w)}",
                      file=file, line=fn.node.lineno, instance=f"{case}|{name}")
        # timestamps: conversion of first.timestamp / max(record.timestamp)
        for name, must in (("base_timestamp", attr(first, "timestamp")), ("max_timestamp", None)):
            t = vals.get(name)
            if name == "base_timestamp":
                ok = t is not None and contains(t, must) and not contains(t, ("elem", records))
            else:
                ok = t is not None and any(isinstance(x, tuple) for x in [t]) and "max" in show_term(t) and contains(t, ("elem", records)) \
                    and contains(t, "timestamp")
            if t is not None and contains(t, "loop-exit"):
                # computed by a loop that carries state from one record to the next (a running maximum): what the loop leaves behind
                # is not summarised -- a limit of the analysis, not a verdict
                rep.limit(f"{fn.ref}: slot {name} is left behind by a loop with carried state ({show_term(t)[:80]}): not decided")
                continue
            rep.check(R_P, ok, construct=fn.ref, stmt=f"{name} <- {show_term(t)[:160]}",
                      message=f"{case}: slot {name} is {show_term(t)[:200]}, expected the millisecond timestamp of "
                              f"{'the first record' if name == 'base_timestamp' else 'the maximum over all records'}",
                      file=file, line=fn.node.lineno, instance=f"{case}|{name}")
            if name == "max_timestamp" and t is not None:
                # the maximum must be taken over instants (millisecond integers): max() over aware datetimes that share a tzinfo
                # object compares wall-clock fields and ignores `fold` (PEP 495), which is not the order of the instants
                def max_args(x, acc):
                    if isinstance(x, tuple):
                        if x[:1] == ("max",) and len(x) > 1:
                            acc.append(x[1])
                        for y in x:
                            max_args(y, acc)
                    return acc
                partial = [a for a in max_args(t, []) if isinstance(a, tuple) and a[:1] == ("rest",)]
                rep.check(R_P, not partial, construct=fn.ref, stmt="max(<generator already advanced by next()>)",
                          message=f"{case}: maxTimestamp is the maximum over what is left of a generator after next() took the first record: "
                                  f"when the first record has the largest timestamp the header carries a smaller one",
                          file=file, line=fn.node.lineno, instance=f"{case}|max-all")
                over_dt = [a for a in max_args(t, []) if isinstance(a, tuple) and a[:1] == ("repeat",) and
                           any(e == ("attr", ("elem", records), "timestamp") for e in (a[2] if len(a) > 2 and isinstance(a[2], tuple) else ()))]
                rep.check(R_P, not over_dt, construct=fn.ref, stmt="max(record.timestamp for record in records)",
                          message=f"{case}: maxTimestamp is the conversion of max() over the records' datetime objects: datetimes sharing one tzinfo "
                                  f"are compared by wall clock, ignoring fold -- for 02:30 (fold=0) and 02:10 (fold=1) Europe/Stockholm on "
                                  f"2021-10-31 the earlier instant wins; the maximum must be taken over the millisecond values",
                          file=file, line=fn.node.lineno, instance=f"{case}|max-order")
            if t is not None and contains(t, "timestamp"):
                time_terms.append((name, t, fn))
        # framing
        contents = [e for e in p.effects if e[0] == "getvalue" and e[1].kind == "local"]
        last_staged_idx = max(i for i, e in enumerate(p.effects) if e in staged)
        C = sink[5][2].term if isinstance(sink[5][2], Sym) else None
        problems = []
        if C is None or C[0] != "contents":
            problems.append(f"the bytes appended after the CRC are {show_term(term_of(sink[5][2]))}, not the staged buffer's contents")
        else:
            if C[2] <= last_staged_idx:
                problems.append("the staged bytes are taken before the last staged write")
            K = sum(_struct.calcsize(f) for n, f in BATCH_SPEC[2:5])
            got_len = vals.get("batch_length")
            from ..descr import linear
            if linear(got_len, ("len", C)) != (1, K):
                problems.append(f"batchLength is {show_term(got_len)}; the fields between batchLength and the staged bytes "
                                f"(partitionLeaderEpoch, magic, crc) take {K} bytes, so it must be len(staged) + {K}")
            if vals.get("crc") != ("crc32c", C):
                problems.append(f"CRC is computed over {show_term(vals.get('crc'))}, not over the staged bytes that are appended")
        rep.check(R_F, not problems, construct=fn.ref, stmt=f"batch_length={show_term(vals.get('batch_length'))}; crc={show_term(vals.get('crc'))}",
                  message=f"{case}: " + "; ".join(problems), file=file, line=fn.node.lineno, instance=case)
        # the records loop passes base timestamp / base offset
        reps = [e for e in staged if e[0] == "repeat" and any(x[0] in ("write", "wvarint", "codec", "alloc") for b in e[2] for x in b[1])]
        rep.check(R_F, len(reps) == 1 and reps[0][1] == ("len", records), construct=fn.ref, stmt="for record in records: write_record(...)",
                  message=f"{case}: records are not written once each after the header", file=file, line=fn.node.lineno, instance=f"{case}|loop")
    rep.check(R_P, bool(empties), construct=fn.ref, stmt="empty records", message="an empty record sequence does not raise",
              file=file, line=fn.node.lineno, instance="empty")
    # records -------------------------------------------------------------------------------------------
    WR = RA.record_writer()
    rfn = WR["fn"]
    rec, bt, bo = WR["rec"].term, WR["bt"].term, WR["bo"].term
    rrets = [p for p in WR["paths"] if p.outcome == "return"]
    def _null_case(p_):
        return (any(f[0] == ("is", ("attr", rec, "key"), ("k", None)) and f[1] for f in p_.facts),
                any(f[0] == ("is", ("attr", rec, "value"), ("k", None)) and f[1] for f in p_.facts))
    cases_seen = {_null_case(p_) for p_ in rrets}
    rep.check(R_R, len(cases_seen) == 4, construct=rfn.ref, stmt=f"{len(rrets)} returning paths, null cases {sorted(cases_seen)}",
              message=f"a record with key/value null or not has four cases; returning paths exist for {sorted(cases_seen)} only",
              file=file, line=rfn.node.lineno, instance="paths")
    seen_cases = set()
    for p in rrets:
        key_null = any(f[0] == ("is", ("attr", rec, "key"), ("k", None)) and f[1] for f in p.facts)
        val_null = any(f[0] == ("is", ("attr", rec, "value"), ("k", None)) and f[1] for f in p.facts)
        case = f"key {'null' if key_null else 'set'}, value {'null' if val_null else 'set'}"
        staged = [e for e in p.effects if e[0] in ("write", "wvarint", "repeat") and (e[0] == "repeat" or e[1].kind == "local")]
        sink = [e for e in p.effects if e[0] in ("write", "wvarint") and e[1].kind == "param"]
        seq = [(fmt_of_write(e) if e[0] != "repeat" else ("repeat", e[1])) for e in staged]
        exp = [(">b", ("attr", rec, "attributes")), ("varint", None), ("varint", zigzag_enc(("sub", ("attr", rec, "offset"), bo), 32))]
        for nm, is_null in (("key", key_null), ("value", val_null)):
            if is_null:
                exp.append(("const:01", ("k", b"\x01")))  # zig-zag(-1) = 1
            else:
                L = ("len", ("attr", rec, nm))
                exp.append(("varint", zigzag_enc(L, 32)))
                exp.append(("raw", ("attr", rec, nm)))
        exp.append(("varint", zigzag_enc(("len", ("attr", rec, "headers")), 32)))
        exp.append(("repeat", ("len", ("attr", rec, "headers"))))
        problems = []
        if len(seq) != len(exp):
            problems.append(f"{len(seq)} staged items, expected {len(exp)}: {[s[0] for s in seq]}")
        else:
            for i, ((gf, gv), (ef, evv)) in enumerate(zip(seq, exp)):
                if gf != ef:
                    problems.append(f"item {i} is written as {gf}, expected {ef}")
                elif evv is not None and gv != evv:
                    problems.append(f"item {i} carries {show_term(gv)[:120]}, expected {show_term(evv)[:120]}")
            # timestamp delta
            gv = seq[1][1]
            inner = None
            if isinstance(gv, tuple) and gv[0] == "xor" and gv[1][0] == "shl" and gv[2][0] == "shr" and gv[2][2] == ("k", 63) and gv[1][1] == gv[2][1]:
                inner = gv[1][1]
            if inner is None or inner[0] != "sub" or inner[2] != bt or not contains(inner[1], ("attr", rec, "timestamp")):
                problems.append(f"timestamp delta is {show_term(gv)[:160]}, expected zigzag64(ms(record.timestamp) - base_timestamp)")
            else:
                time_terms.append(("record timestamp", inner[1], rfn))
        # sink: length of exactly the staged bytes, then the bytes
        if len(sink) != 2:
            problems.append(f"{len(sink)} sink writes, expected length + staged record")
        else:
            lf, lv = fmt_of_write(sink[0])
            cf, cv = fmt_of_write(sink[1])
            size = None
            if isinstance(lv, tuple) and lv[0] == "xor" and lv[1][0] == "shl":
                size = lv[1][1]
            last_idx = max(i for i, e in enumerate(p.effects) if e in staged)
            ok_size = isinstance(size, tuple) and ((size[0] == "tell" and size[2] > last_idx) or (size[0] == "len" and size[1] == cv))
            if lf != "varint" or not ok_size:
                problems.append(f"record length prefix is {show_term(lv)[:120]}, expected the zig-zag varint size of exactly the staged record")
            if not (isinstance(cv, tuple) and cv[0] == "contents" and cv[2] > last_idx):
                problems.append("the bytes appended are not the complete staged record")
        # several paths per case (a helper that forks, e.g. on rounding) are all checked; the instance is counted once per case
        if problems or case not in seen_cases:
            rep.check(R_R, not problems, construct=rfn.ref, stmt=case, message=f"{case}: " + "; ".join(problems), file=file,
                      line=rfn.node.lineno, instance=case)
        seen_cases.add(case)
    # header writer
    hdr = RA.I.sym_of_type(("param", "header"), RA.cls("RecordHeader"))
    hp, hfn = RA.write_paths("write_header", [hdr])
    hrets = [p for p in hp if p.outcome == "return"]
    rep.check(R_R, len(hrets) >= 2, construct=hfn.ref, stmt=f"{len(hrets)} returning paths", message="header writer: a header value is null or not, at least 2 returning paths are needed",
              file=file, line=hfn.node.lineno, instance="header")
    # E6
    seen = set()
    for name, t, f in time_terms:
        conv = jsonable(t)
        hole = None

        def find(x):
            nonlocal hole
            if isinstance(x, list) and x and x[0] == "attr" and x[-1] == "timestamp" and hole is None:
                hole = x
            elif isinstance(x, list):
                for y in x:
                    find(y)
        find(conv)

        def sub(x):
            if x == hole:
                return ["X"]
            if isinstance(x, list):
                return [sub(y) for y in x]
            return x
        c2 = sub(conv)
        key = (f.ref, timeflow.show(c2))
        if key in seen:
            continue
        seen.add(key)
        q, issues = timeflow.write_side(c2, 64, "timestamp")
        issues = [i for i in issues if i[0] in ("T-trunc", "T-unit", "T-int", "T-epoch")]
        if q is None:
            rep.limit(f"{f.ref}: timestamp conversion not understood: {timeflow.show(c2)[:160]}")
            continue
        rep.check(R_T, q is not None and not issues, construct=f.ref, stmt=timeflow.show(c2),
                  message="; ".join(f"{r}: {m}" for r, m, _ in issues) or "conversion not understood", file=file, line=f.node.lineno)
    from .. import scan
    R_M = rep.rule("C17-memo", "no conversion on the batch-writing path is memoised on a datetime/number", floor=0)
    for m in scan.memoised_functions(ctx, ["kio.records.writers", "kio.serial.writers"]):
        rep.check(R_M, not m["bad_params"], construct=f"{m['module']}:{m['function']}", stmt=m["stmt"],
                  message=f"memoised on parameters {m['bad_params']}: datetimes that differ only in fold (the repeated hour at the end of DST) "
                          f"compare equal but are different instants; the second one is written with the first one's milliseconds",
                  file=m["file"], line=m["line"])
    rep.count(R_M, 1, instance="scan")
    # no state outside the call: scratch buffers of the record writers are allocated per call
    R_S = rep.rule("C17-call-local", "the batch/record writers keep no module-level or closure state (a scratch buffer shared between calls carries "
                   "the bytes of a failed write into the next batch)", floor=0)
    REC = ["kio.records.writers", "kio.records.readers", "kio.records.schema", "kio.records"]
    for st_ in scan.module_state(ctx, REC):
        if st_["kind"] in ("module-mutable", "global", "nonlocal"):
            rep.check(R_S, False, construct=f"{st_['module']}:{st_['function']}", stmt=st_["stmt"],
                      message=f"{st_['kind']}: {st_['name']} {st_['what']} -- state that outlives the call: after a write that failed part-way "
                              f"the leftover bytes are emitted as the start of the next batch's first record", file=st_["file"], line=st_["line"])
    for m_ in scan.captured_mutations(ctx, REC):
        rep.check(R_S, False, construct=m_["function"], stmt=m_["stmt"], message=f"mutates {m_['name']!r} of the enclosing {m_['outer']}",
                  file=m_["file"], line=m_["line"])
    rep.count(R_S, len(REC), instance="scan")
    # the varint writer every record length / delta goes through emits canonical LEB128 for every value
    R_V = rep.rule("C17-varint", "every varint written for a record comes from a varint writer whose every path emits the canonical bytes "
                   "for every value that takes it (bit-vector proof, kverif/varint.py)", floor=1,
                   necessary_because="zig-zag(8192) = 16384 written by a two-byte fast path as 80 80: an independent decoder reads past the record")
    atoms = {}

    def collect(effects):
        for e in effects:
            if e[0] == "wvarint" and isinstance(e[3], dict):
                atoms.setdefault(e[3]["fn"], e[3])
            elif e[0] == "repeat":
                for b in e[2]:
                    collect(b[1])
    for p_ in list(WR["paths"]) + list(W["paths"] if isinstance(W, dict) and "paths" in W else []):
        collect(p_.effects)
    for fnref, atom in sorted(atoms.items()):
        rep.check(R_V, not atom.get("problems"), construct=fnref, stmt=f"{fnref}: {len(atom['paths'])} paths, up to {atom['max_bytes']} bytes",
                  message="; ".join(atom.get("problems") or []), file="src/kio/serial/writers.py", line=atom.get("line", 0))
    rep.sample({"rule": "C17-layout", "spec": BATCH_SPEC})
    rep.trusted_base += ["crc32c.crc32c (external C extension)", "struct format table", "kverif/records.py BATCH_SPEC written from the Kafka record batch documentation"]
