"""C04 -- the shipped schema is what the generator derives from the pinned definitions.

The upstream JSON definitions are not in the sandbox and running the generator would be
execution: equality with generator output is NOT decided.  Decided: (a) semantic baseline
diff against the frozen 3.9.0 reference, (b) static importability, (c) agreement between the
current generator's vocabulary and the shipped instances (E8), (d) independent pins."""
from __future__ import annotations

import importlib
import json

from ..baseline import load_reference, normalise, diff, compute_pins, PINS
from ..core import AnalysisError
from ..spec import API_KEYS, snake
from .common import loc

PID = "C04"
LEVEL = "other"
TECHNIQUE = ("API-baseline diff of the AST-derived schema model against a frozen normalised reference (names, order, "
             "types, nullability, tags, defaults, flexibility, keys, headers, dataclass options, error codes, index, "
             "exports); static import/name resolution; generator-vocabulary vs shipped-instance agreement (E8)")

STDLIB_OK = {"dataclasses", "typing", "uuid", "datetime", "enum", "__future__", "collections.abc", "types"}


def describe(path):
    parts = [p for p in path.split("/") if p]
    if parts and parts[0] == "modules" and len(parts) >= 2:
        mod = parts[1]
        rest = parts[2:]
        if len(rest) >= 2 and rest[0] == "classes":
            cls = rest[1]
            tail = "/".join(rest[2:])
            return f"{mod}:{cls}", tail, mod
        return mod, "/".join(rest), mod
    return "/".join(parts[:2]), "/".join(parts[2:]), None


def check(rep, ctx):
    S = ctx.schema
    rep.explanation = (
        "The literal statement needs the 186 upstream JSON definitions (absent, git-ignored, fetched over the network) "
        "and a run of the generator (execution): not decided. Decided: (a) the current schema model equals the frozen "
        "3.9.0 reference at the grain of the statement -- any hand edit of a generated module (flipped __flexible__, "
        "renumbered tag, changed default, dropped nullability, reordered field, changed decorator option, altered error "
        "code or index entry) is a diff entry naming the class and attribute; formatting, comments, docstrings and import "
        "order do not register; (b) every import of every version module resolves, every name used is bound, every "
        "v<N>/__init__.py re-exports exactly the module's top-level classes; (c) the vocabulary the current generator "
        "can emit matches the shipped instances; (d) independent pins of API keys, version ranges and first flexible "
        "versions. Trust: the pinned commit's schema is the generator's output (the reference is taken from it).")
    R_A = rep.rule("C04-a-baseline", "schema model = frozen 3.9.0 reference (per module/class/field/table)", floor=2000)
    R_B = rep.rule("C04-b-imports", "every import of every version module resolves; every name used is bound", floor=3000)
    R_BX = rep.rule("C04-b-exports", "each v<N>/__init__.py re-exports exactly the top-level classes of its modules; "
                    "every API package is a package", floor=400)
    R_D = rep.rule("C04-d-pins", "API key -> name, version range and first flexible version per API match the pins", floor=250)
    R_S = rep.rule("C04-shape", "version modules contain only imports, docstrings and dataclass definitions", floor=2000)
    # build tag -------------------------------------------------------------------------------------
    try:
        tag = ctx.interp.module("codegen").env.vars.get("build_tag")
    except Exception as e:
        raise AnalysisError(f"cannot evaluate codegen.build_tag: {e}")
    ref = load_reference()
    if tag != ref["build_tag"]:
        raise AnalysisError(f"codegen.build_tag is {tag!r}; the frozen reference is for {ref['build_tag']!r}: "
                            f"no reference for this release (a legitimate upgrade is not a violation)")
    cur = json.loads(json.dumps(normalise(S.raw)))
    diffs = list(diff(ref["schema"], cur))
    # count obligations: one per module, class, field, init, table
    n_units = 0
    for mname, m in ref["schema"]["modules"].items():
        n_units += 1 + len(m["classes"]) + sum(len(c["fields"]) for c in m["classes"])
    n_units += len(ref["schema"]["inits"]) + len(ref["schema"]["errors"]) + 3
    rep.count(R_A, max(n_units - len(diffs), 0), instance="units-equal")
    for path, a, b in diffs[:400]:
        construct, attr, mod = describe(path)
        m = S.modules.get(mod) if mod else None
        file = m["path"] if m else ("src/kio/schema/index.py" if path.startswith("/index") else
                                    "src/kio/schema/errors.py" if path.startswith("/errors") else "src/kio/schema")
        line = 0
        if m and ":" in construct:
            cname = construct.split(":")[1]
            c = next((c for c in m["classes"] if c["name"] == cname), None)
            if c:
                line = c["line"]
                parts = attr.split("/")
                if len(parts) >= 2 and parts[0] == "fields":
                    f = next((f for f in c["fields"] if f["name"] == parts[1]), None)
                    line = f["line"] if f else line
                elif len(parts) >= 2 and parts[0] == "classvars" and parts[1] in c["classvars"]:
                    line = c["classvars"][parts[1]]["line"]
        rep.check(R_A, False, construct=construct, stmt=f"{attr}: {json.dumps(b, default=str)[:160]}",
                  message=f"{attr or path} differs from the 3.9.0 reference: reference {json.dumps(a, default=str)[:200]} -> "
                          f"current {json.dumps(b, default=str)[:200]}", file=file, line=line)
    if len(diffs) > 400:
        rep.note(f"{len(diffs) - 400} further baseline differences not listed")
    rep.sample({"rule": "C04-a-baseline", "units_compared": n_units, "differences": len(diffs)})
    # shape ---------------------------------------------------------------------------------------
    for mname, m in sorted(S.modules.items()):
        rep.check(R_S, not m["other"], construct=mname, stmt="; ".join(o["src"][:60] for o in m["other"]),
                  message=f"module-level statements other than imports/classes: {[o['src'][:50] for o in m['other']]}",
                  file=m["path"], line=m["other"][0]["line"] if m["other"] else 1)
        for c in m["classes"]:
            rep.check(R_S, not c["other"], construct=c["key"], stmt="; ".join(o["src"][:60] for o in c["other"]),
                      message=f"class body contains statements other than annotated assignments: {[o['src'][:50] for o in c['other']]}",
                      **loc(S, c))
    # imports ---------------------------------------------------------------------------------------
    sm = ctx.sm
    defined_cache = {}

    def defines(mod, name) -> bool:
        if name is None:
            return sm.get(mod) is not None or _std(mod, None)
        src = sm.get(mod)
        if src is None:
            return _std(mod, name)
        if mod.startswith("kio.schema.") and mod in S.modules:
            return any(c["name"] == name for c in S.modules[mod]["classes"])
        if mod not in defined_cache:
            import ast
            names = set()
            for st in ast.walk(src.tree):
                if isinstance(st, (ast.ClassDef, ast.FunctionDef)):
                    names.add(st.name)
                elif isinstance(st, (ast.Assign, ast.AnnAssign)):
                    for t in (st.targets if isinstance(st, ast.Assign) else [st.target]):
                        if isinstance(t, ast.Name):
                            names.add(t.id)
                elif isinstance(st, (ast.Import, ast.ImportFrom)):
                    for a in st.names:
                        names.add((a.asname or a.name).split(".")[0])
            defined_cache[mod] = names
        return name in defined_cache[mod] or sm.get(f"{mod}.{name}") is not None

    def _std(mod, name) -> bool:
        if mod.split(".")[0] in ("kio", "codegen"):
            return False
        try:
            m = importlib.import_module(mod)  # standard library only: never a module of the repository
        except Exception:
            return False
        return name is None or hasattr(m, name)

    def unresolved(n, out):
        if isinstance(n, dict):
            if "n" in n and isinstance(n["n"], str) and n["n"].startswith("?:"):
                out.append(n["n"][2:])
            for v in n.values():
                unresolved(v, out)
        elif isinstance(n, list):
            for v in n:
                unresolved(v, out)
    for mname, m in sorted(S.modules.items()):
        for local, (mod, name) in sorted(m["imports"].items()):
            rep.check(R_B, defines(mod, name), construct=mname, stmt=f"from {mod} import {name}" if name else f"import {mod}",
                      message=f"import does not resolve: {mod}{':' + name if name else ''}", file=m["path"], line=1,
                      instance=f"{mname}|{local}")
        for c in m["classes"]:
            bad = []
            unresolved([c["decorators"], c["bases"], c["classvars"], [f["ann"] for f in c["fields"]],
                        [f["default"] for f in c["fields"]], [f.get("metadata_norm") for f in c["fields"]]], bad)
            rep.check(R_B, not bad, construct=c["key"], stmt=f"names {sorted(set(bad))}",
                      message=f"names used in the class body are not bound by an import or definition: {sorted(set(bad))}", **loc(S, c))
    # exports -----------------------------------------------------------------------------------------
    by_pkg = {}
    for mname, m in S.modules.items():
        by_pkg.setdefault(mname.rsplit(".", 1)[0], []).extend(c["name"] for c in S.top_level(m))
    for pkg, tops in sorted(by_pkg.items()):
        init = S.raw["inits"].get(pkg)
        path = "src/" + pkg.replace(".", "/") + "/__init__.py"
        if init is None:
            rep.check(R_BX, False, construct=pkg, stmt="__init__.py", message="version package has no __init__.py", file=path)
            continue
        exported = sorted(init["all"] or [])
        imported = sorted(n for n, (mod, attr) in init["imports"].items() if mod.startswith(pkg + "."))
        rep.check(R_BX, exported == sorted(tops) and imported == sorted(tops), construct=pkg,
                  stmt=f"__all__ = {exported}; imports {imported}",
                  message=f"package exports {exported} / imports {imported} but its modules define top-level classes {sorted(tops)}",
                  file=path, line=1)
    for ap in S.raw["api_packages"]:
        rep.check(R_BX, ap["has_init"], construct=f"kio.schema.{ap['api']}", stmt="__init__.py",
                  message="API package has no __init__.py", file=f"src/kio/schema/{ap['api']}")
    for st in S.raw["stray"]:
        rep.check(R_BX, False, construct=st, stmt=st, message="unexpected file in the generated schema package", file=st)
    # pins ---------------------------------------------------------------------------------------------
    if not PINS.exists():
        raise AnalysisError(f"{PINS} is missing")
    pins = json.loads(PINS.read_text())["apis"]
    cur_pins = compute_pins(S)
    for api in sorted(set(pins) | set(cur_pins)):
        for typ in sorted(set(pins.get(api, {})) | set(cur_pins.get(api, {}))):
            a, b = pins.get(api, {}).get(typ), cur_pins.get(api, {}).get(typ)
            rep.check(R_D, a == b, construct=f"kio.schema.{api}:{typ}", stmt=f"{b}",
                      message=f"pinned {a} but the tree has {b}", file=f"src/kio/schema/{api}")
    akm = S.raw["index"]["api_key_map"]
    for k, camel in sorted(API_KEYS.items()):
        rep.check(R_D, akm.get(str(k)) == snake(camel), construct=f"api_key_map[{k}]", stmt=f"{k}: {akm.get(str(k))!r}",
                  message=f"Kafka's API key {k} is {camel} ({snake(camel)!r}) but the index says {akm.get(str(k))!r}",
                  file="src/kio/schema/index.py", line=S.raw["index"].get("api_key_map_line", 0))
    rep.check(R_D, len(akm) == len(API_KEYS), construct="api_key_map", stmt=f"{len(akm)} keys",
              message=f"{len(akm)} API keys in the index, Kafka 3.9.0 has {len(API_KEYS)}", file="src/kio/schema/index.py")
    # generator <-> instances (E8) ------------------------------------------------------------------------
    from ..gen import generator_vs_instances
    R_C = rep.rule("C04-c-generator", "the vocabulary the current generator emits matches the shipped classes and fields", floor=30)
    for row in generator_vs_instances(ctx):
        rep.check(R_C, row["ok"], construct=row["construct"], stmt=row["stmt"], message=row["message"],
                  file=row.get("file", "codegen/generate_schema.py"), line=row.get("line", 0))
    from ..gen_tables import dataclass_field_invariants
    for row in dataclass_field_invariants(ctx):
        rep.check(R_C, row["ok"], construct="codegen.generate_schema:format_dataclass_field", stmt=row["case"], message=row["message"],
                  file="codegen/generate_schema.py", line=row.get("line", 0))
    from ..gen_tables import naming_rows
    R_N = rep.rule("C04-c-names", "the generator's naming functions reproduce the shipped field names and package names", floor=500,
                   necessary_because="isKRaftController must come out as is_k_raft_controller, KRaftVersionRecord as package k_raft_version_record")
    for row in naming_rows(ctx):
        rep.check(R_N, row["ok"], construct=row["construct"], stmt=row["stmt"], message=row["message"], file=row["file"], line=row["line"])
    from ..gen_tables import special_name_rows
    R_SN = rep.rule("C04-c-special-names", "the parser's name-based special cases (ErrorCode, ...Ms durations and timestamps) give every shipped scalar field "
                   "the kafka type it ships with", floor=250)
    for row in special_name_rows(ctx):
        rep.check(R_SN, row["ok"], construct=row["construct"], stmt=row["stmt"], message=row["message"], file=row["file"], line=row["line"])
    from ..gen_tables import custom_type_rows
    from ..gen_tables import error_code_rows
    R_EC = rep.rule("C04-c-error-codes", "the error-code generator turns every row of the listing into its member line (the loop body of "
                    "generate_error_codes.main evaluated on representative rows: the negative code, code 0, ordinary codes)", floor=5,
                    necessary_because="a filter such as `if not row.split()[0].isdigit(): continue` drops `-1 UNKNOWN_SERVER_ERROR`")
    for row in error_code_rows(ctx):
        rep.check(R_EC, row["ok"], construct="codegen.generate_error_codes:main", stmt=row["case"], message=row["message"],
                  file="codegen/generate_error_codes.py", line=0)
    R_CT = rep.rule("C04-c-custom-types", "the definition emitted for every shipped custom type is a subclass of the shipped base", floor=5)
    for row in custom_type_rows(ctx):
        rep.check(R_CT, row["ok"], construct="codegen.generate_schema:CustomTypeDef.get_definition", stmt=row["case"], message=row["message"],
                  file="codegen/generate_schema.py", line=0)
    from ..gen_tables import primitive_array_lines, generated_modules
    R_GL = rep.rule("C04-c-lines", "the field lines and classes the current generator emits for synthetic definitions have the shape of the shipped "
                    "ones (uuid items optional, tagged all-default structs defaulted, class variables, order)", floor=20)
    pa_problems, pa_cases = primitive_array_lines(ctx)
    for aspect, probs in pa_problems.items():
        if aspect == "nullability":
            continue  # generator and shipped schema agree here (both drop it: finding F11 of C16); C04 is about their agreement
        rep.check(R_GL, not probs, construct="codegen.generate_schema:generate_primitive_array_field", stmt=f"{aspect} of primitive array fields",
                  message=f"{len(probs)} of {pa_cases} cases: " + "; ".join(probs[:3]), file="codegen/generate_schema.py", line=0)
    for row in generated_modules(ctx):
        rep.check(R_GL, row["ok"], construct="codegen.generate_schema:generate_models", stmt=row["case"], message=row["message"],
                  file="codegen/generate_schema.py", line=0)
    rep.extra.update(modules=len(S.modules), classes=len(S.classes), reference=str(ref["build_tag"]), baseline_differences=len(diffs))
    rep.assumptions.append("the schema of the pinned commit is the generator's output for Kafka 3.9.0 (the reference is frozen from it)")
    rep.trusted_base += ["/verif/reference/schema-3.9.0.json.gz", "/verif/spec/api_pins.json", "kverif/spec.py API key table"]
