from __future__ import annotations

from ..ssm import Schema, show_type, show_norm

PRIM = "kio.static.primitive:"


def loc(schema: Schema, c: dict, f: dict | None = None):
    m = schema.modules.get(c["module"]) if "module" in c else None
    path = m["path"] if m else c.get("path", "")
    return {"file": path, "line": (f or c).get("line", 0)}


def field_construct(c: dict, f: dict) -> str:
    return f"{c['key']}.{f['name']}"


def field_stmt(f: dict) -> str:
    s = f"{f['name']}: {show_type(f['type'])}"
    md = f.get("metadata")
    parts = []
    if md is not None:
        parts.append(f"metadata={md}")
    if f.get("default") is not None:
        parts.append(f"default={show_norm(f['default'])}")
    if parts:
        s += " = field(" + ", ".join(parts) + ")"
    return s
