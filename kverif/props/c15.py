"""C15 -- entities are immutable, hashable value objects."""
from __future__ import annotations

import ast

from ..core import AnalysisError
from ..ssm import extract_version_module, Schema
from .common import loc, field_construct, field_stmt

PID = "C15"
LEVEL = "other"
TECHNIQUE = ("exhaustive syntactic/type check over the static schema model: resolved decorator and its options, class "
             "body members, closed set of immutable field types, defaults; the same for kio.records.schema; generator "
             "template cross-check (E8)")

FORBIDDEN = {"__eq__", "__hash__", "__setattr__", "__delattr__", "__getstate__", "__setstate__", "__reduce__",
             "__reduce_ex__", "__post_init__", "__slots__", "__dict__", "__copy__", "__deepcopy__", "__init__", "__new__",
             "__getattr__", "__getattribute__", "__ne__"}
BAD_OPTS = {"eq": False, "unsafe_hash": True, "init": False, "frozen": False, "slots": False}
IMMUTABLE_BUILTINS = {"builtins:str", "builtins:bytes", "builtins:bool", "builtins:int", "builtins:float", "uuid:UUID"}
IMMUTABLE_ROOTS = {"int", "float", "bytes", "str", "datetime.timedelta", "datetime.datetime", "bool"}


def primitive_roots(ctx):
    """class name -> root builtin, for kio/static/primitive.py and kio/schema/types.py (AST walk of bases)."""
    out = {}
    for modname in ("kio.static.primitive", "kio.schema.types"):
        src = ctx.sm.require(modname)
        classes = {n.name: n for n in src.tree.body if isinstance(n, ast.ClassDef)}

        def root(name, seen=()):
            if name in seen or name not in classes:
                return None
            for b in classes[name].bases:
                t = ast.unparse(b)
                if t in IMMUTABLE_ROOTS:
                    return t
                if t in classes:
                    r = root(t, seen + (name,))
                    if r:
                        return r
                if t in ("i8", "i16", "i32", "i64", "u8", "u16", "u32", "u64") and modname == "kio.schema.types":
                    return "int"
            return None
        def is_value_type(name, seen=()):
            """A primitive value type derives (possibly through other classes of the module) from Phantom / Interval or from a builtin;
            a private helper class without such a base (a callable predicate, a context manager) is not a value type."""
            if name in seen or name not in classes:
                return False
            for b in classes[name].bases:
                t = ast.unparse(b).split("[")[0]
                if t in ("Phantom", "Interval") or t in IMMUTABLE_ROOTS or t in ("i8", "i16", "i32", "i64", "u8", "u16", "u32", "u64"):
                    return True
                if t in classes and is_value_type(t, seen + (name,)):
                    return True
            return False
        for n, c in classes.items():
            if not is_value_type(n) and n not in ("Phantom", "Interval"):
                continue
            mutators = [s.name for s in c.body if isinstance(s, ast.FunctionDef) and s.name in ("__setattr__", "__delattr__", "__eq__", "__hash__")]
            out[f"{modname}:{n}"] = (root(n), mutators, c.lineno)
    return out


def check(rep, ctx):
    S = ctx.schema
    rep.exhaustive = True
    rep.explanation = (
        "Immutability, value equality and hashing of a dataclass are fixed by its decorator options, its bases, the "
        "members of its class body and the types of its fields -- all source-level. Decided for the generated classes and "
        "the four record classes: the decorator resolves to dataclasses.dataclass with frozen=True and slots=True and "
        "without eq=False / unsafe_hash / init=False; no base classes; the body defines none of the dunder members that "
        "would override equality, hashing, attribute assignment, pickling or construction; classes are module-level; every "
        "field type is drawn from the closed immutable set; no default is a mutable object or a default_factory. Not "
        "decided: that CPython's dataclass(frozen, slots) delivers the behaviour (trusted library semantics).")
    R_D = rep.rule("C15-decorator", "decorator is dataclasses.dataclass(frozen=True, slots=True) with no option that "
                   "disables eq/hash/init", floor=1600)
    R_B = rep.rule("C15-bases", "entity classes have no base classes or class keywords", floor=1600)
    R_M = rep.rule("C15-members", "class body defines no member overriding equality, hashing, assignment, pickling or "
                   "construction", floor=1600)
    R_T = rep.rule("C15-field-type", "field type is drawn from the closed set of immutable types", floor=5000)
    R_F = rep.rule("C15-default", "no default is a mutable object or a default_factory", floor=5000)
    R_P = rep.rule("C15-primitives", "the primitive value types derive from immutable builtins and define no mutators", floor=15)
    roots = primitive_roots(ctx)
    for name, (root, mutators, line) in sorted(roots.items()):
        if name.endswith((":Interval", ":Phantom")):
            continue
        rep.check(R_P, root is not None and not mutators, construct=name, stmt=f"root={root} mutators={mutators}",
                  message=f"value type does not derive from an immutable builtin (root {root}) or defines {mutators}",
                  file=ctx.sm.require(name.split(':')[0]).rel, line=line)
    classes = list(S.classes.values())
    # record classes, in the same model
    rsrc = ctx.sm.require("kio.records.schema")
    rm = extract_version_module(str(rsrc.path), "kio.records.schema")
    rnames = {c["name"] for c in rm["classes"]}
    if not {"RecordHeader", "Record", "RecordBatch", "NewRecordBatch"} <= rnames:
        raise AnalysisError(f"anchor vanished: record classes in kio.records.schema (found {sorted(rnames)})")
    for c in rm["classes"]:
        c["module"] = "kio.records.schema"
        c["key"] = f"kio.records.schema:{c['name']}"
        c["path"] = rsrc.rel
        classes.append(c)
    entity_keys = set(S.classes) | {c["key"] for c in rm["classes"]}
    R_U = rep.rule("C15-unique-names", "every class name is defined once per module (a field annotated with a class that is redefined further down "
                   "holds instances of a class nobody can name: unequal to instances built from the public name, not picklable)", floor=660)
    for mname_, m_ in sorted(S.modules.items()):
        names_ = [c_["name"] for c_ in m_["classes"]]
        dup_ = sorted({n_ for n_ in names_ if names_.count(n_) > 1})
        rep.check(R_U, not dup_, construct=mname_, stmt=f"classes {names_}", message=f"class name(s) {dup_} are defined more than once in the module",
                  file=m_["path"], line=1)
    # a plain helper class of the records module (an accessor mix-in) is harmless exactly when it adds no per-instance storage: it declares
    # empty __slots__, has no fields, and its own bases are of the same kind.  Without __slots__ every instance of a subclass gets a
    # __dict__, whatever slots=True says on the dataclass: object.__setattr__(batch, "x", []) then succeeds on a "frozen" value.
    def _slots_src(c_):
        return [o["src"].replace(" ", "") for o in c_["other"] if o["src"].lstrip().startswith("__slots__")]
    rec_by_name = {c_["name"]: c_ for c_ in rm["classes"]}

    def _is_stateless_mixin(c_, depth=0):
        if c_["decorators"] or any(f_["has_value"] for f_ in c_["fields"]) or c_["keywords"] or depth > 5:  # bare annotations store nothing
            return False
        if _slots_src(c_) not in (["__slots__=()"], ["__slots__=[]"]):
            return False
        return all(_base_ok(b_, depth + 1) for b_ in c_["bases"])

    def _base_ok(b_, depth=0):
        n_ = (b_.get("n") or "") if isinstance(b_, dict) else ""
        bc_ = rec_by_name.get(n_.rpartition(":")[2]) if n_.startswith("kio.records.schema:") or ":" not in n_ else None
        return bc_ is not None and _is_stateless_mixin(bc_, depth)
    for c in classes:
        where = loc(S, c) if c["module"] != "kio.records.schema" else {"file": rsrc.rel, "line": c["line"]}
        dec = c["decorators"]
        if c["module"] == "kio.records.schema" and c["name"] not in ("RecordHeader", "Record", "RecordBatch", "NewRecordBatch") \
                and not dec and not any(f_["has_value"] for f_ in c["fields"]):
            used_as_base = any(isinstance(b_, dict) and (b_.get("n") or "").rpartition(":")[2] == c["name"] for o_ in rm["classes"] for b_ in o_["bases"])
            if used_as_base:
                rep.check(R_B, _is_stateless_mixin(c), construct=c["key"], stmt=f"helper base class: __slots__ {_slots_src(c) or 'not declared'}",
                          message=f"this base class of a record class does not declare empty __slots__: every instance of its subclasses gets a "
                                  f"__dict__ (slots=True on the dataclass does not help), so object.__setattr__(batch, 'x', []) succeeds and the "
                                  f"attached state is invisible to == and hash()", **where)
            continue
        ok, why = False, "no dataclass decorator"
        helper_note = None
        if len(dec) == 1 and c["module"] == "kio.records.schema" and isinstance(dec[0], dict) and "call" not in dec[0]:
            # a module-level helper that applies the dataclass decorator: accepted when it RETURNS what dataclass(...) returns.  With
            # slots=True dataclass() builds a new class; a helper that calls it and returns its own argument hands back the old one.
            hname = (dec[0].get("n") or "").rpartition(":")[2]
            hfn = next((n_ for n_ in rsrc.tree.body if isinstance(n_, ast.FunctionDef) and n_.name == hname), None)
            if hfn is not None and len(hfn.args.args) == 1:
                param = hfn.args.args[0].arg
                calls = [n_ for n_ in ast.walk(hfn) if isinstance(n_, ast.Call) and isinstance(n_.func, ast.Call) and
                         ast.unparse(n_.func.func).split(".")[-1] == "dataclass" and len(n_.args) == 1 and ast.unparse(n_.args[0]) == param]
                rets = [n_ for n_ in ast.walk(hfn) if isinstance(n_, ast.Return)]
                if len(calls) == 1 and len(rets) == 1:
                    inner = calls[0].func
                    opts_ = {k_.arg: (k_.value.value if isinstance(k_.value, ast.Constant) else None) for k_ in inner.keywords}
                    returned_call = rets[0].value is calls[0]
                    if not returned_call and isinstance(rets[0].value, ast.Name):
                        # `x = dataclass(...)(cls); return x` is fine, `dataclass(...)(cls); return cls` is not
                        assigned = [n_ for n_ in ast.walk(hfn) if isinstance(n_, ast.Assign) and n_.value is calls[0] and len(n_.targets) == 1
                                    and isinstance(n_.targets[0], ast.Name) and n_.targets[0].id == rets[0].value.id]
                        returned_call = bool(assigned) and rets[0].value.id != param
                    if returned_call:
                        dec = [{"call": {"n": "dataclasses:dataclass"}, "args": [], "kw": {k_: {"c": v_} for k_, v_ in opts_.items()}}]
                    else:
                        helper_note = (f"the helper {hname} applies dataclass({', '.join(f'{k_}={v_}' for k_, v_ in opts_.items())}) but returns its "
                                       f"argument: with slots=True dataclass() returns a NEW class and leaves the original without __slots__, so "
                                       f"every instance has a __dict__")
        if len(dec) == 1:
            d = dec[0]
            if "call" in d and d["call"].get("n") == "dataclasses:dataclass" and not d["args"]:
                opts = {k: v.get("c") if isinstance(v, dict) else v for k, v in d["kw"].items()}
                bad = [f"{k}={opts[k]}" for k, v in BAD_OPTS.items() if k in opts and opts[k] == v]
                missing = [k for k in ("frozen", "slots") if opts.get(k) is not True]
                ok, why = not bad and not missing, f"options {opts}: " + "; ".join(bad + [f"{m} is not True" for m in missing])
            elif d.get("n") == "dataclasses:dataclass":
                ok, why = False, "bare @dataclass: not frozen, no slots"
            else:
                why = f"decorator is {d}"
        elif len(dec) > 1:
            why = f"{len(dec)} decorators"
        rep.check(R_D, ok, construct=c["key"], stmt=f"decorators {dec}", message=helper_note or why, **where)
        bases_ok = not c["bases"] or (c["module"] == "kio.records.schema" and all(_base_ok(b_) for b_ in c["bases"]))
        rep.check(R_B, bases_ok and not c["keywords"], construct=c["key"], stmt=f"bases {c['bases']} keywords {c['keywords']}",
                  message=f"entity class has bases {c['bases']} / keywords {c['keywords']}: a base that is not a field-less class with empty "
                          f"__slots__ adds per-instance storage (a __dict__) or fields outside the declared ones", **where)
        bad_members = [o for o in c["other"] if (o.get("name") in FORBIDDEN) or
                       any(o["src"].lstrip().startswith(f"{n} =") or o["src"].lstrip().startswith(f"{n}:") for n in FORBIDDEN)]
        cv_bad = [n for n in c["classvars"] if n in FORBIDDEN]
        rep.check(R_M, not bad_members and not cv_bad, construct=c["key"],
                  stmt="; ".join(o["src"][:60] for o in bad_members) or str(cv_bad),
                  message=f"class body defines {[o.get('name') or o['src'][:40] for o in bad_members] + cv_bad}", **where)
        for f in c["fields"]:
            t = f["type"]
            base = t
            problems = []
            depth = 0
            while True:
                if "opt" in base:
                    base = base["opt"]
                elif "tuple" in base:
                    base = base["tuple"]
                else:
                    break
                depth += 1
            if "bad" in base:
                problems.append(f"annotation {f['ann_src']!r} is not T, T | None, tuple[T, ...]")
            else:
                n = base["n"]
                if n in IMMUTABLE_BUILTINS or n == "kio.schema.errors:ErrorCode" or n in entity_keys:
                    pass
                elif n in roots:
                    if roots[n][0] is None:
                        problems.append(f"{n} does not derive from an immutable builtin")
                else:
                    problems.append(f"type {n} is not in the closed immutable set")
            fw = {"file": where["file"], "line": f["line"]}
            rep.check(R_T, not problems, construct=f"{c['key']}.{f['name']}", stmt=field_stmt(f), message="; ".join(problems), **fw)
            d = f.get("default")
            dp = []
            if f.get("default_factory"):
                dp.append(f"default_factory={f['default_factory']}")
            if d is not None:
                if "l" in d or "d" in d or ("call" in d and d["call"].get("n") in ("builtins:list", "builtins:dict", "builtins:set", "builtins:bytearray")):
                    dp.append("mutable default")
                if "src" in d and d["src"].startswith(("[", "{")):
                    dp.append("mutable default")
            extra_kw = sorted(set(f.get("field_kw") or []) - {"metadata", "default"})
            if extra_kw:
                dp.append(f"field() is given {extra_kw}: only metadata and default keep every field part of __init__, __eq__ and __hash__ "
                          f"(compare=False / hash=False make instances that differ in this field equal)")
            rep.check(R_F, not dp, construct=f"{c['key']}.{f['name']}", stmt=field_stmt(f), message="; ".join(dp), **fw)
    # decoded values: nothing mutable may be handed out by a reader
    from .. import scan
    R_V = rep.rule("C15-decoded-values", "readers return immutable values: no bytearray/memoryview built in a reader is returned as is", floor=0)
    for m in scan.mutable_buffer_returns(ctx, ["kio.serial.readers", "kio.serial._parse", "kio.records.readers"]):
        rep.check(R_V, False, construct=m["function"], stmt=m["stmt"],
                  message=f"`{m['stmt']}` hands out a mutable buffer ({m['name']}): an entity decoded through this path holds a bytearray -- "
                          f"hash() raises TypeError and the 'frozen' entity can be changed in place", file=m["file"], line=m["line"])
    rep.count(R_V, 1, instance="scan")
    R_B = rep.rule("C15-constructed", "an instance created with __new__ (bypassing __init__) has every slot of its class stored before it is "
                   "handed out", floor=0,
                   necessary_because="a UUID built with UUID.__new__ and only `int` set has no `is_safe`: pickling or deep-copying the decoded "
                                     "entity raises AttributeError")
    ALL_ = [m.name for m in ctx.sm.by_prefix("kio") if not m.name.startswith("kio.schema.")]
    for b in scan.bypassed_constructors(ctx, ALL_):
        if b["missing"] is None:
            raise AnalysisError(f"{b['function']} creates a {b['cls']} with __new__ at {b['file']}:{b['line']}; no slot table for that class")
        rep.check(R_B, not b["missing"], construct=b["function"], stmt=b["stmt"],
                  message=f"`{b['stmt']}` bypasses {b['cls']}.__init__ and stores only {b['stored']}: slot(s) {b['missing']} stay unset -- "
                          f"copy.deepcopy / pickle / dataclasses.asdict of an entity holding the value raise AttributeError",
                  file=b["file"], line=b["line"])
    rep.count(R_B, 1, instance="scan")
    # generator template
    from ..gen import class_template_options
    R_G = rep.rule("C15-generator", "the generator's class template carries frozen=True, slots=True", floor=1)
    opts, line = class_template_options(ctx)
    rep.check(R_G, opts.get("frozen") is True and opts.get("slots") is True and not any(opts.get(k) == v for k, v in BAD_OPTS.items() if k in ("eq", "unsafe_hash", "init")),
              construct="codegen.generate_schema:generate_dataclass", stmt=f"@dataclass({opts})",
              message=f"class_start template decorates with options {opts}", file="codegen/generate_schema.py", line=line)
    rep.sample({"rule": "C15-decorator", "class": "kio.schema.metadata.v12.request:MetadataRequest",
                "decorator": S.classes["kio.schema.metadata.v12.request:MetadataRequest"]["decorators"]})
    rep.extra.update(classes=len(classes))
    rep.trusted_base += ["CPython dataclasses: frozen=True rejects assignment, eq/hash derived from fields, slots=True removes __dict__"]
