"""C13 -- every entity is self-describing and its description is coherent."""
from __future__ import annotations

from ..core import AnalysisError
from ..grammar import KAFKA_TYPES, SPEC_PYTYPE, NULLABLE_KAFKA
from ..interp_base import Raised, Run, Limit
from ..values import GenericV, UnionV, LibClass, MISSING, ClassV
from .common import loc, field_stmt

PID = "C13"
LEVEL = "proof"
TECHNIQUE = ("exhaustive table rules over the static schema model; defaults evaluated against the declared type by "
             "abstract interpretation of the phantom-type predicates; derivability of both codec plans by evaluating "
             "entity_reader/entity_writer on every class (E2)")


def inhabits(I, v, t) -> bool:
    NONE = LibClass.get("NoneType")
    if isinstance(t, UnionV):
        return any(inhabits(I, v, a) for a in t.args)
    if t is NONE:
        return v is None
    if isinstance(t, GenericV):
        if t.origin is LibClass.get("tuple"):
            return isinstance(v, tuple) and all(inhabits(I, x, t.args[0]) for x in v)
        return False
    if isinstance(t, (ClassV, LibClass)):
        if isinstance(v, bool) and isinstance(t, ClassV):
            pass
        r = I.isinstance_(v, t, Run(), None)
        return r is True
    return False


def check(rep, ctx):
    S = ctx.schema
    I = ctx.interp
    bundle = ctx.bundle
    rep.level = LEVEL
    rep.exhaustive = True
    rep.explanation = (
        "Finite and source-level: decided for every class and field. kafka_type/annotation/nullability/array/tag rules are "
        "table rules over the schema model; 'defaults inhabit the declared type' is decided by evaluating the default "
        "expression and the declared type's own membership predicate (the phantom types' interval/predicate code, "
        "interpreted from source) in the abstract interpreter; 'a reader and a writer can be derived' is decided by "
        "running the factories' plan-building code on the class in the interpreter (3258 derivations): reaching "
        "NotImplementedError, SchemaError, TypeError or ValueError is a violation.")
    R_K = rep.rule("C13-kafka-type", "primitive (array) fields name a known Kafka primitive; entity fields name none", floor=5000)
    R_A = rep.rule("C13-annotation", "declared type = the type assigned to the kafka type (through custom types)", floor=3500)
    R_N = rep.rule("C13-nullable", "only types with a wire-level null are nullable; uuid is modelled optional; tagged "
                   "optional fields default to None", floor=4000)
    R_S = rep.rule("C13-array", "annotations are T, T | None, tuple[T, ...] (homogeneous immutable tuples)", floor=5000)
    R_D = rep.rule("C13-default", "every default inhabits the declared type", floor=900)
    R_T = rep.rule("C13-tags", "tags are unique non-negative ints, used only in flexible classes", floor=1600)
    R_P = rep.rule("C13-derivable", "a reader and a writer can be derived for the class", floor=1600)
    R_EV = rep.rule("C13-evaluated-annotations", "a schema module does not postpone the evaluation of annotations, and defines every class "
                    "name once: the field description is read from dataclasses.Field.type, which is the annotation object only when annotations "
                    "are evaluated, and a field annotated with a class that is later redefined refers to a class that is no longer reachable by name",
                    floor=660, necessary_because="with `from __future__ import annotations` Field.type is the string 'ProducerId': classify_field "
                                                 "and is_optional see a str, not a type")
    for mname, m in sorted(S.modules.items()):
        names = [c_["name"] for c_ in m["classes"]]
        dup = sorted({n for n in names if names.count(n) > 1})
        problems = []
        if m.get("future") or any(v and v[0] == "__future__" and v[1] == "annotations" for v in m["imports"].values()):
            problems.append("`from __future__ import annotations` turns every Field.type of the module into a string")
        if dup:
            problems.append(f"class name(s) {dup} are defined more than once: fields annotated before the redefinition refer to the first class, "
                            f"the module name to the second -- two classes of one qualified name, unequal instances, no pickling by reference")
        rep.check(R_EV, not problems, construct=mname, stmt="module header / class names", message="; ".join(problems), file=m["path"], line=1)
    for key in sorted(S.classes):
        c = S.classes[key]
        flexible = S.cv_const(c, "__flexible__")
        tags = []
        cls_obj = None
        for f in c["fields"]:
            md = f.get("metadata")
            construct = f"{key}.{f['name']}"
            where = loc(S, c, f)
            base, arr, outer, inner = S.base_of(f["type"])
            rep.check(R_S, "bad" not in base, construct=construct, stmt=field_stmt(f),
                      message=f"annotation {f['ann_src']!r} is not of the supported shapes", **where)
            if "bad" in base:
                continue
            is_entity = S.is_entity_ref(base)
            kt = (md or {}).get("kafka_type")
            tagged = md is not None and "tag" in md
            if md is not None and not all(isinstance(k, str) for k in md):
                rep.check(R_K, False, construct=construct, stmt=field_stmt(f), message=f"metadata is not a literal dict of strings: {md}", **where)
                continue
            if is_entity:
                rep.check(R_K, kt is None, construct=construct, stmt=field_stmt(f),
                          message=f"entity field carries kafka_type {kt!r}", **where)
            else:
                ok = isinstance(kt, str) and kt in KAFKA_TYPES
                rep.check(R_K, ok, construct=construct, stmt=field_stmt(f),
                          message=f"kafka_type {kt!r} is missing or not a known Kafka primitive", **where)
                if ok:
                    want = SPEC_PYTYPE[kt]
                    got = base["n"]
                    through = S.custom_types.get(got, got)
                    rep.check(R_A, through == want, construct=construct, stmt=field_stmt(f),
                              message=f"declared type {got} (base {through}) but kafka type {kt!r} is carried by {want}", **where)
                    problems = []
                    elem_opt = inner if arr else outer
                    if kt == "uuid" and not elem_opt:
                        problems.append("uuid fields are modelled optional (all-zero UUID <-> None) but this one is not")
                    if elem_opt and kt not in NULLABLE_KAFKA:
                        problems.append(f"{kt} has no wire-level null but the field is optional" + (
                            " (a tagged field that is absent takes the type's default, 0 -- None is not a value the encoding can carry)" if tagged else ""))
                    if arr and inner and kt != "uuid":
                        problems.append("array items are optional")
                    rep.check(R_N, not problems, construct=construct, stmt=field_stmt(f), message="; ".join(problems), **where)
            if tagged:
                tags.append((md["tag"], f))
                if outer and f.get("default") != {"c": None}:
                    rep.check(R_N, False, construct=construct, stmt=field_stmt(f),
                              message="tagged optional field must have None as explicit default", instance=construct + "|tagdefault", **where)
            # defaults
            if f.get("default") is not None or f.get("default_factory"):
                try:
                    cls_obj = cls_obj or I.entity_class(key)
                    fv = next(x for x in I.fields_of(cls_obj) if x.name == f["name"])
                    v = I.field_default(fv)
                    ok = v is not MISSING and inhabits(I, v, fv.type)
                    msg = f"default {f.get('default_src')} = {v!r} is not a member of {f['ann_src']}"
                except Raised as r:
                    ok, msg = False, f"evaluating the default {f.get('default_src')} raises {r.exc!r}"
                except Limit as e:
                    raise AnalysisError(f"default of {construct} not understood: {e}")
                rep.check(R_D, ok, construct=construct, stmt=field_stmt(f), message=msg, **where)
        tv = [t for t, _ in tags]
        problems = []
        if any(not isinstance(t, int) or isinstance(t, bool) or t < 0 for t in tv):
            problems.append(f"tags must be non-negative ints: {tv}")
        if len(set(map(repr, tv))) != len(tv):
            problems.append(f"duplicate tags: {tv}")
        if tv and flexible is not True:
            problems.append("tagged fields in a non-flexible class")
        rep.check(R_T, not problems, construct=key, stmt=f"tags {tv}", message="; ".join(problems), **loc(S, c))
        plan = bundle["classes"].get(key)
        err = None if plan is None else plan.get("error")
        if err and err.get("side") == "analysis":
            raise AnalysisError(f"plan of {key} not understood: {err.get('msg')}")
        rep.check(R_P, plan is not None and not err, construct=key, stmt=str(err),
                  message=f"plan building fails: {err}" if err else "no plan", **loc(S, c))
    from .wire import spec_tagged_default_term
    R_TD = rep.rule("C13-tagged-default", "the default resolved for a tagged field is the one its description implies (explicit default, "
                    "zero value, nested members' declared defaults)", floor=50)
    for key in sorted(S.classes):
        c = S.classes[key]
        plan = bundle["classes"].get(key) or {}
        for f in c["fields"]:
            if "tag" not in (f.get("metadata") or {}):
                continue
            want = spec_tagged_default_term(ctx, key, f["name"])
            rec = next((t for t in (plan.get("tagged") or {}).values() if t.get("name") == f["name"]), None)
            if want is None or rec is None or not isinstance(rec.get("r_default"), dict) or "term" not in rec["r_default"]:
                continue
            rep.check(R_TD, rec["r_default"]["term"] == want, construct=f"{key}.{f['name']}", stmt=f"resolved default {rec['r_default']['term']}",
                      message=f"the serializer resolves the tagged default to {rec['r_default']['term']} but the description implies {want}",
                      **loc(S, c, f))
    rep.sample({"rule": "C13-default", "field": "kio.schema.fetch.v15.request:FetchRequest.replica_state",
                "default": "ReplicaState()", "declared": "ReplicaState"})
    rep.extra.update(classes=len(S.classes), fields=sum(len(c["fields"]) for c in S.classes.values()),
                     derivations=2 * len(S.classes))
    rep.trusted_base += ["kverif E2 model of dataclasses.fields/typing.get_origin/get_args/is_dataclass",
                         "kverif/grammar.py SPEC_PYTYPE: kafka type -> python type table (protocol guide + kio's documented modelling)"]
