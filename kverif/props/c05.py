"""C05 -- decoding is lossless: re-encoding reproduces the original bytes."""
from __future__ import annotations

from .. import timeflow
from ..grammar import cmp_rw, max_len_accepted, length_capacity
from .wire import Wire, fdesc, TIME_TYPES

PID = "C05"
LEVEL = "other"
TECHNIQUE = ("time-exactness/granularity dataflow (E6) on both directions of every time codec; sentinel-bijection, "
             "text-codec and format-closure comparison of the derived reader and writer grammars")


def check(rep, ctx):
    W = Wire(ctx)
    S = W.S
    rep.explanation = (
        "(i) On both directions of every time codec: no coarsening beyond 1 ms on decode, no float on a 64-bit duration, "
        "no truncation of an inexact float on encode -- each necessary because the wire domain contains a value "
        "(non-zero milliseconds; >= 2**53+1 ms; x.001 s) the broken path cannot reproduce. (ii) For every nullable form "
        "the reader's null sentinel and the writer's are the same single wire value and the reader maps no other wire "
        "value to None. (iii) Text: reader decode and writer encode name the same codec and error mode. (iv) Closure of "
        "types: the format a reader returns for a field is the one the sibling writer accepts. Not decided: bit-exactness "
        "of struct on NaN payloads / -0.0 and UTF-8 canonical-form arguments (library).")
    R_T = rep.rule("C05-i-time", "time codecs are exact in both directions (T-gran, T-float64, T-trunc)", floor=380)
    R_N = rep.rule("C05-ii-sentinel", "reader and writer use the same single null sentinel", floor=450)
    R_X = rep.rule("C05-iii-text", "reader and writer agree on the text codec and error mode", floor=1000)
    R_C = rep.rule("C05-iv-closure", "the reader's result format is the sibling writer's input format", floor=5000)
    R_NA = rep.rule("C05-ii-null-array", "an array reader maps the null marker to None (or rejects it); it never falls through to an empty array",
                    floor=1000)
    R_TD = rep.rule("C05-viii-time-writer-domain", "the duration writers accept every timedelta their sibling readers can return (analysed on a plain "
                   "datetime.timedelta, guards evaluated at the extremes)", floor=2)
    from .wire import time_writer_domain_rows
    for ok_, c_, stmt_, msg_, file_, line_ in time_writer_domain_rows(ctx):
        if ok_ is None:
            rep.limit(f"{c_}: {msg_}")
            continue
        rep.check(R_TD, ok_, construct=c_, stmt=stmt_, message=msg_, file=file_, line=line_)
    R_V = rep.rule("C05-v-length-domain", "a length-limited writer accepts every length its prefix format can carry (what the "
                   "reader can return, the writer can write)", floor=300,
                   necessary_because="a legacy string of exactly 32767 bytes is decoded but cannot be re-encoded")
    R_D = rep.rule("C05-vi-tagged-default", "a tagged field is omitted only when it equals the default the definition gives it (a canonical "
                   "encoding that carries any other value must be written back)", floor=50,
                   necessary_because="UpdateRaftVoterResponse with current_leader=(0, 0, '', 0) is canonical with the tag present; a writer that "
                                     "takes (0, 0, '', 0) for the default re-encodes 23 bytes as 7")
    R_L = rep.rule("C05-vii-call-local", "encoding uses only state created in the call: no buffer is allocated while the cached writer closures "
                   "are built", floor=0,
                   necessary_because="bytes left in a shared scratch buffer by a rejected encode are appended to the next encode of the class: "
                                     "decode(b) re-encodes to something else than b")
    from .streams import site_loc as _site_loc, stmt_at as _stmt_at
    for side, cls_, site in W.bundle["factory"]["allocs"]:
        where, fn_ = _site_loc(ctx, site)
        rep.check(R_L, False, construct=fn_, stmt=_stmt_at(ctx, site),
                  message=f"a scratch buffer is allocated while the cached {side} plan of {cls_} is built and shared by every later call", **where)
    rep.count(R_L, 1, instance="factory-log")
    from .wire import writer_elision_constants
    for key, cls, plan in W.classes():
        if not plan["error"] and plan["writer"].get("flexible"):
            for f, consts, want in writer_elision_constants(W, key, cls, plan):
                rep.check(R_D, consts == [want], construct=f"{key}.{f['name']}", stmt=f"elided when equal to {consts}",
                          message=f"the writer omits the field when it equals {consts} but the definition's default is {want}", **W.floc(cls, f))
    for key, cls, plan in W.classes():
        if plan["error"]:
            rep.check(R_C, False, construct=key, stmt=str(plan["error"]), message=f"no plan: {plan['error']}", **W.floc(cls, cls))
            continue
        for item in W.fields(key, cls, plan):
            f, pf = item["f"], item["pf"]
            construct = f"{key}.{f['name']}"
            if pf is None or pf.get("r") is None or pf.get("w") is None:
                rep.check(R_C, False, construct=construct, stmt=fdesc(cls, f), message="field missing from a plan", **W.floc(cls, f))
                continue
            r, w = W.nr(pf["r"]), W.nw(pf["w"])
            diffs = cmp_rw(r, w, f["name"])
            rep.check(R_C, not [d for d in diffs if "null" not in d and "payload" not in d], construct=construct,
                      stmt=f"{pf['r_codec']['fn']} / {pf['w_codec']['fn']}",
                      message="; ".join(d for d in diffs if "null" not in d and "payload" not in d), **W.codec_loc(pf.get("r_codec")))
            # a null array is read as None (and written back as null): a reader without a null arm must at least reject the marker
            rraw = pf["r"]
            if rraw.get("k") == "array":
                from ..grammar import eval_int_term
                wire_null = -1 if (rraw.get("prefix") or {}).get("k") == "fixed" else 0
                rejects = any((lambda v: v is not None and bool(v) != bool(g.get("holds")))(eval_int_term(g.get("cond"), wire_null))
                              for g in rraw.get("range_guards") or [])
                rep.check(R_NA, rraw.get("null") is not None or rejects, construct=construct, stmt=f"array reader null arm: {rraw.get('null')}",
                          message="the array reader has no arm for the null marker and does not reject it: a null array (length -1 / compact 0) "
                                  "runs the item loop zero times and comes back as an empty array, which is written back as length 0 -- "
                                  "`null` (e.g. 'cancel the reassignment', 'all configuration keys') silently becomes `empty`",
                          **W.codec_loc(pf.get("r_codec")))
            # length domain of fixed-width length prefixes, through arrays
            wd = pf["w"]
            while wd is not None:
                if wd.get("k") in ("lenpref", "array") and (wd.get("prefix") or {}).get("k") == "fixed":
                    cap = length_capacity(wd["prefix"], wd.get("bias", 0))
                    mx = max_len_accepted(wd.get("guards"))
                    rep.check(R_V, mx is None or cap is None or mx >= cap, construct=wd.get("_codec", construct),
                              stmt=f"length guard accepts up to {mx}; {wd['prefix']['fmt']} carries {cap}",
                              message=f"the writer rejects lengths above {mx} although the {wd['prefix']['fmt']} length prefix carries up to {cap}: "
                                      f"a value of length {cap} is accepted by the reader but cannot be written back",
                              instance=construct, **W.codec_loc({"fn": wd.get("_codec", ":"), "line": wd.get("_line", 0)}))
                if wd.get("k") == "lenpref" and (wd.get("prefix") or {}).get("k") == "varint":
                    # compact forms: a string may be up to 32767 bytes (the limit Kafka applies to both string forms), bytes / records
                    # up to what the unsigned varint of length + 1 carries
                    text = str(wd.get("payload", "")).startswith("text") or (isinstance(wd.get("payload"), dict) and wd["payload"].get("k") == "text")
                    cap = 32767 if text else (1 << 31) - 2
                    mx = max_len_accepted(wd.get("guards"))
                    rep.check(R_V, mx is None or mx >= cap, construct=wd.get("_codec", construct),
                              stmt=f"length guard accepts up to {mx}; a compact {'string' if text else 'bytes/records'} field carries {cap}",
                              message=f"the writer rejects lengths above {mx} although a compact {'string' if text else 'bytes/records'} value may be "
                                      f"{cap} bytes long: a {'32 KiB record batch' if not text else 'long string'} the reader returns cannot be written",
                              instance=construct + "|compact", **W.codec_loc({"fn": wd.get("_codec", ":"), "line": wd.get("_line", 0)}))
                wd = wd.get("item") or wd.get("inner")
            # sentinel / text, through arrays
            rr, ww = r, w
            where = f["name"]
            while True:
                if rr.get("k") != ww.get("k"):
                    break
                if ww.get("null") is not None or rr.get("null") is not None:
                    if ww.get("null") is not None:
                        rep.check(R_N, rr.get("null") == ww.get("null"), construct=construct, stmt=f"{where}: reader null {rr.get('null')} writer null {ww.get('null')}",
                                  message=f"{where}: writer encodes null as {ww.get('null')}, reader recognises {rr.get('null')}",
                                  instance=f"{construct}|{where}", **W.codec_loc(pf.get("r_codec")))
                if rr.get("k") == "lenpref" and str(rr.get("payload", "")).startswith("text"):
                    rep.check(R_X, rr["payload"] == ww["payload"], construct=construct, stmt=f"{where}: reader {rr['payload']} writer {ww['payload']}",
                              message=f"{where}: reader decodes {rr['payload']}, writer encodes {ww['payload']}",
                              instance=f"{construct}|{where}", **W.codec_loc(pf.get("r_codec")))
                if rr.get("k") == "array":
                    rr, ww, where = rr["item"], ww["item"], where + "[]"
                    continue
                break
            kt = (f.get("metadata") or {}).get("kafka_type")
            if kt in TIME_TYPES:
                kind, bits = TIME_TYPES[kt]
                for side, d0 in (("read", pf["r"]), ("write", pf["w"])):
                    d = d0
                    while d.get("k") == "array":
                        d = d["item"]
                    if d.get("k") != "scalar":
                        continue
                    fn = d.get("_codec", "?")
                    q, issues = (timeflow.read_side if side == "read" else timeflow.write_side)(d["conv"], bits, kind)
                    issues = [i for i in issues if i[0] in ("T-gran", "T-float64", "T-trunc", "T-epoch")]
                    if q is None:
                        rep.limit(f"{fn}: time conversion not understood: {timeflow.show(d['conv'])[:160]}")
                    elif issues:
                        for rule, msg, op in issues:
                            rep.check(R_T, False, construct=fn, stmt=timeflow.show(d["conv"]), message=f"{rule}: {msg}",
                                      instance=f"{construct}|{side}", **W.codec_loc({"fn": fn, "line": d.get("_line", 0)}))
                    else:
                        rep.check(R_T, True, construct=fn, stmt=timeflow.show(d["conv"]), instance=f"{construct}|{side}")
    rep.sample({"rule": "C05-i-time", "example": "read_datetime_i64: int64 ms -> / 1000 -> fromtimestamp(float) -> replace(microsecond=0)"})
    R_VD = rep.rule("C05-ix-reader-domain", "a scalar reader raises for no value its format carries and its Python type represents (guards of the "
                    "returning paths evaluated at boundary values, infinities and NaNs, the extremes of timedelta and datetime)", floor=15,
                    necessary_because="a reader that passes its result through a narrower validating type (f64 = finite floats, i64Timedelta = "
                                      "all but the last day) rejects canonical encodings of +Infinity, NaN, or a 64-bit duration near the maximum")
    from .wire import scalar_reader_domain_rows
    for ok_, c_, stmt_, msg_, line_ in scalar_reader_domain_rows(W.bundle["primitives"]):
        if ok_ is None:
            rep.limit(f"{c_}: {msg_}")
            continue
        rep.check(R_VD, ok_, construct=c_, stmt=stmt_, message=msg_, file="src/kio/serial/readers.py", line=line_)
    W.finish(rep)
    rep.extra.update(classes=len(S.classes))
    rep.trusted_base += ["IEEE-754 binary64 spacing argument for T-float64/T-trunc", "datetime/timedelta constructor semantics as modelled in kverif/timeflow.py"]
