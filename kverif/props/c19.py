"""C19 -- readers and writers are stateless."""
from __future__ import annotations

from .. import scan
from .streams import SERIAL_MODULES, site_loc, stmt_at, exc_class

PID = "C19"
LEVEL = "other"
TECHNIQUE = ("shared-state analysis (E4): module-level mutable bindings, global/nonlocal, stores through non-local names, "
             "mutation effects on pre-existing objects in every reader/writer/factory path, allocation scope of scratch "
             "buffers, handler scan for swallowed stream exceptions")


def check(rep, ctx):
    rep.explanation = (
        "The only process-wide state reachable from kio.serial is the functools.cache tables of the two factories and "
        "immutable module constants. Decided: no mutable module-level binding, no global/nonlocal, no store through a "
        "non-local name, no dynamic feature in kio.serial / kio._utils / kio.static; while a plan is built the factories "
        "mutate nothing that existed before the call (a duplicate build under a race yields an equal plan) and allocate "
        "no stream; on every explored reader and writer path no object that outlives the call is mutated (captured plans "
        "are only read) and every scratch buffer is allocated inside the call; no handler swallows an exception of the "
        "stream and continues. Not decided: the GIL / functools.cache implementation, the stream's own thread-safety.")
    R_M = rep.rule("C19-module-state", "no mutable module-level state, global/nonlocal, dynamic feature or store through "
                   "a non-local name in the serial packages", floor=1)
    R_C = rep.rule("C19-captured", "no reader/writer path mutates an object that outlives the call", floor=1)
    R_F = rep.rule("C19-factory", "plan building mutates nothing pre-existing and allocates no stream", floor=1)
    R_S = rep.rule("C19-scratch", "every scratch buffer is allocated inside the call that uses it", floor=1)
    R_H = rep.rule("C19-no-swallow", "no handler catches Exception/BaseException/OSError without re-raising", floor=5)
    R_K = rep.rule("C19-cache", "the cached factories are exactly the functools.cache-decorated entity_reader/entity_writer", floor=2)
    st = scan.module_state(ctx, SERIAL_MODULES + ["kio.records.writers", "kio.records.readers", "kio.records.schema", "kio.index"])
    for s in st:
        if s["kind"] == "module-container-readonly":
            rep.note(f"{s['module']}: module-level container {s['name']} is never mutated anywhere in kio (a constant table)")
            continue
        if s["kind"] == "nonlocal-store" and s["module"].startswith("kio.static") and s["function"].endswith("__init_subclass__"):
            continue
        rep.check(R_M, False, construct=f"{s['module']}:{s['function']}", stmt=s["stmt"],
                  message=f"{s['kind']}: {s['name']} {s['what']}", file=s["file"], line=s["line"])
    rep.count(R_M, len(SERIAL_MODULES), instance="modules-scanned")
    # the syntactic scan above needs no interpretation: its findings stand even when the interpreter meets a shape it
    # does not follow below (run_property reports findings made before an analysis limit)
    b = ctx.bundle
    eng = b["engine"]
    I = ctx.interp
    n_paths = 0
    for d, kind, skind, site, detail, n in eng["effects"]:
        if kind == "mutate":
            where, fn = site_loc(ctx, site)
            rep.check(R_C, "pre-existing" not in detail, construct=fn, stmt=stmt_at(ctx, site),
                      message=f"a {'reader' if d == 'r' else 'writer'} path mutates a {skind} that outlives the call ({detail}): "
                              f"shared by every later and every concurrent call", instance=f"{site}|{detail}", **where)
        if kind == "alloc":
            where, fn = site_loc(ctx, site)
            rep.check(R_S, True, construct=fn, stmt=stmt_at(ctx, site), **where)
    rep.count(R_C, 1, instance="effects-scanned")
    for side, cls, site, what in b["factory"]["mutations"]:
        where, fn = site_loc(ctx, site)
        rep.check(R_F, False, construct=fn, stmt=stmt_at(ctx, site),
                  message=f"building the {side} plan of {cls} mutates an object that existed before the call ({what})", **where)
    for side, cls, site in b["factory"]["allocs"]:
        where, fn = site_loc(ctx, site)
        rep.check(R_S, False, construct=fn, stmt=stmt_at(ctx, site),
                  message=f"a stream is allocated while the cached {side} plan of {cls} is built: shared scratch state", **where)
    rep.count(R_F, len(b["classes"]) * 2, instance="factory-runs")
    broad = [exc_class(ctx, n) for n in ("Exception", "OSError")]
    for h in scan.handlers(ctx, SERIAL_MODULES):
        c = any(scan.catches(I, h, x) for x in broad)
        rep.check(R_H, not (c and not h["reraises_same"]), construct=f"{h['module']}:{h['function']}", stmt=h["stmt"],
                  message=f"handler `except {h['type_src']}` catches exceptions raised by the stream and does not re-raise them",
                  file=h["file"], line=h["line"])
    # caches
    import ast
    for mod, name in (("kio.serial._parse", "entity_reader"), ("kio.serial._serialize", "entity_writer")):
        src = ctx.sm.require(mod)
        fns = [n for n in src.tree.body if isinstance(n, ast.FunctionDef) and n.name == name and
               not any(ast.unparse(d) == "overload" for d in n.decorator_list)]
        m = I.module(mod)
        f = m.env.vars.get(name)
        ok = bool(fns) and f is not None and getattr(f, "uid", None) in I.cached_functions
        rep.check(R_K, ok, construct=f"{mod}:{name}", stmt="@cache def " + name,
                  message=f"{name} is not decorated with functools.cache (resolved through kio._utils): every call would rebuild "
                          f"the plan, or a hand-rolled cache is in use", file=src.rel, line=fns[0].lineno if fns else 1)
    if ctx.tier == "thorough":
        from ..core import AnalysisError
        from ..faults import explore_faults
        R_X = rep.rule("C19-fault-paths", "thorough: with an I/O error injected at every read and write of every codec root, the "
                       "error propagates unchanged and nothing that outlives the call has been mutated before it", floor=4000)
        for direction in ("r", "w"):
            out, st = explore_faults(ctx, "io", direction)
            for codec, problems, limit in out:
                if limit:
                    raise AnalysisError(f"{getattr(codec, 'ref', codec)}: {problems[0]}")
                rep.check(R_X, False, construct=getattr(codec, "ref", str(codec)), stmt="; ".join(problems)[:200], message="; ".join(problems),
                          file=ctx.sm.require(codec.module).rel if ctx.sm.get(codec.module) else "", line=codec.node.lineno)
            rep.count(R_X, st["fault_paths"], instance=f"fault-paths-{direction}")
            rep.extra[f"fault_injection_{direction}"] = st
    R_CS = rep.rule("C19-closure-state", "no function mutates a container created in its enclosing function (state that lives as long as the "
                    "closure -- for a decorator or a cached factory, as long as the process -- and is shared by all calls and threads)", floor=0,
                    necessary_because="a 'pending' set kept by a caching decorator makes a concurrent cold-cache build raise RecursionError")
    ALL_MODULES = [m.name for m in ctx.sm.by_prefix("kio") if not m.name.startswith("kio.schema.")]
    for m in scan.captured_mutations(ctx, ALL_MODULES):
        rep.check(R_CS, False, construct=m["function"], stmt=m["stmt"],
                  message=f"`{m['stmt']}` mutates {m['name']!r} ({m['how']}), created at line {m['created_line']} of the enclosing {m['outer']}: "
                          f"the result of a call depends on what earlier or concurrent calls left in it", file=m["file"], line=m["line"])
    rep.count(R_CS, len(ALL_MODULES), instance="scan")
    R_MK = rep.rule("C19-memo-keys", "memoised functions are keyed only by values whose equality implies identical behaviour "
                    "(type objects, bools, literals)", floor=2,
                    necessary_because="functools caches are keyed by == and hash: 1 == 1.0 == True, and datetimes differing only in fold "
                                      "compare equal -- the second caller gets the first caller's result")
    for m in scan.memoised_functions(ctx, SERIAL_MODULES + ["kio.records.readers", "kio.records.writers", "kio.index"]):
        rep.check(R_MK, not m["bad_params"], construct=f"{m['module']}:{m['function']}", stmt=m["stmt"],
                  message=f"memoised on parameters {m['bad_params']}: equal-but-different arguments (1/1.0/True, datetimes differing in fold, "
                          f"equal instances of different classes) share one cached result, so the outcome depends on call history",
                  file=m["file"], line=m["line"])
    rep.sample({"rule": "C19-captured", "mutations_seen": [e for e in eng["effects"] if e[1] == "mutate"][:5]})
    rep.extra.update(modules=SERIAL_MODULES)
    rep.trusted_base += ["functools.cache does not memoise exceptions and stores a result only after the call returns"]
