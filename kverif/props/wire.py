"""Shared iteration over (class, field) x (spec grammar, reader grammar, writer grammar)."""
from __future__ import annotations

import json

from ..core import AnalysisError
from ..grammar import neutral_r, neutral_w, spec_field
from ..ssm import show_type
from .common import loc

TIME_TYPES = {"timedelta_i32": ("duration", 32), "timedelta_i64": ("duration", 64), "datetime_i64": ("timestamp", 64)}


class Wire:
    def __init__(self, ctx):
        self.ctx = ctx
        self.S = ctx.schema
        self.bundle = ctx.bundle
        self._n = {}
        self.limits: list[str] = []

    def finish(self, rep):
        """Analysis limits met on the way: a verdict 'pass' is not available, but concrete findings stand."""
        if self.limits:
            if rep.findings:
                rep.note(f"{len(self.limits)} codec(s) not understood (listed first: {self.limits[0]}); violations found elsewhere are reported")
            else:
                raise AnalysisError(self.limits[0] + (f" (+{len(self.limits) - 1} more)" if len(self.limits) > 1 else ""))

    def plan(self, key):
        p = self.bundle["classes"].get(key)
        if p is None:
            raise AnalysisError(f"no plan computed for class {key}")
        return p

    def nr(self, d):
        k = ("r", json.dumps(d, sort_keys=True, default=str))
        if k not in self._n:
            self._n[k] = self.understood(neutral_r(d), d)
        return self._n[k]

    def nw(self, d):
        k = ("w", json.dumps(d, sort_keys=True, default=str))
        if k not in self._n:
            self._n[k] = self.understood(neutral_w(d), d)
        return self._n[k]

    def understood(self, n, d):
        """A codec the analyser could not summarise is an analysis limit (exit 2), never a verdict."""
        x = n
        while isinstance(x, dict):
            if x.get("k") == "opaque":
                who = (d or {}).get("_codec", "?")
                msg = f"codec {who} not understood: {x.get('reason')}"
                if msg not in self.limits:
                    self.limits.append(msg)
                return n
            x = x.get("item") or x.get("inner")
        return n

    def classes(self):
        for key in sorted(self.S.classes):
            p = self.plan(key)
            err = p.get("error")
            if err and err.get("side") == "analysis":
                msg = f"plan of {key} not understood: {err.get('msg')}"
                if msg not in self.limits:
                    self.limits.append(msg)
                continue
            yield key, self.S.classes[key], p

    def is_client_id(self, cls, f):
        m = self.S.modules[cls["module"]]
        return m["api"] == "request_header" and f["name"] == "client_id"

    def fields(self, key, cls, plan):
        """Yield dict(kind='regular'|'tagged', f=ssm field, pf=plan record, spec=spec grammar)."""
        by_name = {pf["name"]: pf for pf in plan["fields"]}
        tagged_by_name = {}
        for t in plan["tagged"].values():
            for nm in (t.get("name"), t.get("w_name")):
                if nm:
                    tagged_by_name.setdefault(nm, t)
        for f in cls["fields"]:
            md = f.get("metadata") or {}
            if "tag" in md:
                yield {"kind": "tagged", "f": f, "pf": tagged_by_name.get(f["name"]),
                       "spec": spec_field(self.S, cls, f, flexible_override=True)}
            else:
                yield {"kind": "regular", "f": f, "pf": by_name.get(f["name"]),
                       "spec": spec_field(self.S, cls, f, is_request_header_client_id=self.is_client_id(cls, f))}

    def floc(self, cls, f):
        return loc(self.S, cls, f)

    def codec_loc(self, codec):
        """file:line of a codec function reference {'fn': 'mod:qual', 'line': n}."""
        if not codec:
            return {}
        mod = codec["fn"].split(":")[0]
        src = self.ctx.sm.get(mod)
        return {"file": src.rel if src else mod, "line": codec.get("line", 0)}


def fdesc(cls, f):
    md = f.get("metadata") or {}
    return f"{cls['key']}.{f['name']}: {show_type(f['type'])} {md}"


def spec_tagged_default_term(ctx, cls_key: str, field_name: str):
    """JSON term of the value an absent tagged field stands for according to the message-definition
    semantics: its explicit default if it has one; otherwise the zero value of a primitive, and for a
    struct an instance whose members take *their* declared defaults (or zero values).  Computed here
    from the schema model -- independently of kio's get_tagged_field_default.  None = not covered."""
    from ..interp_base import Raised, Limit
    from ..plans import jsonable
    from ..values import ClassV, LibClass, InstV, MISSING, UnionV, GenericV, term_of
    I = ctx.interp

    def zero(t):
        if isinstance(t, UnionV) or isinstance(t, GenericV):
            return None
        if isinstance(t, ClassV) and (t.entity is not None):
            attrs = {}
            for f in I.fields_of(t):
                d = I.field_default(f)
                if d is MISSING:
                    d = zero(f.type)
                    if d is None:
                        return None
                    d = d[0]
                attrs[f.name] = d
            return (InstV(t, attrs, frozen=True),)
        if isinstance(t, ClassV):
            for c in t.mro:
                if isinstance(c, LibClass) and c.name in ("int", "float", "str", "bytes"):
                    return ({"int": 0, "float": 0.0, "str": "", "bytes": b""}[c.name],)
            return None
        if isinstance(t, LibClass) and t.name in ("int", "float", "str", "bytes", "bool"):
            return ({"int": 0, "float": 0.0, "str": "", "bytes": b"", "bool": False}[t.name],)
        return None
    try:
        cls = I.entity_class(cls_key)
        f = next(x for x in I.fields_of(cls) if x.name == field_name)
        d = I.field_default(f)
        if d is MISSING:
            z = zero(f.type)
            if z is None:
                return None
            d = z[0]
        return jsonable(term_of(d))
    except (Raised, Limit, StopIteration):
        return None


def writer_elision_constants(W, key, cls, plan):
    """Per tagged field: (field, constants the writer elides against, the definition's default term)."""
    wr = plan["writer"]
    for item in W.fields(key, cls, plan):
        if item["kind"] != "tagged":
            continue
        f = item["f"]
        want = spec_tagged_default_term(W.ctx, key, f["name"])
        if want is None:
            continue
        consts = []
        for tp in wr["tagged_paths"]:
            for term, pol in tp["elided"]:
                if term[0] == "eq" and isinstance(term[1], list) and term[1][0] == "attr" and term[1][2] == f["name"] and term[2] not in consts:
                    consts.append(term[2])
        yield f, consts, want


def length_domain_rows(W, pf, construct):
    """Per length-prefixed layer of a field's writer: (ok, construct, stmt, message, loc) -- the writer accepts every length the
    format carries (fixed prefix: its capacity; compact string: 32767; compact bytes/records: what uvarint(length + 1) carries)."""
    from ..grammar import max_len_accepted, length_capacity
    wd = pf["w"]
    while wd is not None:
        k, prefix = wd.get("k"), (wd.get("prefix") or {})
        if k in ("lenpref", "array") and prefix.get("k") == "fixed":
            cap, mx, what = length_capacity(prefix, wd.get("bias", 0)), max_len_accepted(wd.get("guards")), f"the {prefix.get('fmt')} length prefix"
        elif k == "lenpref" and prefix.get("k") == "varint":
            text = str(wd.get("payload", "")).startswith("text") or (isinstance(wd.get("payload"), dict) and wd["payload"].get("k") == "text")
            cap, mx, what = (32767 if text else (1 << 31) - 2), max_len_accepted(wd.get("guards")), f"a compact {'string' if text else 'bytes/records'} field"
        else:
            cap = mx = what = None
        if what is not None:
            yield (mx is None or cap is None or mx >= cap, wd.get("_codec", construct), f"length guard accepts up to {mx}; {what} carries {cap}",
                   f"the writer rejects lengths above {mx} although {what} carries up to {cap}: a well-typed value of that length cannot be encoded",
                   W.codec_loc({"fn": wd.get("_codec", ":"), "line": wd.get("_line", 0)}))
        if k == "lenpref" and (str(wd.get("payload", "")).startswith("text") or (isinstance(wd.get("payload"), dict) and wd["payload"].get("k") == "text")):
            # the prefix counts encoded bytes: a limit must be applied to the encoded length, not to the number of characters
            def chars(t):
                if isinstance(t, (list, tuple)):
                    if len(t) == 2 and t[0] == "len" and list(t[1]) == ["X"]:
                        return True
                    return any(chars(x) for x in t)
                return False
            bad = [g for g in wd.get("guards") or [] if chars(g.get("cond"))]
            yield (not bad, wd.get("_codec", construct), "length guard of a string writer measures the encoded bytes",
                   f"the writer limits len(value) -- characters -- ({[g.get('cond') for g in bad][:1]}) while the prefix and the reader count "
                   f"encoded bytes: 20000 x 'é' passes the writer's check and is 40000 bytes on the wire",
                   W.codec_loc({"fn": wd.get("_codec", ":"), "line": wd.get("_line", 0)}))
        wd = wd.get("item") or wd.get("inner")
    # reader side: what the writer may emit, the reader does not reject on account of its length
    from ..grammar import eval_int_term
    rd = pf.get("r")
    while rd is not None:
        k, prefix = rd.get("k"), (rd.get("prefix") or {})
        if k == "lenpref" and not rd.get("range_guards"):
            yield (True, rd.get("_codec", construct), "reader length guards admit every length (no range guard)", "",
                   W.codec_loc({"fn": rd.get("_codec", ":"), "line": rd.get("_line", 0)}))
        if k == "lenpref" and rd.get("range_guards"):
            payload = rd.get("payload")
            text = str(payload).startswith("text") or (isinstance(payload, dict) and payload.get("k") == "text")
            bias = rd.get("bias", 0)
            cap = 32767 if text else ((1 << 31) - 2 if prefix.get("k") == "varint" else length_capacity(prefix, bias))
            if cap is not None:
                bad = []
                for g in rd["range_guards"]:
                    for ln in (0, 1, 32767, 32768, cap):
                        if ln > cap:
                            continue
                        r_ = eval_int_term(g.get("cond"), ln + bias)
                        if r_ is not None and bool(r_) != bool(g.get("holds")):
                            bad.append((ln, g))
                            break
                yield (not bad, rd.get("_codec", construct), f"reader length guards admit 0..{cap}",
                       "; ".join(f"the reader raises {'/'.join(g.get('else') or ['?'])} for a {'string' if text else 'bytes/records'} value of {ln} bytes, "
                                 f"which the writer emits: the message (and what follows it on the stream) is lost" for ln, g in bad),
                       W.codec_loc({"fn": rd.get("_codec", ":"), "line": rd.get("_line", 0)}))
        rd = rd.get("item") or rd.get("inner")


def time_writer_domain_rows(ctx):
    """The duration writers analysed on a plain datetime.timedelta (what the sibling reader returns, not the narrower annotated type):
    every explicit guard must admit every value the reader can produce.  Rows: (ok, construct, stmt, message, file, line)."""
    import datetime as _dt
    from ..grammar import eval_int_term
    from ..interp_base import Raised, Limit
    from ..core import AnalysisError
    from ..values import LibClass, FuncV
    I, P = ctx.interp, ctx.plans
    wm = I.module("kio.serial.writers")
    td = LibClass.get("datetime.timedelta")
    ms = lambda n: _dt.timedelta(milliseconds=n)
    points = {"write_timedelta_i32": [ms(-(2 ** 31)), ms(-1), ms(0), ms(1), ms(2 ** 31 - 1)],
              "write_timedelta_i64": [_dt.timedelta.min, _dt.timedelta.min + _dt.timedelta(days=1), ms(-1), ms(0), ms(2 ** 53 + 1),
                                      _dt.timedelta.max - _dt.timedelta(days=1), _dt.timedelta.max - _dt.timedelta(microseconds=_dt.timedelta.max.microseconds % 1000 + 999000)]}
    rows = []
    for name, pts in points.items():
        f = wm.env.vars.get(name)
        if not isinstance(f, FuncV):
            raise AnalysisError(f"anchor vanished: kio.serial.writers.{name}")
        try:
            d = P.D.writer_desc(f, td)
        except (Raised, Limit) as e:
            raise AnalysisError(f"{name} not understood on a plain timedelta: {e}")
        if d.get("k") != "scalar":
            rows.append((None, f"kio.serial.writers:{name}", "", d.get("reason", "not a scalar writer"), "src/kio/serial/writers.py", f.node.lineno))
            continue
        bad = []
        for g in d.get("guards") or []:
            for v in pts:
                r = eval_int_term(g["cond"], v)
                if r is not None and bool(r) != bool(g["holds"]):
                    bad.append((v, g))
                    break
        rows.append((not bad, f"kio.serial.writers:{name}", f"{name}: {len(d.get('guards') or [])} guard(s) on the value",
                     "; ".join(f"the writer raises {'/'.join(g.get('else') or ['?'])} for {v!r}, a duration the sibling reader returns (the reader "
                               f"builds timedelta(milliseconds=n) for every n that fits a timedelta): decode-then-encode fails for it" for v, g in bad),
                     "src/kio/serial/writers.py", f.node.lineno))
    return rows


def scalar_reader_domain_rows(prims):
    """Every scalar reader accepts every value of its wire format that is representable in the type it converts to: at boundary points
    of the format (and, for floats, the infinities and NaNs; for 64-bit readers the extremes of datetime.timedelta and datetime), some
    returning path's conditions hold -- unless the conversion itself is impossible there (the standard library raises OverflowError).
    Rows: (ok | None, construct, stmt, message, line); None = not decidable here (an analysis limit, never a violation)."""
    import struct as _struct
    from ..grammar import eval_value_term, UNKNOWN, TermRaised, domain_points
    DT_MAX_MS = 253402300799999
    TD_MAX_MS, TD_MIN_MS = 86399999999999999, -86399999913600000
    rows = []
    for name, rec in sorted(prims["readers"].items()):
        d = rec.get("desc") or {}
        if d.get("k") != "scalar" or name in ("read_error_code",):
            continue
        prefix = d.get("prefix") or {}
        paths = d.get("guards") or []
        if prefix.get("k") == "fixed" and prefix.get("fmt") == ">d":
            pts = [0.0, -0.0, 1.5, -2.5e300, 5e-324, 1.7976931348623157e308, float("inf"), float("-inf"), float("nan"),
                   _struct.unpack(">d", bytes.fromhex("fff8000000000001"))[0]]
        elif prefix.get("k") == "fixed" and prefix.get("fmt") == ">?":
            continue
        elif prefix.get("k") == "fixed":
            size = _struct.calcsize(prefix["fmt"])
            signed = prefix["fmt"][-1].islower()
            lo, hi = (-(1 << (8 * size - 1)), (1 << (8 * size - 1)) - 1) if signed else (0, (1 << (8 * size)) - 1)
            if "datetime" in name:
                lo, hi = 0, DT_MAX_MS
            pts = domain_points(lo, hi)
            if size == 8:
                pts += [p_ for p_ in (TD_MAX_MS, TD_MAX_MS - 86400000, TD_MAX_MS - 1, TD_MIN_MS, TD_MIN_MS + 86400000, (1 << 53) + 1, -(1 << 53) - 1,
                                      DT_MAX_MS, DT_MAX_MS - 1, DT_MAX_MS - 998, DT_MAX_MS - 999, 999, 1000, 1700000000123) if lo <= p_ <= hi]
        elif prefix.get("k") == "varint":
            bits = 32 if prefix.get("max") == 5 else 64
            pts = domain_points(0, (1 << (bits - 1)) - 1)  # the prefix value before conversion
        else:
            continue
        bad, unknown = [], None
        for x in pts:
            try:
                cv = eval_value_term(d.get("conv"), x)
            except TermRaised:
                continue  # not representable: outside the property's domain
            if cv is UNKNOWN:
                # the conversion is not in the vocabulary: decide on the guards alone
                pass
            # explicit range tests on the wire value that precede the conversion
            rejected_by_guard = False
            for g in d.get("range_guards") or []:
                try:
                    gv = eval_value_term(g.get("cond"), x)
                except TermRaised:
                    gv = UNKNOWN
                if gv is UNKNOWN:
                    unknown = (x, g.get("cond"))
                elif bool(gv) != bool(g.get("holds")):
                    rejected_by_guard = True
            if rejected_by_guard:
                bad.append(x)
                continue
            accepted = False
            for conds in paths:
                ok = True
                for cond, pol in conds:
                    if isinstance(cond, (list, tuple)) and cond and cond[0] == "may-raise":
                        v = False  # the conversion was just evaluated without the library raising
                        if cv is UNKNOWN:
                            v = UNKNOWN
                    else:
                        try:
                            v = eval_value_term(cond, x)
                        except TermRaised:
                            v = UNKNOWN
                    if v is UNKNOWN:
                        unknown = (x, cond)
                        ok = None
                        break
                    if bool(v) != bool(pol):
                        ok = False
                        break
                if ok is None:
                    accepted = None
                    break
                if ok:
                    accepted = True
                    break
            if accepted is False:
                bad.append(x)
        construct = f"kio.serial.readers:{name}"
        stmt = f"{name}: {len(paths)} returning path(s), raises {d.get('raises') or []}"
        if bad:
            rows.append((False, construct, stmt,
                         f"the reader raises {'/'.join(d.get('raises') or ['?'])} for the wire value(s) {bad[:4]!r}, which the format carries and the "
                         f"Python type represents: a canonical encoding holding one is not decoded (and so not reproduced)", rec.get("line", 0)))
        elif unknown is not None:
            rows.append((None, construct, stmt, f"condition {unknown[1]!r} not decidable at {unknown[0]!r}", rec.get("line", 0)))
        else:
            rows.append((True, construct, stmt, "", rec.get("line", 0)))
    return rows
