"""Shared iteration over (class, field) x (spec grammar, reader grammar, writer grammar)."""
from __future__ import annotations

import json

from ..core import AnalysisError
from ..grammar import neutral_r, neutral_w, spec_field
from ..ssm import show_type
from .common import loc

TIME_TYPES = {"timedelta_i32": ("duration", 32), "timedelta_i64": ("duration", 64), "datetime_i64": ("timestamp", 64)}


class Wire:
    def __init__(self, ctx):
        self.ctx = ctx
        self.S = ctx.schema
        self.bundle = ctx.bundle
        self._n = {}

    def plan(self, key):
        p = self.bundle["classes"].get(key)
        if p is None:
            raise AnalysisError(f"no plan computed for class {key}")
        return p

    def nr(self, d):
        k = ("r", json.dumps(d, sort_keys=True, default=str))
        if k not in self._n:
            self._n[k] = self.understood(neutral_r(d), d)
        return self._n[k]

    def nw(self, d):
        k = ("w", json.dumps(d, sort_keys=True, default=str))
        if k not in self._n:
            self._n[k] = self.understood(neutral_w(d), d)
        return self._n[k]

    def understood(self, n, d):
        """A codec the analyser could not summarise is an analysis limit (exit 2), never a verdict."""
        x = n
        while isinstance(x, dict):
            if x.get("k") == "opaque":
                who = (d or {}).get("_codec", "?")
                raise AnalysisError(f"codec {who} not understood: {x.get('reason')}")
            x = x.get("item") or x.get("inner")
        return n

    def classes(self):
        for key in sorted(self.S.classes):
            yield key, self.S.classes[key], self.plan(key)

    def is_client_id(self, cls, f):
        m = self.S.modules[cls["module"]]
        return m["api"] == "request_header" and f["name"] == "client_id"

    def fields(self, key, cls, plan):
        """Yield dict(kind='regular'|'tagged', f=ssm field, pf=plan record, spec=spec grammar)."""
        by_name = {pf["name"]: pf for pf in plan["fields"]}
        tagged_by_name = {}
        for t in plan["tagged"].values():
            for nm in (t.get("name"), t.get("w_name")):
                if nm:
                    tagged_by_name.setdefault(nm, t)
        for f in cls["fields"]:
            md = f.get("metadata") or {}
            if "tag" in md:
                yield {"kind": "tagged", "f": f, "pf": tagged_by_name.get(f["name"]),
                       "spec": spec_field(self.S, cls, f, flexible_override=True)}
            else:
                yield {"kind": "regular", "f": f, "pf": by_name.get(f["name"]),
                       "spec": spec_field(self.S, cls, f, is_request_header_client_id=self.is_client_id(cls, f))}

    def floc(self, cls, f):
        return loc(self.S, cls, f)

    def codec_loc(self, codec):
        """file:line of a codec function reference {'fn': 'mod:qual', 'line': n}."""
        if not codec:
            return {}
        mod = codec["fn"].split(":")[0]
        src = self.ctx.sm.get(mod)
        return {"file": src.rel if src else mod, "line": codec.get("line", 0)}


def fdesc(cls, f):
    md = f.get("metadata") or {}
    return f"{cls['key']}.{f['name']}: {show_type(f['type'])} {md}"
