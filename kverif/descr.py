"""From path summaries to codec descriptors (the normal form compared with the spec).

A summary (list of Path) is first folded into a canonical *event tree* (effects and
decisions interleaved in program order, wire variables renamed by order of appearance),
then matched against the descriptor shapes of DESIGN.md section 3.  A tree that matches
no shape yields ('opaque', reason): it compares unequal to every spec descriptor and is
reported as an analysis limit by the properties that need it -- never silently accepted.
"""
from __future__ import annotations

import struct as _struct

from .interp_base import *  # noqa: F401,F403
from .interp_base import Limit, Path

STREAM_EVENTS = ("read", "xread", "varint", "write", "wvarint", "codec", "repeat", "alloc", "getvalue", "tell",
                 "seek", "close", "flush", "stream-other", "switch")


class Canon:
    """Renames run-specific identifiers (wire counters, stream uids) by order of appearance."""

    def __init__(self):
        self.wires, self.streams = {}, {}

    def stream(self, s):
        if s.uid not in self.streams:
            pre = "P" if s.kind == "param" else "L"
            self.streams[s.uid] = pre + str(sum(1 for v in self.streams.values() if v.startswith(pre)))
        return self.streams[s.uid]

    def term(self, t):
        if isinstance(t, tuple):
            if t and t[0] in ("wire", "varint", "codec") and len(t) == 3 and isinstance(t[1], int):
                key = t
                if key not in self.wires:
                    self.wires[key] = len(self.wires) + 1
                return (t[0][0] if t[0] != "codec" else "c", self.wires[key])
            if t and t[0] in ("contents", "tell", "write-result") and len(t) == 3:
                return (t[0], self.streams.get(t[1], t[1]), "@")
            if t and t[0] == "stream":
                return ("stream", self.streams.get(t[1], t[1]))
            if t and t[0] == "loopvar":
                return ("loopvar",)
            if t and t[0] == "obj" and len(t) == 3:
                return ("obj", t[1])
            if t and t[0] == "func" and len(t) == 3:
                return ("func", t[1])
            return tuple(self.term(x) for x in t)
        return t

    def value(self, v):
        return self.term(term_of(v))


def event_of(e, cn: Canon):
    k = e[0]
    if k == "xread":
        return ("xread", cn.stream(e[1]), cn.value(e[2]), cn.term(e[3]))
    if k == "read":
        return ("read", cn.stream(e[1]), cn.value(e[2]), cn.term(e[3]))
    if k == "varint":
        return ("varint", cn.stream(e[1]), e[2]["max_bytes"], cn.term(e[3]))
    if k == "write":
        return ("write", cn.stream(e[1]), cn.value(e[2]))
    if k == "wvarint":
        return ("wvarint", cn.stream(e[1]), cn.value(e[2]))
    if k == "codec":
        return ("codec", cn.stream(e[1]), e[2].uid, tuple(cn.value(x) for x in e[3]), cn.term(e[4]))
    if k == "repeat":
        return ("repeat", cn.term(e[1]), len(e[2]))
    if k == "alloc":
        return ("alloc", cn.stream(e[1]), cn.value(e[3]) if e[3] is not None else None)
    if k in ("getvalue", "tell", "close", "flush"):
        return (k, cn.stream(e[1]))
    if k == "seek":
        return ("seek", cn.stream(e[1]), cn.value(e[2]))
    if k == "stream-other":
        return ("stream-other", cn.stream(e[1]), e[2])
    return None


class Node:
    """Event tree node: kind in {'ev','if','ret','raise'}."""
    __slots__ = ("kind", "ev", "raw", "cond", "yes", "no", "next", "value", "exc", "path", "site")

    def __init__(self, kind, **kw):
        self.kind = kind
        for k in ("ev", "raw", "cond", "yes", "no", "next", "value", "exc", "path", "site"):
            setattr(self, k, kw.get(k))

    def show(self, ind=0) -> str:
        pad = "  " * ind
        if self.kind == "ev":
            return f"{pad}{show_ev(self.ev)}\n" + (self.next.show(ind) if self.next else "")
        if self.kind == "if":
            return (f"{pad}if {show_term(self.cond)}:\n" + (self.yes.show(ind + 1) if self.yes else f"{pad}  <infeasible>\n")
                    + f"{pad}else:\n" + (self.no.show(ind + 1) if self.no else f"{pad}  <infeasible>\n"))
        if self.kind == "ret":
            return f"{pad}return {show_term(self.value)}\n"
        return f"{pad}raise {self.exc}\n"


def show_ev(ev):
    return ev[0] + "(" + ", ".join(show_term(x) if isinstance(x, tuple) else repr(x) for x in ev[1:]) + ")"


def build_tree(paths: list[Path]) -> Node:
    """Fold paths into a tree.  Every path is a sequence of items (events and decisions) in
    program order; paths sharing a prefix share the nodes."""
    seqs = []
    for p in paths:
        cn = Canon()
        items = []
        facts = sorted(p.facts, key=lambda f: f[3])
        fi = 0
        for i, e in enumerate(p.effects):
            while fi < len(facts) and facts[fi][3] <= i:
                f = facts[fi]
                items.append(("if", cn.term(f[0]), f[1], f[2]))
                fi += 1
            ev = event_of(e, cn)
            if ev is not None:
                items.append(("ev", ev, e))
        while fi < len(facts):
            f = facts[fi]
            items.append(("if", cn.term(f[0]), f[1], f[2]))
            fi += 1
        if p.outcome == "return":
            items.append(("ret", cn.value(p.value), p))
        else:
            items.append(("raise", short_exc(p.value.cls), p))
        seqs.append(items)
    return _fold(seqs, 0)


def _fold(seqs, depth):
    if not seqs:
        return None
    first = seqs[0][depth] if depth < len(seqs[0]) else None
    if first is None:
        raise Limit("path ended without outcome")
    kind = first[0]
    if kind in ("ret", "raise"):
        if len(seqs) > 1:
            # identical paths up to here with several outcomes cannot happen (decisions differ)
            raise Limit("ambiguous path outcomes")
        p = first[2]
        if kind == "ret":
            return Node("ret", value=first[1], path=p)
        return Node("raise", exc=first[1], path=p)
    if kind == "ev":
        for s in seqs:
            if depth >= len(s) or s[depth][0] != "ev" or s[depth][1] != first[1]:
                raise Limit(f"paths diverge without a decision at event {first[1]!r}")
        return Node("ev", ev=first[1], raw=first[2], next=_fold(seqs, depth + 1))
    # decision
    cond = first[1]
    yes = [s for s in seqs if depth < len(s) and s[depth][0] == "if" and s[depth][1] == cond and s[depth][2]]
    no = [s for s in seqs if depth < len(s) and s[depth][0] == "if" and s[depth][1] == cond and not s[depth][2]]
    if len(yes) + len(no) != len(seqs):
        raise Limit(f"paths diverge on different conditions at {show_term(cond)}")
    return Node("if", cond=cond, yes=_fold(yes, depth + 1), no=_fold(no, depth + 1), site=first[3])


# --------------------------------------------------------------------------------- term helpers

def linear(t, x):
    """t == a*x + b for constants a, b?  Returns (a, b) or None."""
    if t == x:
        return (1, 0)
    if isinstance(t, tuple) and t and t[0] == "k" and isinstance(t[1], int):
        return (0, t[1])
    if isinstance(t, tuple) and len(t) == 3 and t[0] in ("add", "sub"):
        l, r = linear(t[1], x), linear(t[2], x)
        if l is None or r is None:
            return None
        return (l[0] + r[0], l[1] + r[1]) if t[0] == "add" else (l[0] - r[0], l[1] - r[1])
    return None


def contains(t, x) -> bool:
    if t == x:
        return True
    if isinstance(t, tuple):
        return any(contains(y, x) for y in t)
    return False


def subst(t, x, y):
    if t == x:
        return y
    if isinstance(t, tuple):
        return tuple(subst(z, x, y) for z in t)
    return t


HOLE = ("X",)


def _upper_bound(cond, pol, L):
    """Upper bound on term L implied by one decided comparison `cond` (polarity pol), or None."""
    if not isinstance(cond, tuple) or len(cond) != 3 or cond[0] not in ("le", "lt", "ge", "gt"):
        return None
    op, a, b = cond
    ka = a[1] if a[0] == "k" and isinstance(a[1], int) else None
    kb = b[1] if b[0] == "k" and isinstance(b[1], int) else None
    if kb is not None and linear(a, L) is not None and linear(a, L)[0] == 1:
        c, off = kb, linear(a, L)[1]
    elif ka is not None and linear(b, L) is not None and linear(b, L)[0] == 1:
        c, off = ka, linear(b, L)[1]
        op = {"le": "ge", "lt": "gt", "ge": "le", "gt": "lt"}[op]
    else:
        return None
    if not pol:
        op = {"le": "gt", "lt": "ge", "ge": "lt", "gt": "le"}[op]
    if op == "le":
        return c - off
    if op == "lt":
        return c - 1 - off
    return None


def pack_const(fmt, v) -> bytes:
    return _struct.pack(fmt, v)


def unleb128(b: bytes):
    """Value of a canonical unsigned LEB128 byte string, else None."""
    n = 0
    for i, x in enumerate(b):
        n |= (x & 0x7F) << (7 * i)
        if (x & 0x80) == 0:
            return n if i == len(b) - 1 and leb128(n) == b else None
    return None


def leb128(n: int) -> bytes:
    out = bytearray()
    while True:
        b = n & 0x7F
        n >>= 7
        if n:
            out.append(b | 0x80)
        else:
            out.append(b)
            return bytes(out)


# --------------------------------------------------------------------------------- descriptors

def dkey(d):
    """Canonical hashable form of a descriptor (dict/list/tuple nest)."""
    if isinstance(d, dict):
        return tuple(sorted((k, dkey(v)) for k, v in d.items() if not k.startswith("_")))
    if isinstance(d, (list, tuple)):
        return tuple(dkey(x) for x in d)
    if isinstance(d, (set, frozenset)):
        return tuple(sorted(dkey(x) for x in d))
    return d


def opaque(reason, **kw):
    return {"k": "opaque", "reason": reason, **kw}


def pure_leaves(n, conds=()):
    """Leaves of a subtree without stream events: [(conds, 'ret'|'raise', value|exc, node)] or None."""
    if n is None:
        return []
    if n.kind == "ev":
        if n.ev[0] in ("close",):
            return pure_leaves(n.next, conds)
        return None
    if n.kind == "if":
        a = pure_leaves(n.yes, conds + ((n.cond, True),))
        b = pure_leaves(n.no, conds + ((n.cond, False),))
        if a is None or b is None:
            return None
        return a + b
    if n.kind == "ret":
        return [(conds, "ret", n.value, n)]
    return [(conds, "raise", n.exc, n)]


def find_unpack(n, w, found=None, depth=0):
    """All ('unpack', fmt, w, i) terms mentioned below node n."""
    found = set() if found is None else found

    def scan(t):
        if isinstance(t, tuple):
            if len(t) == 4 and t[0] == "unpack" and t[2] == w:
                found.add(t)
            for x in t:
                scan(x)
    while n is not None:
        if n.kind == "ev":
            scan(n.ev)
            n = n.next
        elif n.kind == "if":
            scan(n.cond)
            find_unpack(n.yes, w, found, depth + 1)
            n = n.no
        elif n.kind == "ret":
            scan(n.value)
            break
        else:
            break
    return found


def skip_noise(n):
    while n is not None and n.kind == "ev" and n.ev[0] in ("close",):
        n = n.next
    return n


class Describer:
    def __init__(self, analyzer):
        self.A = analyzer
        self.I = analyzer.I
        self._r: dict = {}
        self._w: dict = {}
        self.trees: dict = {}
        self.roots_r: dict = {}
        self.roots_w: dict = {}

    # ------------------------------------------------------------------ identities
    def free_vars(self, f: FuncV) -> dict:
        """Captured variables of a closure: names loaded in the body that are bound in an
        enclosing *function* scope."""
        import ast
        names = set()
        bound = {a.arg for a in f.node.args.args + f.node.args.kwonlyargs + f.node.args.posonlyargs}
        for sub in ast.walk(f.node):
            if isinstance(sub, ast.Name):
                names.add(sub.id)
        out = {}
        for nme in sorted(names - bound):
            e = f.env
            while e is not None:
                if e.kind == "function" and nme in e.vars:
                    out[nme] = e.vars[nme]
                    break
                e = e.parent
        return out

    def codec_key(self, f):
        if isinstance(f, PartialV) and callable_target(f) is not None:
            def kk(v):
                if isinstance(v, (FuncV, PartialV)):
                    return self.codec_key(v)
                return v if isinstance(v, (int, str, bool, bytes)) or v is None else id(v)
            return ("partial", self.codec_key(f.fn), tuple(kk(a) for a in f.args), tuple(sorted((k, kk(v)) for k, v in f.kwargs.items())))
        if isinstance(f, InstV) and callable_target(f) is not None:
            def kk(v):
                if isinstance(v, (FuncV, PartialV)):
                    return self.codec_key(v)
                return v if isinstance(v, (int, str, bool, bytes)) or v is None else id(v)
            return ("callable", f.cls.module, f.cls.name, tuple(sorted((k, kk(v)) for k, v in f.attrs.items())))
        if not isinstance(f, FuncV):
            return ("other", id(f))
        parts = []
        for k, v in self.free_vars(f).items():
            if isinstance(v, FuncV):
                parts.append((k, self.codec_key(v)))
            elif isinstance(v, (int, str, bool, bytes)) or v is None:
                parts.append((k, v))
            else:
                parts.append((k, id(v)))
        return (f.module, f.qualname, tuple(parts))

    def type_key(self, t):
        if isinstance(t, UnionV):
            return ("union",) + tuple(sorted((self.type_key(a) for a in t.args), key=repr))
        if isinstance(t, GenericV):
            return ("generic", self.type_key(t.origin)) + tuple(self.type_key(a) for a in t.args)
        if isinstance(t, ClassV):
            return ("class", t.ref)
        if isinstance(t, LibClass):
            return ("lib", t.name)
        if t is Ellipsis:
            return "..."
        if t is None:
            return ("lib", "NoneType")
        return ("other", repr(t))

    # ------------------------------------------------------------------ readers
    def reader_desc(self, codec) -> dict:
        key = self.codec_key(codec)
        if key in self._r:
            return self._r[key]
        self._r[key] = opaque("recursive")
        self.roots_r[key] = codec
        try:
            paths = self.A.paths(codec, [StreamV("param")])
            tree = build_tree(paths)
            self.trees[("r", key)] = tree
            d = self.match_reader(tree, codec)
        except Limit as e:
            d = opaque(f"analysis limit: {e}")
        d["_codec"] = callable_ref(codec)
        d["_line"] = callable_line(codec)
        self._r[key] = d
        return d

    def match_reader(self, tree, codec) -> dict:
        n = skip_noise(tree)
        if n is None:
            return opaque("empty")
        if n.kind == "ev" and n.ev[0] == "codec" and n.ev[1] == "P0":
            # a wrapper that only delegates: one codec call on the caller's stream whose result is returned as it is
            # (the wrapper may translate exceptions; that shows in the raise log, not in the grammar)
            nxt = skip_noise(n.next)
            leaves = pure_leaves(nxt) if nxt is not None else None
            if leaves and all(l[1] == "raise" or (l[1] == "ret" and l[2] == n.ev[4]) for l in leaves) and any(l[1] == "ret" for l in leaves):
                inner = dict(self.reader_desc(n.raw[2]))
                inner["delegated_by"] = callable_ref(codec)
                return inner
        if n.kind == "ret" and self.returns_instance(n):
            return self.match_entity_reader(tree, codec)
        if n.kind in ("ret", "raise"):
            return {"k": "const", "outcome": n.kind, "value": n.value if n.kind == "ret" else n.exc}
        if n.kind == "ev" and n.ev[0] == "codec" or self.returns_instance(tree):
            return self.match_entity_reader(tree, codec)
        if n.kind != "ev" or n.ev[0] not in ("xread", "varint") or n.ev[1] != "P0":
            if n.kind == "ev" and n.ev[0] == "read":
                return opaque("raw unchecked read at the start of a reader", event=n.ev)
            return opaque(f"reader starts with {n.kind} {getattr(n, 'ev', None)!r}")
        if n.ev[0] == "varint":
            prefix = {"k": "varint", "max": n.ev[2]}
            X = n.ev[3]
        else:
            size, w = n.ev[2], n.ev[3]
            if not (isinstance(size, tuple) and size[0] == "k" and isinstance(size[1], int)):
                return opaque("first read has a non-constant size")
            size = size[1]
            ups = find_unpack(n.next, w)
            if len(ups) == 1:
                X = next(iter(ups))
                fmt = X[1]
                if _struct.calcsize(fmt) != size:
                    return opaque(f"struct format {fmt!r} needs {_struct.calcsize(fmt)} bytes but {size} are read")
                prefix = {"k": "fixed", "fmt": fmt}
            elif not ups:
                return self.match_raw_fixed(n, size, w)
            else:
                return opaque("several unpack formats applied to one read")
        return self.match_after_prefix(prefix, X, skip_noise(n.next))

    def returns_instance(self, n) -> bool:
        """Does some returning leaf of the tree yield a dataclass instance built here?"""
        while n is not None:
            if n.kind == "ret":
                return isinstance(n.value, tuple) and bool(n.value) and n.value[0] == "inst"
            if n.kind == "raise":
                return False
            if n.kind == "if":
                return self.returns_instance(n.yes) or self.returns_instance(n.no)
            n = n.next
        return False

    def match_raw_fixed(self, n, size, w):
        """Fixed-size raw bytes (UUID)."""
        rest = skip_noise(n.next)
        leaves = pure_leaves(rest)
        if leaves is None:
            return opaque("raw fixed-size read followed by more reads")
        d = {"k": "rawfixed", "size": size, "null": None, "conv": None, "raises": []}
        for conds, kind, val, _ in leaves:
            if kind == "raise":
                d["raises"].append(val)
                continue
            if val == ("k", None):
                eqs = [c for c, pol in conds if pol and c[0] == "eq" and w in (c[1], c[2])]
                if len(eqs) == 1:
                    other = eqs[0][2] if eqs[0][1] == w else eqs[0][1]
                    if other[0] == "k" and isinstance(other[1], bytes):
                        d["null"] = {"wire": other[1].hex(), "then": "none"}
                        continue
                # None returned when the UUID built from the bytes equals a constant UUID (possibly one of several: `value in {...}`)
                import uuid as _uuid
                ueqs = [c for c, pol in conds if pol and c[0] == "eq" and any(contains(x, w) for x in c[1:]) and
                        any(isinstance(x, tuple) and x[:1] == ("k",) and isinstance(x[1], _uuid.UUID) for x in c[1:])]
                if len(ueqs) == 1:
                    const = next(x[1] for x in ueqs[0][1:] if isinstance(x, tuple) and x[:1] == ("k",) and isinstance(x[1], _uuid.UUID))
                    if d["null"] is None:
                        d["null"] = {"wire": const.bytes.hex(), "then": "none"}
                    else:
                        d["null"].setdefault("also", []).append(const.bytes.hex())
                    continue
                return opaque("None returned under an unrecognised condition")
            if size == 1 and isinstance(val, tuple) and len(val) == 2 and val[0] == "not" and isinstance(val[1], tuple) and len(val[1]) == 3 \
                    and val[1][0] in ("eq", "ne"):
                val = ({"eq": "ne", "ne": "eq"}[val[1][0]], val[1][1], val[1][2])
            if size == 1 and isinstance(val, tuple) and len(val) == 3 and val[0] in ("eq", "ne") and w in (val[1], val[2]):
                other = val[2] if val[1] == w else val[1]
                if other[0] == "k" and isinstance(other[1], bytes) and len(other[1]) == 1:
                    # a one-byte boolean decided by comparing the byte: `!= b"\x00"` is exactly struct's "?" (every non-zero byte is true);
                    # any other comparison is a different function of the byte
                    if val[0] == "ne" and other[1] == b"\x00":
                        return {"k": "scalar", "prefix": {"k": "fixed", "fmt": ">?"}, "null": None, "conv": HOLE, "guards": [], "raises": d["raises"]}
                    return {"k": "scalar", "prefix": {"k": "fixed", "fmt": ">?"}, "null": None,
                            "conv": (val[0], ("byte", HOLE), ("k", other[1][0])), "guards": [], "raises": d["raises"]}
            d["conv"] = subst(val, w, HOLE)
        return d

    def match_after_prefix(self, prefix, X, rest):
        d = {"k": "scalar", "prefix": prefix, "null": None, "conv": None, "guards": [], "raises": []}
        pre_guards = []
        rest = self.skip_guards(rest, pre_guards)
        out = self._match_after_prefix(prefix, X, rest, d)
        if pre_guards and isinstance(out, dict) and out.get("k") != "opaque":
            out.setdefault("prefix_guards", []).extend(pre_guards)
            out.setdefault("range_guards", [])
            out["range_guards"] = [{"cond": subst(g["cond"], X, HOLE), "holds": g["holds"], "else": g["else"]} for g in pre_guards] + \
                list(out["range_guards"])
            out.setdefault("raises", [])
            out["raises"] = sorted(set(out["raises"]) | {e for g in pre_guards for e in g["else"]})
        return out

    def skip_guards(self, n, acc):
        """Skip `if c: <pure raise> else: ...` nodes (range / validity guards), recording them."""
        while n is not None and n.kind == "if" and n.cond[0] in ("le", "lt", "ge", "gt", "isinstance"):
            ly, ln_ = pure_leaves(n.yes), pure_leaves(n.no)
            if ln_ and all(l[1] == "raise" for l in ln_) and not (ly and all(l[1] == "raise" for l in ly)):
                acc.append({"cond": n.cond, "holds": True, "else": sorted({l[2] for l in ln_})})
                n = skip_noise(n.yes)
            elif ly and all(l[1] == "raise" for l in ly) and n.cond[0] not in ("eq",):
                acc.append({"cond": n.cond, "holds": False, "else": sorted({l[2] for l in ly})})
                n = skip_noise(n.no)
            else:
                break
        return n

    def _match_after_prefix(self, prefix, X, rest, d):
        # optional null arm: if lin(X) == c
        n = rest
        if n is not None and n.kind == "if" and n.cond[0] == "eq":
            lhs, rhs = n.cond[1], n.cond[2]
            lin = linear(lhs, X)
            if lin is not None and lin[0] == 1 and rhs[0] == "k" and isinstance(rhs[1], int):
                wire_null = rhs[1] - lin[1]
                arm = pure_leaves(n.yes)
                if arm is not None and len(arm) == 1 and n.yes is not None:
                    kind, val = arm[0][1], arm[0][2]
                    if kind == "ret" and val == ("k", None):
                        d["null"] = {"wire": wire_null, "then": "none"}
                        n = skip_noise(n.no)
                    elif kind == "raise":
                        d["null"] = {"wire": wire_null, "then": "raise:" + val}
                        n = skip_noise(n.no)
        post = []
        n = self.skip_guards(n, post)
        if post:
            d["raises"] = sorted(set(d["raises"]) | {e for g in post for e in g["else"]})
        range_guards = [{"cond": subst(g["cond"], X, HOLE), "holds": g["holds"], "else": g["else"]} for g in post]
        d["range_guards"] = range_guards
        if n is None:
            return opaque("no continuation after the null arm")
        # marked (enum switch over the prefix) -----------------------------------------------
        if n.kind == "if" and n.cond[0] == "eq" and n.cond[1] == X and d["null"] is None:
            m = self.match_marked(prefix, X, n)
            if m is not None:
                return m
        if d["null"] is not None and n.kind == "if" and n.cond[0] == "eq" and n.cond[1] == X:
            # null arm was the first member of an enum switch
            m = self.match_marked(prefix, X, rest)
            if m is not None:
                return m
        # payload read ----------------------------------------------------------------------------
        if n.kind == "ev" and n.ev[0] in ("xread", "read") and n.ev[1] == "P0":
            lin = linear(n.ev[2], X)
            if lin is None or lin[0] != 1:
                return opaque("payload size is not prefix minus a constant")
            w2 = n.ev[3]
            out = {"k": "lenpref", "prefix": prefix, "bias": -lin[1], "null": d["null"], "payload": None,
                   "exact": n.ev[0] == "xread", "raises": [], "range_guards": range_guards}
            leaves = pure_leaves(skip_noise(n.next))
            if leaves is None:
                return opaque("length-prefixed payload followed by more reads")
            for conds, kind, val, _ in leaves:
                if kind == "raise":
                    out["raises"].append(val)
                elif val == w2:
                    out["payload"] = {"k": "bytes"}
                elif isinstance(val, tuple) and val[0] == "decode" and val[1] == w2:
                    out["payload"] = {"k": "text", "codec": list(val[2])}
                else:
                    return opaque(f"payload returned as {show_term(val)}")
            if n.ev[0] == "read":
                # unchecked raw read: exact only if a fact len(w2) == size guards every return
                out["exact"] = all(any(c == ("eq", ("len", w2), n.ev[2]) and pol for c, pol in conds)
                                   for conds, kind, _, _ in leaves if kind == "ret")
            return out
        # array -----------------------------------------------------------------------------------
        if n.kind == "ev" and n.ev[0] == "repeat":
            lin = linear(n.ev[1], X)
            if lin is None or lin[0] != 1:
                return opaque("array count is not prefix minus a constant")
            body = n.raw[2]
            item = self.match_repeat_body_reader(body)
            leaves = pure_leaves(skip_noise(n.next))
            if leaves is None or len(leaves) != 1 or leaves[0][1] != "ret":
                return opaque("array loop followed by something else than a return")
            val = leaves[0][2]
            if not (isinstance(val, tuple) and val[0] == "repeat"):
                return opaque("array reader does not return the collected items")
            return {"k": "array", "prefix": prefix, "bias": -lin[1], "null": d["null"], "item": item, "range_guards": range_guards}
        # scalar with pure continuation -----------------------------------------------------------
        leaves = pure_leaves(n)
        if leaves is None:
            return opaque(f"unrecognised continuation after prefix: {n.kind} {getattr(n, 'ev', None)!r}")
        rets = [l for l in leaves if l[1] == "ret"]
        vals = {l[2] for l in rets}
        if len(vals) != 1:
            # a conversion defined by cases: a case that returns the constant its own condition pins the wire value to is the identity there
            cases = []
            for l in rets:
                conds = [(subst(c, X, HOLE), pol) for c, pol in l[0]]
                term = subst(l[2], X, HOLE)
                if isinstance(term, tuple) and term[:1] == ("k",) and any(pol and c in (("eq", HOLE, term), ("eq", term, HOLE)) for c, pol in conds):
                    term = HOLE
                cases.append((conds, term))
            if len({t for _, t in cases}) == 1:
                d["conv"] = cases[0][1]
            else:
                d["conv"] = ("cases", tuple((tuple(c), t) for c, t in cases))
            d["raises"] = sorted({l[2] for l in leaves if l[1] == "raise"})
            d["guards"] = [[(subst(c, X, HOLE), pol) for c, pol in l[0]] for l in rets]
            return d
        d["conv"] = subst(next(iter(vals)), X, HOLE)
        d["raises"] = sorted({l[2] for l in leaves if l[1] == "raise"})
        d["guards"] = [[(subst(c, X, HOLE), pol) for c, pol in l[0]] for l in rets]
        # one byte tested for "not zero" is exactly struct's "?" (every non-zero byte is true), whatever the integer format it was read with
        if prefix.get("k") == "fixed" and prefix.get("fmt") in (">B", ">b", "<B", "<b", "B", "b", "!B", "!b") and \
                d["conv"] in (("not", ("eq", HOLE, ("k", 0))), ("ne", HOLE, ("k", 0)), ("nonzero", HOLE), ("not", ("eq", ("k", 0), HOLE)), ("ne", ("k", 0), HOLE)):
            d["prefix"] = {"k": "fixed", "fmt": ">?"}
            d["conv"] = HOLE
        return d

    def match_marked(self, prefix, X, n):
        arms, miss = {}, None
        inner = None
        cur = n
        while cur is not None and cur.kind == "if" and cur.cond[0] == "eq" and cur.cond[1] == X and cur.cond[2][0] == "k":
            c = cur.cond[2][1]
            y = skip_noise(cur.yes)
            if y is None:
                return None
            if y.kind == "ret" and y.value == ("k", None):
                arms[c] = "null"
            elif y.kind == "ev" and y.ev[0] == "codec" and y.ev[1] == "P0":
                r = skip_noise(y.next)
                if r is None or r.kind != "ret" or r.value != y.ev[4]:
                    return None
                arms[c] = "present"
                inner = y.raw[2]
            else:
                return None
            cur = skip_noise(cur.no)
        if cur is None or not arms or inner is None:
            return None
        if cur.kind == "raise":
            miss = "raise:" + cur.exc
        else:
            return None
        return {"k": "marked", "prefix": prefix, "arms": {str(k): v for k, v in arms.items()}, "miss": miss,
                "inner": self.reader_desc(inner)}

    def match_repeat_body_reader(self, body):
        """Loop body of an array reader: exactly one codec call on the stream, its result collected."""
        if len(body) != 1:
            return opaque(f"array loop body has {len(body)} paths")
        facts, effs, outcome, val = body[0]
        cods = [e for e in effs if e[0] == "codec"]
        others = [e for e in effs if e[0] in ("read", "xread", "varint", "write", "seek", "tell", "stream-other")]
        if len(cods) != 1 or others or outcome != "next":
            return opaque("array loop body is not a single item-reader call")
        if not (isinstance(val, Sym) and val.term == cods[0][4]):
            return opaque("array loop body does not yield the item reader's result")
        return self.reader_desc(cods[0][2])

    # ------------------------------------------------------------------ entity readers
    def match_entity_reader(self, tree, codec):
        fields, n = [], skip_noise(tree)
        while n is not None and n.kind == "ev" and n.ev[0] == "codec" and n.ev[1] == "P0":
            fields.append({"var": n.ev[4], "codec": n.raw[2]})
            n = skip_noise(n.next)
        out = {"k": "entity", "fields": fields, "tagged": None, "result": None, "raises": []}
        if n is not None and n.kind == "ev" and n.ev[0] == "varint":
            cnt = n.ev[3]
            rep = skip_noise(n.next)
            if rep is None or rep.kind != "ev" or rep.ev[0] != "repeat" or rep.ev[1] != cnt:
                if rep is not None and rep.kind == "leaf" or rep is None or pure_leaves(rep) is not None:
                    # the count is read and then nothing is iterated: whatever the peer announced stays in the stream
                    out["tagged"] = {"count_max_bytes": n.ev[2].get("max_bytes") if isinstance(n.ev[2], dict) else n.ev[2], "arms": {}, "iteration_prefix": None, "size_used": False,
                                     "miss": {"k": "ignore-without-skipping", "count_unused": True}}
                    n = rep
                else:
                    return opaque("varint after the regular fields is not followed by a loop over it")
            else:
                out["tagged"] = self.match_tagged_loop(rep.raw[2], n.ev[2])
                n = skip_noise(rep.next)
        leaves = pure_leaves(n)
        if leaves is None:
            return opaque("entity reader: stream events after the tagged section")
        rets = [l for l in leaves if l[1] == "ret"]
        if not rets:
            return opaque("entity reader without a returning path")
        out["result"] = rets[0][3].path.value
        out["result_term"] = rets[0][2]
        out["results"] = [{"conds": [(c, pol) for c, pol in l[0]], "value": l[3].path.value} for l in rets]
        if isinstance(out["result"], InstV):
            out["class"] = out["result"].cls.ref
        out["raises"] = sorted({l[2] for l in leaves if l[1] == "raise"})
        return out

    def match_tagged_loop(self, body, count_max):
        """One iteration of the tagged-field loop: varint tag, varint size, switch on the tag."""
        arms, miss = {}, None
        info = {"count_max_bytes": count_max, "arms": arms, "miss": None, "iteration_prefix": None, "size_used": False}
        for facts, effs, outcome, val in body:
            cn = Canon()
            evs = [(event_of(e, cn), e) for e in effs]
            evs = [(ev, e) for ev, e in evs if ev is not None and ev[0] != "switch"]
            stream_evs = [(ev, e) for ev, e in evs if ev[0] in ("varint", "xread", "read", "codec", "repeat", "write", "seek", "tell", "stream-other")]
            if len(stream_evs) < 2 or stream_evs[0][0][0] != "varint" or stream_evs[1][0][0] != "varint":
                info["miss"] = info["miss"] or {"k": "opaque", "reason": "iteration does not start with two varints"}
                continue
            tag_t, size_t = stream_evs[0][1][3], stream_evs[1][1][3]
            info["iteration_prefix"] = [stream_evs[0][0][2], stream_evs[1][0][2]]
            rest = stream_evs[2:]
            eqs = [(f[0], f[1]) for f in facts if f[0][0] == "eq" and f[0][1] == tag_t]
            hit = [c[2][1] for c, pol in eqs if pol and c[2][0] == "k"]
            if hit:
                tag = hit[0]
                if len(rest) == 1 and rest[0][0][0] == "codec" and outcome == "next":
                    arms[tag] = {"codec": rest[0][1][2], "raw_var": rest[0][1][4]}
                else:
                    arms[tag] = {"opaque": f"tag {tag}: {[ev for ev, _ in rest]!r} -> {outcome}"}
                continue
            # miss arm: no tag matched.  There may be several such paths (e.g. one per value a loop-carried local can hold): a path
            # that does anything but skip decides what is reported
            def set_miss(m):
                cur = info["miss"]
                if cur is None or (cur.get("k") == "skip" and m.get("k") != "skip") or (cur.get("k") == "skip" and m.get("k") == "skip" and not m.get("exact")):
                    info["miss"] = m
            if outcome == "raise":
                set_miss({"k": "raise", "exc": short_exc(val.cls), "site": next((e[2] for e in effs if e[0] == "raise-site"), None)})
            elif outcome == "next":
                if len(rest) == 1 and rest[0][0][0] in ("xread", "read") and term_of(rest[0][1][2]) == size_t:
                    set_miss({"k": "skip", "exact": rest[0][0][0] == "xread"})
                    info["size_used"] = True
                elif not rest:
                    set_miss({"k": "ignore-without-skipping"})
                elif any(ev[0] == "codec" and ev[1] == "P0" for ev, _ in rest):
                    set_miss({"k": "parsed-as-field", "carried": sorted({e[1] for e in effs if e[0] == "loop-carried"}),
                              "site": next((e[-1] for ev, e in rest if ev[0] == "codec"), None)})
                else:
                    set_miss({"k": "opaque", "reason": f"miss arm does {[ev for ev, _ in rest]!r}"})
            else:
                info["miss"] = {"k": "opaque", "reason": f"miss arm outcome {outcome}"}
        return info

    # ------------------------------------------------------------------ writers
    def writer_desc(self, codec, vtype) -> dict:
        key = (self.codec_key(codec), self.type_key(vtype))
        if key in self._w:
            return self._w[key]
        self._w[key] = opaque("recursive")
        self.roots_w[key] = (codec, vtype)
        try:
            V = self.I.sym_of_type(("param", "value"), vtype)
            paths = self.A.paths(codec, [StreamV("param"), V])
            tree = build_tree(paths)
            self.trees[("w", key)] = tree
            d = self.match_writer(tree, paths, V.term, codec, vtype)
            inner_t = self.strip_none(vtype)
            if isinstance(inner_t, ClassV) and (inner_t.entity is not None or "dataclass" in inner_t.flags):
                if d.get("k") == "nothing":
                    d = {"k": "entity", "null": d.get("null"), "fields": [], "tagged_paths": [], "raises": [], "flexible": False}
                if d.get("k") == "constant" and d.get("null") is None:
                    # an entity without fields whose tagged section came out as constant bytes (count 0 and an empty flush)
                    cb = bytes.fromhex(d["bytes"])
                    tp = {"emitted": [], "count_bytes": cb.hex(), "count": cb[0] if len(cb) == 1 and cb[0] < 0x80 else None, "staged_flush": True,
                          "problems": [] if cb == b"\x00" else [f"a class without fields writes the constant {cb.hex()}"], "elided": [], "order": []}
                    d = {"k": "entity", "null": None, "fields": [], "tagged_paths": [tp], "raises": [], "flexible": True}
                if d.get("k") == "entity":
                    d["class"] = inner_t.ref
        except Limit as e:
            d = opaque(f"analysis limit: {e}")
        d["_codec"] = callable_ref(codec)
        d["_line"] = callable_line(codec)
        self._w[key] = d
        return d

    def const_writes(self, n):
        """Node chain of constant writes to P0 followed by `return None`: the bytes, or None."""
        out = b""
        n = skip_noise(n)
        while n is not None and n.kind == "ev":
            if n.ev[0] == "write" and n.ev[1] == "P0" and n.ev[2][0] == "k" and isinstance(n.ev[2][1], bytes):
                out += n.ev[2][1]
            elif n.ev[0] == "wvarint" and n.ev[1] == "P0" and n.ev[2][0] == "k" and isinstance(n.ev[2][1], int) and n.ev[2][1] >= 0:
                out += leb128(n.ev[2][1])
            else:
                return None
            n = skip_noise(n.next)
        if n is not None and n.kind == "ret":
            return out
        return None

    def match_writer(self, tree, paths, V, codec, vtype) -> dict:
        n = skip_noise(tree)
        null = None
        guards = []
        if n is not None and n.kind == "if" and n.cond == ("is", V, ("k", None)):
            nb = self.const_writes(n.yes)
            if nb is None:
                leaves = pure_leaves(n.yes)
                if leaves and len(leaves) == 1 and leaves[0][1] == "raise":
                    null = {"result": "raise:" + leaves[0][2]}
                else:
                    return opaque("None branch of the writer is not a constant write")
            else:
                null = {"wire_bytes": nb.hex()}
            n = skip_noise(n.no)
        # range / type guards whose other branch only raises
        while n is not None and n.kind == "if":
            ly, ln_ = pure_leaves(n.yes), pure_leaves(n.no)
            if ln_ is not None and all(l[1] == "raise" for l in ln_) and ln_:
                guards.append({"cond": subst(n.cond, V, HOLE), "holds": True, "else": sorted({l[2] for l in ln_})})
                n = skip_noise(n.yes)
            elif ly is not None and all(l[1] == "raise" for l in ly) and ly:
                guards.append({"cond": subst(n.cond, V, HOLE), "holds": False, "else": sorted({l[2] for l in ly})})
                n = skip_noise(n.no)
            else:
                break
        if n is None:
            return opaque("writer has no main arm")
        if n.kind == "if":
            cases = self.scalar_cases(n, V)
            if cases is not None:
                prefix, alts = cases
                return {"k": "scalar", "prefix": prefix, "conv": ["cases", alts], "null": null, "guards": guards}
            lp = self.lenpref_cases(n, V, null, guards)
            if lp is not None and lp.get("k") == "array-by-cases":
                item = self.match_repeat_body_writer(lp["node"].raw[2], V, vtype)
                g = list(guards) + [{"cond": ("raise-leaf",), "holds": True, "else": lp["raises"]}] if lp["raises"] else list(guards)
                return {"k": "array", "prefix": lp["prefix"], "bias": lp["bias"], "null": null, "item": item, "guards": g,
                        "by_cases": lp["by_cases"]}
            if lp is not None:
                return lp
            return opaque(f"writer forks on {show_term(n.cond)}")
        if n.kind == "ret":
            return {"k": "nothing", "null": null, "guards": guards}
        if n.kind == "raise":
            return {"k": "always-raises", "exc": n.exc, "null": null}
        ev = n.ev
        if ev[0] == "codec" and ev[1] == "P0" or ev[0] == "alloc":
            return self.match_entity_writer(paths, V, null)
        if ev[0] not in ("write", "wvarint") or ev[1] != "P0":
            return opaque(f"writer starts with {ev!r}")
        if ev[0] == "wvarint":
            prefix, targ = {"k": "varint"}, ev[2]
            probs = (n.raw[3] or {}).get("problems") if len(n.raw) > 3 and isinstance(n.raw[3], dict) else None
            if probs:
                prefix["noncanonical"] = f"{n.raw[3].get('fn')}: {probs[0]}"
        else:
            t = ev[2]
            if t[0] == "pack" and len(t) == 3:
                prefix, targ = {"k": "fixed", "fmt": t[1]}, t[2]
            elif t[0] == "k" and isinstance(t[1], bytes):
                # constant marker followed by an inner codec
                nxt = skip_noise(n.next)
                if nxt is not None and nxt.kind == "ev" and nxt.ev[0] == "codec" and nxt.ev[1] == "P0" and nxt.ev[3] == (V,):
                    r = skip_noise(nxt.next)
                    if r is not None and r.kind == "ret":
                        inner_t = self.strip_none(vtype)
                        return {"k": "marked", "present_bytes": t[1].hex(), "null": null, "guards": guards,
                                "inner": self.writer_desc(nxt.raw[2], inner_t)}
                cw = self.const_writes(n)
                if cw is not None:
                    return {"k": "constant", "bytes": cw.hex(), "null": null}
                return opaque("constant write followed by an unrecognised continuation")
            elif contains(t, V):
                # raw bytes derived from the value (uuid.bytes, the value itself)
                r = skip_noise(n.next)
                if r is not None and r.kind == "ret":
                    return {"k": "rawbytes", "conv": subst(t, V, HOLE), "null": null, "guards": guards}
                return opaque("raw write followed by more events")
            else:
                return opaque(f"write of {show_term(t)}")
        nxt = skip_noise(n.next)
        lens = set()

        def scan(t):
            if isinstance(t, tuple):
                if len(t) == 2 and t[0] == "len":
                    lens.add(t)
                for x in t:
                    scan(x)
        scan(targ)
        if len(lens) == 1 and nxt is not None and nxt.kind == "ev":
            L = next(iter(lens))
            lin = linear(targ, L)
            P = L[1]
            if lin is not None and lin[0] == 1:
                if nxt.ev[0] == "write" and nxt.ev[1] == "P0" and nxt.ev[2] == P:
                    r = skip_noise(nxt.next)
                    if r is None or r.kind != "ret":
                        return opaque("length-prefixed write followed by more events")
                    if P == V:
                        payload = {"k": "bytes"}
                    elif P[0] == "encode" and P[1] == V:
                        payload = {"k": "text", "codec": list(P[2])}
                    else:
                        return opaque(f"payload is {show_term(P)}")
                    return {"k": "lenpref", "prefix": prefix, "bias": lin[1], "null": null, "payload": payload, "guards": guards}
                if nxt.ev[0] == "repeat" and P == V and nxt.ev[1] == L:
                    item = self.match_repeat_body_writer(nxt.raw[2], V, vtype)
                    r = skip_noise(nxt.next)
                    if r is None or r.kind != "ret":
                        return opaque("array loop followed by more events")
                    return {"k": "array", "prefix": prefix, "bias": lin[1], "null": null, "item": item, "guards": guards}
        if nxt is not None and nxt.kind == "ret":
            return {"k": "scalar", "prefix": prefix, "conv": subst(targ, V, HOLE), "null": null, "guards": guards}
        return opaque(f"unrecognised writer continuation after {ev!r}")

    def scalar_cases(self, n, V):
        """An if-tree whose every leaf is one fixed/varint write of a value term followed by return:
        a scalar writer whose conversion is defined by cases.  Returns (prefix, [[conds, term], ...])."""
        out, prefixes = [], set()

        def walk(node, conds):
            node = skip_noise(node)
            if node is None:
                return False
            if node.kind == "if":
                return walk(node.yes, conds + [[subst(node.cond, V, HOLE), True]]) and \
                    walk(node.no, conds + [[subst(node.cond, V, HOLE), False]])
            if node.kind == "raise":
                out.append([conds, ["raise", node.exc]])
                return True
            if node.kind != "ev" or node.ev[1] != "P0":
                return False
            ev = node.ev
            if ev[0] == "wvarint":
                prefix, targ = ("varint",), ev[2]
            elif ev[0] == "write" and ev[2][0] == "pack" and len(ev[2]) == 3:
                prefix, targ = ("fixed", ev[2][1]), ev[2][2]
            else:
                return False
            nxt = skip_noise(node.next)
            if nxt is None or nxt.kind != "ret":
                return False
            prefixes.add(prefix)
            out.append([conds, subst(targ, V, HOLE)])
            return True
        if not walk(n, []) or len(prefixes) != 1:
            return None
        p = prefixes.pop()
        return ({"k": "varint"} if p[0] == "varint" else {"k": "fixed", "fmt": p[1]}), out

    def wire_items(self, t):
        """Normalise the argument of a write() into wire items:
        ('fixed', fmt, value) | ('byte', value) | ('const', bytes) | ('blob', term)."""
        if t[0] == "k" and isinstance(t[1], bytes):
            return [("const", t[1])]
        if t[0] == "pack" and len(t) == 3:
            return [("fixed", t[1], t[2])]
        if t[0] == "to_bytes" and len(t) == 5 and t[2] == ("k", 1):
            return [("byte", t[1])]
        if t[0] == "bytes-of":
            return [("byte", x) for x in t[1]]
        if t[0] == "add" and len(t) == 3:
            return self.wire_items(t[1]) + self.wire_items(t[2])
        return [("blob", t)]

    def lenpref_cases(self, n, V, null, guards):
        """A length-prefixed writer defined by cases (e.g. a single-byte fast path for short values):
        every returning leaf must write prefix(len(payload) + bias) followed by the payload.  A prefix
        written as one raw byte stands for a varint only while its value stays below 128."""
        leaves = []

        def walk(node, conds, items):
            node = skip_noise(node)
            if node is None:
                return False
            if node.kind == "if":
                return walk(node.yes, conds + [(node.cond, True)], items) and walk(node.no, conds + [(node.cond, False)], items)
            if node.kind == "raise":
                leaves.append((conds, None, node.exc))
                return True
            if node.kind == "ret":
                leaves.append((conds, items, None))
                return True
            if node.kind != "ev" or node.ev[1] != "P0":
                return False
            if node.ev[0] == "wvarint":
                return walk(node.next, conds, items + [("varint", node.ev[2])])
            if node.ev[0] == "write":
                return walk(node.next, conds, items + self.wire_items(node.ev[2]))
            return False
        arr = self.array_cases(n, V, null, guards)
        if arr is not None:
            return arr
        if not walk(n, [], []):
            return None
        shapes = []
        raises = sorted({e for c, it, e in leaves if it is None})
        for conds, items, exc in leaves:
            if items is None:
                continue
            if len(items) != 2 or items[1][0] != "blob" or items[0][0] not in ("varint", "fixed", "byte"):
                return None
            P = items[1][1]
            if P == V:
                payload = {"k": "bytes"}
            elif P[0] == "encode" and P[1] == V:
                payload = {"k": "text", "codec": list(P[2])}
            else:
                return None
            L = ("len", P)
            T = items[0][-1]
            lin = linear(T, L)
            if lin is None or lin[0] != 1:
                return None
            if items[0][0] == "fixed":
                prefix = {"k": "fixed", "fmt": items[0][1]}
            elif items[0][0] == "varint":
                prefix = {"k": "varint"}
            else:
                # one raw byte: bound of the prefix value under this leaf's conditions
                hi = None
                for c, pol in conds:
                    b = _upper_bound(c, pol, L)
                    if b is not None:
                        hi = b if hi is None else min(hi, b)
                top = None if hi is None else hi + lin[1]
                if top is not None and top <= 127:
                    prefix = {"k": "varint"}
                else:
                    prefix = {"k": "single-byte", "max_value": top,
                              "why": f"the length prefix is written as one raw byte for prefix values up to {top}; "
                                     f"a varint needs two bytes from 128 on"}
            shapes.append((dkey(prefix), lin[1], dkey(payload), prefix, payload))
        if not shapes:
            return None
        bad = [x for x in shapes if x[3]["k"] == "single-byte"]
        pick = bad[0] if bad else shapes[0]
        if any((x[1], x[2]) != (pick[1], pick[2]) for x in shapes):
            return None
        if not bad and any(x[0] != pick[0] for x in shapes):
            return None
        g = list(guards) + [{"cond": ("raise-leaf",), "holds": True, "else": raises}] if raises else list(guards)
        return {"k": "lenpref", "prefix": pick[3], "bias": pick[1], "null": null, "payload": pick[4], "guards": g, "by_cases": len(shapes)}

    def array_cases(self, n, V, null, guards, vtype=None):
        """An array writer whose count prefix is written by cases (a single-byte fast path for short arrays): every
        returning leaf must write prefix(len(V) + bias) and then run the one item loop over V.  As in lenpref_cases,
        a prefix written as one raw byte stands for a varint only while its value stays below 128."""
        leaves = []
        raises = set()

        def walk(node, conds, items):
            node = skip_noise(node)
            if node is None:
                return False
            if node.kind == "if":
                return walk(node.yes, conds + [(node.cond, True)], items) and walk(node.no, conds + [(node.cond, False)], items)
            if node.kind == "raise":
                leaves.append((conds, None))
                raises.add(node.exc)
                return True
            if node.kind == "ret":
                leaves.append((conds, items))
                return True
            if node.kind != "ev":
                return False
            if node.ev[0] == "repeat":
                return walk(node.next, conds, items + [("repeat", node)])
            if node.ev[1] != "P0":
                return False
            if node.ev[0] == "wvarint":
                return walk(node.next, conds, items + [("varint", node.ev[2])])
            if node.ev[0] == "write":
                return walk(node.next, conds, items + self.wire_items(node.ev[2]))
            return False
        if not walk(n, [], []):
            return None
        L = ("len", V)
        shapes = []
        for conds, items in leaves:
            if items is None:
                continue
            if len(items) != 2 or items[1][0] != "repeat" or items[0][0] not in ("varint", "fixed", "byte"):
                return None
            rep_node = items[1][1]
            if rep_node.ev[1] != L:
                return None
            lin = linear(items[0][-1], L)
            if lin is None or lin[0] != 1:
                return None
            if items[0][0] == "fixed":
                prefix = {"k": "fixed", "fmt": items[0][1]}
            elif items[0][0] == "varint":
                prefix = {"k": "varint"}
            else:
                hi = None
                for c, pol in conds:
                    b = _upper_bound(c, pol, L)
                    if b is not None:
                        hi = b if hi is None else min(hi, b)
                top = None if hi is None else hi + lin[1]
                if top is not None and top <= 127:
                    prefix = {"k": "varint"}
                else:
                    prefix = {"k": "single-byte", "max_value": top,
                              "why": f"the array count prefix is written as one raw byte for prefix values up to {top}; "
                                     f"a varint needs two bytes from 128 on"}
            shapes.append((dkey(prefix), lin[1], prefix, rep_node))
        if len(shapes) < 2:
            return None
        bad = [x for x in shapes if x[2]["k"] == "single-byte"]
        pick = bad[0] if bad else shapes[0]
        if any(x[1] != pick[1] for x in shapes) or (not bad and any(x[0] != pick[0] for x in shapes)):
            return None
        return {"k": "array-by-cases", "prefix": pick[2], "bias": pick[1], "node": pick[3], "by_cases": len(shapes),
                "raises": sorted(raises)}

    def strip_none(self, t):
        alts = [a for a in self.I.alts(t) if a is not LibClass.get("NoneType")]
        return alts[0] if len(alts) == 1 else UnionV(alts)

    def elem_type(self, vtype):
        t = self.strip_none(vtype)
        if isinstance(t, GenericV) and t.args:
            return t.args[0]
        return None

    def match_repeat_body_writer(self, body, V, vtype):
        if len(body) != 1:
            return opaque(f"array loop body has {len(body)} paths")
        facts, effs, outcome, val = body[0]
        cods = [e for e in effs if e[0] == "codec"]
        others = [e for e in effs if e[0] in ("read", "xread", "varint", "write", "wvarint", "seek", "tell", "stream-other", "alloc")]
        if len(cods) != 1 or others or outcome != "next":
            return opaque("array loop body is not a single item-writer call")
        arg = cods[0][3]
        if len(arg) != 1 or not isinstance(arg[0], Sym) or arg[0].term != ("elem", V):
            return opaque("array loop body does not pass the loop element to the item writer")
        et = self.elem_type(vtype)
        if et is None:
            return opaque("element type unknown")
        return self.writer_desc(cods[0][2], et)

    # ------------------------------------------------------------------ entity writers
    def match_entity_writer(self, paths, V, null):
        out = {"k": "entity", "null": null, "fields": None, "tagged_paths": [], "raises": [], "flexible": None}
        for p in paths:
            cn = Canon()
            evs = [(event_of(e, cn), e) for e in p.effects]
            evs = [(ev, e) for ev, e in evs if ev is not None]
            if p.outcome == "raise":
                out["raises"].append({"exc": short_exc(p.value.cls), "facts": [(cn.term(f[0]), f[1]) for f in p.facts]})
                continue
            # regular fields: leading codec events on P0
            i, fields = 0, []
            while i < len(evs) and evs[i][0][0] == "codec" and evs[i][0][1] == "P0":
                ev, e = evs[i]
                arg = ev[3]
                if len(arg) != 1 or not (isinstance(arg[0], tuple) and arg[0][0] == "attr" and arg[0][1] == V):
                    return opaque(f"entity writer passes {arg!r} to a field writer")
                fields.append({"attr": arg[0][2], "codec": e[2]})
                i += 1
            if not fields and any(x[0][0] == "codec" and x[0][1] != "P0" and len(x[0][3]) == 1 and
                                  (x[0][3][0] == V or (isinstance(x[0][3][0], tuple) and x[0][3][0][:2] == ("attr", V))) for x in evs) and \
                    not any(x[0][0] == "wvarint" and x[0][1] == "P0" for x in evs):
                # every field goes to a local buffer and the sink only receives that buffer's contents: a shape this matcher does not
                # describe (it would look like an entity without regular fields)
                return opaque("the entity is encoded into a local buffer first and copied to the sink in one write")
            sig = [(f["attr"], id(f["codec"])) for f in fields]
            if out["fields"] is None:
                out["fields"] = fields
            elif sig != [(f["attr"], id(f["codec"])) for f in out["fields"]]:
                return opaque("regular field writes differ between paths")
            rest = evs[i:]
            if not rest:
                out["flexible"] = False if out["flexible"] is None else out["flexible"]
                continue
            out["flexible"] = True
            tp = self.match_tagged_section_writer(rest, p, V, cn)
            out["tagged_paths"].append(tp)
        return out

    def match_tagged_section_writer(self, evs, p, V, cn):
        """Events after the regular fields: staged tagged fields, count, flush."""
        info = {"emitted": [], "count_bytes": None, "staged_flush": False, "problems": [], "elided": [], "order": []}
        stage = None  # the tag buffer
        pending = {}  # value buffers: stream -> dict
        i = 0
        frames = {}
        p0_writes = []
        for ev, e in evs:
            k = ev[0]
            if k == "alloc":
                if stage is None and ev[2] is None and not any(x[0][0] == "codec" and x[0][1] == ev[1] for x in evs):
                    stage = ev[1]
                    continue
                pending[ev[1]] = {"codec": None, "attr": None, "closed": False}
                if stage is None:
                    stage = None
            elif k == "codec" and ev[1] in pending:
                arg = ev[3]
                if len(arg) == 1 and isinstance(arg[0], tuple) and arg[0][0] == "attr" and arg[0][1] == V:
                    pending[ev[1]].update(codec=e[2], attr=arg[0][2])
                else:
                    info["problems"].append(f"tagged value writer called with {arg!r}")
            elif k in ("getvalue", "close", "tell"):
                pass
            elif k in ("wvarint", "write") and ev[1] != "P0":
                frames.setdefault(ev[1], []).append(ev)
            elif k in ("wvarint", "write") and ev[1] == "P0":
                p0_writes.append(ev)
            else:
                info["problems"].append(f"unexpected event {ev!r} in tagged section")
        # the staging buffer is the one that received framed writes; the other spelling stages every field in a buffer of its own and
        # hands the sink the concatenation of their contents (b"".join([...])) -- then the frames are read in concatenation order
        stages = list(frames)
        joined = None
        if len(p0_writes) == 2 and p0_writes[1][0] == "write" and isinstance(p0_writes[1][2], tuple) and p0_writes[1][2][:2] == ("join", ("k", b"")):
            joined = list(p0_writes[1][2][2])
            if all(isinstance(x, tuple) and x[:1] == ("contents",) for x in joined) and sorted(str(x[1]) for x in joined) == sorted(str(x) for x in stages) \
                    and len(set(str(x[1]) for x in joined)) == len(joined):
                stages = [x[1] for x in joined]
            else:
                info["problems"].append(f"the bytes handed to the sink are joined from {joined!r}, not from the contents of the staging buffers")
                joined = None
        if len(stages) > 1 and joined is None:
            info["problems"].append("several staging buffers")
        fr = [ev_ for st_ in (stages if joined is not None else stages[:1]) for ev_ in frames.get(st_, [])]
        j = 0
        while j + 3 <= len(fr):
            tag_ev, size_ev, data_ev = fr[j], fr[j + 1], fr[j + 2]
            tag = None
            if tag_ev[0] == "wvarint" and tag_ev[2][0] == "k" and isinstance(tag_ev[2][1], int):
                tag = tag_ev[2][1]
            elif tag_ev[0] == "write" and tag_ev[2][0] == "k" and isinstance(tag_ev[2][1], bytes):
                tag = unleb128(tag_ev[2][1])  # a constant tag was folded to its bytes
            ok = tag is not None and size_ev[0] == "wvarint" and data_ev[0] == "write"
            if not ok:
                info["problems"].append(f"tagged frame is not (varint tag, varint size, data): {tag_ev!r} {size_ev!r} {data_ev!r}")
                break
            data = data_ev[2]
            size_ok = size_ev[2] == ("len", data)
            src = None
            if data[0] == "contents":
                src = pending.get(data[1])
            info["emitted"].append({"tag": tag, "size_is_len_of_data": size_ok, "attr": src["attr"] if src else None,
                                    "codec": src["codec"] if src else None})
            j += 3
        if j != len(fr):
            info["problems"].append(f"{len(fr) - j} stray staged write(s)")
        # P0: count then the staged bytes
        if len(p0_writes) == 2:
            c, flush = p0_writes
            if c[0] == "wvarint" and c[2][0] == "k":
                info["count"] = c[2][1]
            elif c[0] == "write" and c[2][0] == "k" and isinstance(c[2][1], bytes):
                info["count_bytes"] = c[2][1].hex()
                b = c[2][1]
                info["count"] = b[0] if len(b) == 1 and b[0] < 0x80 else None
            else:
                info["problems"].append(f"tag count written as {c!r}")
            if flush[0] == "write" and flush[2][0] == "contents" and (not stages or flush[2][1] == stages[0] or not fr):
                info["staged_flush"] = True
            elif joined is not None:
                info["staged_flush"] = True  # every staging buffer's contents, once each, in frame order (checked above)
            elif flush[0] == "write" and flush[2] == ("k", b"") and not fr:
                info["staged_flush"] = True  # nothing was staged: the empty flush is what an empty staging buffer gives
            else:
                info["problems"].append(f"staged bytes flushed as {flush!r}")
        else:
            info["problems"].append(f"{len(p0_writes)} writes to the sink in the tagged section (expected count + staged bytes)")
        info["elided"] = [(cn.term(f[0]), f[1]) for f in p.facts if f[0][0] in ("eq", "and_", "or_", "is") or f[0][0] == "not"]
        return info
