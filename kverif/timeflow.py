"""E6 -- numeric exactness and time-granularity analysis on conversion terms.

Works on the `conv` terms of codec descriptors (JSON lists, hole ["X"] = the wire integer
on the read side / the value on the write side) and on predicate facts.  Abstract state of
a quantity: carrier (int, float, timedelta, datetime), unit (ms, s), granularity
(1 ms, 1 us, 1 s), exactness, and the chain of operations that produced it.

Rules (DESIGN.md, E6) -- each a necessary condition with a concrete failing value:
  T-gran     nothing on a decode path of a millisecond field coarsens beyond 1 ms
  T-float64  a 64-bit millisecond *duration* never passes through a float
  T-trunc    an inexact float is converted to an integer by rounding, never truncation
"""
from __future__ import annotations


def is_hole(t):
    return t == ["X"]


def k_const(t):
    if isinstance(t, list) and len(t) == 2 and t[0] == "k":
        return t[1]
    return None


EPOCH_REPR = "datetime.datetime(1970, 1, 1, 0, 0, tzinfo=datetime.timezone.utc)"


def epoch_issue(c):
    """The constant a point in time is measured from must be 1970-01-01T00:00:00 UTC, as an aware datetime."""
    if c is None:
        return []  # not a plain constant (e.g. the local-time form below, which carries its own issue)
    if isinstance(c, str) and c.replace(" ", "") == EPOCH_REPR.replace(" ", ""):
        return []
    return [f"T-epoch: time is measured from {c}, not from the aware UTC epoch 1970-01-01T00:00:00+00:00"]


class Q:
    """Abstract time quantity."""

    def __init__(self, carrier, unit=None, gran=None, exact=True, via_float=False, ops=None, issues=None, trunc=None):
        self.carrier, self.unit, self.gran, self.exact, self.via_float = carrier, unit, gran, exact, via_float
        self.ops = list(ops or [])
        self.issues = list(issues or [])
        self.trunc = trunc

    def then(self, op, **kw):
        q = Q(self.carrier, self.unit, self.gran, self.exact, self.via_float, self.ops + [op], self.issues, self.trunc)
        for k, v in kw.items():
            setattr(q, k, v)
        return q

    def show(self):
        return f"{self.carrier}[{self.unit}, gran={self.gran}, exact={self.exact}, via_float={self.via_float}] via {' -> '.join(self.ops)}"


GRAN_ORDER = {"1us": 0, "1ms": 1, "1s": 2}


def analyse(t, hole: Q) -> Q | None:
    """Abstract value of conversion term t given the abstract value of the hole."""
    if is_hole(t):
        return hole
    if not isinstance(t, list) or not t:
        return None
    h = t[0]
    if h == "k":
        return Q("const")
    if h == "cases":
        qs = []
        for conds, term in t[1]:
            if isinstance(term, list) and term and term[0] == "raise":
                continue
            q = analyse(term, hole)
            if q is None:
                return None
            qs.append(q)
        if not qs:
            return None
        first = qs[0]
        if any((q.carrier, q.unit) != (first.carrier, first.unit) for q in qs):
            return None
        merged = first.then("(by cases)")
        merged.via_float = any(q.via_float for q in qs)
        merged.exact = all(q.exact for q in qs)
        truncs = {q.trunc for q in qs}
        merged.trunc = "truncate" if "truncate" in truncs else first.trunc
        merged.ops = [o for q in qs for o in q.ops]
        return merged
    if h == "localtime":
        return Q("const", ops=["naive datetime read in the local time zone"],
                 issues=[f"T-epoch: {t[1]}() of the naive {show(t[2]) if len(t) > 2 else 'datetime'} depends on the time zone of the process "
                         f"that imports kio: under TZ=America/New_York every value is off by five hours"])
    if h == "add" and len(t) == 3:
        # days * 86_400_000 + seconds * 1000 + microseconds // 1000 of ONE timedelta: its whole milliseconds, exactly (a normalised
        # timedelta has 0 <= seconds < 86400 and 0 <= microseconds < 10**6, only days is signed, so flooring the last part floors the whole)
        parts = []

        def flat(x):
            if isinstance(x, list) and len(x) == 3 and x[0] == "add":
                flat(x[1])
                flat(x[2])
            else:
                parts.append(x)
        flat(t)
        comp, base = {}, None
        for x in parts:
            if not (isinstance(x, list) and len(x) == 3 and x[0] in ("mul", "floordiv")):
                comp = None
                break
            u, c = (x[1], k_const(x[2])) if k_const(x[2]) is not None else (x[2], k_const(x[1])) if x[0] == "mul" else (None, None)
            if not (isinstance(u, list) and len(u) == 3 and u[0] == "attr" and isinstance(c, int)) or (base is not None and u[1] != base) or u[2] in comp:
                comp = None
                break
            base = u[1]
            comp[u[2]] = (x[0], c)
        if comp == {"days": ("mul", 86400000), "seconds": ("mul", 1000), "microseconds": ("floordiv", 1000)}:
            q = analyse(base, hole)
            if q is not None and q.carrier == "timedelta":
                return q.then("days*86400000 + seconds*1000 + microseconds//1000 (integer floor)", carrier="int", unit="ms", trunc="floor-exact")
    if h in ("div", "mul", "floordiv", "add", "sub", "mod") and len(t) == 3:
        a, b = analyse(t[1], hole), analyse(t[2], hole)
        ca, cb = k_const(t[1]), k_const(t[2])
        if a is None or b is None:
            return None
        x, c = (a, cb) if cb is not None else (b, ca) if ca is not None else (None, None)
        if h == "div" and a.carrier == "timedelta" and b.carrier in ("const", "timedelta"):
            # timedelta / timedelta is a true (float) division
            return a.then("timedelta / timedelta (float)", carrier="float", unit="ms", exact=False, via_float=True)
        if h == "div" and x is a and isinstance(c, (int, float)):
            # true division of an integer/float quantity: result is a float, inexact
            unit = {("ms", 1000): "s", ("us", 1000): "ms", ("us", 1000000): "s"}.get((x.unit, c), None)
            return x.then(f"/ {c}", carrier="float", unit=unit, exact=False, via_float=True)
        if h == "mul" and x is not None and isinstance(c, (int, float)):
            unit = {("s", 1000): "ms", ("ms", 1000): "us", ("s", 1000000): "us"}.get((x.unit, c), None)
            if x.carrier == "float":
                return x.then(f"* {c}", unit=unit, exact=False)
            return x.then(f"* {c}", unit=unit)
        if h == "floordiv":
            # timedelta // timedelta(milliseconds=1) or int // int: exact integer floor
            if a.carrier in ("timedelta", "int") and b.carrier in ("const", "timedelta"):
                unit = "ms" if a.carrier == "timedelta" else a.unit
                return a.then("// (integer floor)", carrier="int", unit=unit, trunc="floor-exact")
            if a.carrier == "float":
                return a.then("// on a float", carrier="float", exact=False, trunc="floor")
        if h in ("add", "sub"):
            if a.carrier == "const" and b.carrier == "timedelta":
                r = b.then("epoch + timedelta", carrier="datetime", gran=b.gran)
                r.issues = list(r.issues) + list(a.issues) + epoch_issue(ca)
                return r
            if a.carrier == "datetime" and b.carrier in ("const", "datetime"):
                r = a.then("datetime - epoch", carrier="timedelta")
                r.issues = list(r.issues) + list(b.issues) + (epoch_issue(cb) if b.carrier == "const" else [])
                return r
            if a.carrier == "const":
                return b.then(f"{h} const")
            if b.carrier == "const":
                return a.then(f"{h} const")
            if a.carrier == b.carrier:
                r = a.then(f"{h}")
                r.issues = list(a.issues) + [i for i in b.issues if i not in a.issues]
                r.via_float = a.via_float or b.via_float
                r.ops = a.ops + [o for o in b.ops if o not in a.ops] + [h]
                return r
        return None
    if h == "timedelta":
        # ["timedelta", [["milliseconds", X]]]
        kws = t[1] if len(t) > 1 else []
        for kw in kws:
            if isinstance(kw, list) and len(kw) == 2 and isinstance(kw[0], str):
                inner = analyse(kw[1], hole)
                if inner is None:
                    return None
                unit = {"milliseconds": "ms", "seconds": "s", "microseconds": "us"}.get(kw[0])
                if inner.carrier == "float":
                    return inner.then(f"timedelta({kw[0]}=float)", carrier="timedelta", unit=unit, gran="1us", exact=False)
                gran = {"ms": "1ms", "s": "1s", "us": "1us"}.get(unit)
                return inner.then(f"timedelta({kw[0]}=int)", carrier="timedelta", unit=unit, gran=gran)
        return None
    if h == "fromtimestamp":
        args = t[1]
        inner = analyse(args[0], hole) if args else None
        if inner is None:
            return None
        if inner.carrier == "float":
            return inner.then("fromtimestamp(float)", carrier="datetime", gran="1us")
        return inner.then("fromtimestamp(int)", carrier="datetime", gran="1s" if inner.unit == "s" else inner.gran)
    if h == "replace":
        inner = analyse(t[1], hole)
        if inner is None:
            return None
        q = inner
        for kw in t[2]:
            if isinstance(kw, list) and kw and kw[0] == "microsecond":
                c = k_const(kw[1])
                if c == 0:
                    q = q.then("replace(microsecond=0)", gran="1s")
                elif c is not None:
                    q = q.then(f"replace(microsecond={c})", gran="1s", issues=q.issues + ["microsecond set to a non-zero constant"])
                elif _is_ms_truncation(kw[1]):
                    q = q.then("replace(microsecond=us - us % 1000)", gran="1ms" if GRAN_ORDER.get(q.gran, 0) <= 1 else q.gran)
                    if q.via_float:
                        q.issues = q.issues + ["T-trunc: a float-derived datetime is floored to the millisecond"]
                else:
                    q = q.then("replace(microsecond=<expr>)", gran=None)
            elif isinstance(kw, list) and kw and kw[0] == "second":
                q = q.then("replace(second=..)", gran=None, issues=q.issues + ["seconds replaced"])
        return q
    if h == "total_seconds":
        inner = analyse(t[1], hole)
        return None if inner is None else inner.then("total_seconds()", carrier="float", unit="s", exact=False, via_float=True)
    if h == "timestamp":
        inner = analyse(t[1], hole)
        return None if inner is None else inner.then("timestamp()", carrier="float", unit="s", exact=False, via_float=True)
    if h == "round":
        inner = analyse(t[1], hole)
        if inner is None:
            return None
        return inner.then("round()", carrier="int", trunc="nearest" if inner.carrier == "float" else inner.trunc)
    if h in ("int", "math.floor", "math.trunc", "math.ceil"):
        inner = analyse(t[1], hole)
        if inner is None:
            return None
        if inner.carrier == "float":
            return inner.then(f"{h}()", carrier="int", trunc="truncate")
        return inner.then(f"{h}()", carrier="int")
    if h == "enum-lookup":
        return Q("enum", ops=["enum lookup"])
    if h == "attr":
        inner = analyse(t[1], hole)
        if inner is None:
            return None
        if inner.carrier == "datetime" and len(t) == 3 and t[2] in ("microsecond", "second", "minute", "hour"):
            unit = {"microsecond": "us", "second": "s"}.get(t[2])
            return inner.then(f".{t[2]} (wall-clock field)", carrier="int", unit=unit, issues=inner.issues + [
                f"T-wallclock: .{t[2]} is a field of the local (wall-clock) time of the datetime's own zone, timestamp() is the instant: "
                f"they only agree when the UTC offset is a whole number of {'seconds' if t[2] == 'microsecond' else 'minutes'} -- "
                f"with tzinfo=timezone(timedelta(milliseconds=250)) the value is written 750 ms off"])
        return inner.then(f".{t[2]}")
    if h in ("max", "min"):
        return analyse(t[1], hole)
    if h == "repeat" and len(t) == 3 and isinstance(t[2], list) and len(t[2]) == 1:
        return analyse(t[2][0], hole)  # a sequence of values of one shape: analyse the element
    return None


def _is_ms_truncation(t) -> bool:
    # microsecond - microsecond % 1000   |   microsecond // 1000 * 1000
    if isinstance(t, list) and len(t) == 3 and t[0] == "sub":
        a, b = t[1], t[2]
        if isinstance(b, list) and len(b) == 3 and b[0] == "mod" and b[1] == a and k_const(b[2]) == 1000:
            return isinstance(a, list) and a[0] == "attr" and a[2] == "microsecond"
    if isinstance(t, list) and len(t) == 3 and t[0] == "mul" and k_const(t[2]) == 1000:
        a = t[1]
        return isinstance(a, list) and len(a) == 3 and a[0] == "floordiv" and k_const(a[2]) == 1000 \
            and isinstance(a[1], list) and a[1][0] == "attr" and a[1][2] == "microsecond"
    return False


def find_nodes(t, head):
    out = []
    if isinstance(t, list):
        if t and t[0] == head:
            out.append(t)
        for x in t:
            out.extend(find_nodes(x, head))
    return out


def show(t) -> str:
    if is_hole(t):
        return "X"
    if isinstance(t, list) and len(t) == 2 and t[0] == "cases":
        return "cases(" + " | ".join(show(term) for _, term in t[1]) + ")"
    if isinstance(t, list) and t and not isinstance(t[0], str):
        return "(" + ", ".join(show(x) for x in t) + ")"
    if isinstance(t, list) and t:
        if t[0] == "k":
            return repr(t[1])
        ops = {"div": "/", "mul": "*", "add": "+", "sub": "-", "floordiv": "//", "mod": "%", "ge": ">=", "eq": "==", "le": "<="}
        if t[0] in ops and len(t) == 3:
            return f"({show(t[1])} {ops[t[0]]} {show(t[2])})"
        if t[0] == "attr" and len(t) == 3:
            return f"{show(t[1])}.{t[2]}"
        if t[0] == "obj":
            return str(t[1])
        return f"{t[0]}(" + ", ".join(show(x) for x in t[1:]) + ")"
    return repr(t)


def read_side(conv, wire_bits: int, kind: str):
    """Analyse a reader conversion of a millisecond wire integer. kind: 'duration' | 'timestamp'.
    Returns (Q | None, findings) where findings are (rule, message, offending_op)."""
    q = analyse(conv, Q("int", unit="ms", gran="1ms", ops=[f"int{wire_bits} ms"]))
    out = []
    if q is None:
        return None, out
    if q.gran is not None and GRAN_ORDER.get(q.gran, 0) > GRAN_ORDER["1ms"]:
        op = next((o for o in q.ops if "replace(" in o or "fromtimestamp(int)" in o), q.ops[-1])
        out.append(("T-gran", f"decode path coarsens a millisecond wire value to {q.gran}: {' -> '.join(q.ops)}; "
                              f"wire value 1500 decodes to 1 s and cannot be re-encoded to 1500", op))
    if kind == "duration" and wire_bits == 64 and q.via_float:
        out.append(("T-float64", f"64-bit millisecond duration passes through a float on decode: {' -> '.join(q.ops)}",
                    next(o for o in q.ops if "/" in o or "float" in o)))
    for iss in q.issues:
        if iss.startswith("T-epoch"):
            out.append(("T-epoch", iss[9:], "epoch"))
        if iss.startswith("T-trunc"):
            out.append(("T-trunc", f"{iss[9:]}: {' -> '.join(q.ops)}; beyond 2**33 s a double is coarser than 1 us, so "
                                   f"8589934592001 ms lands below the millisecond boundary and decodes as ...000", "replace("))
    return q, out


def write_side(conv, wire_bits: int, kind: str):
    """Analyse a writer conversion of a duration/timestamp value to a millisecond integer."""
    carrier = "timedelta" if kind == "duration" else "datetime"
    q = analyse(conv, Q(carrier, unit=None, gran="1us", ops=[carrier]))
    out = []
    if q is None:
        return None, out
    if kind == "duration" and wire_bits == 64 and q.via_float:
        out.append(("T-float64", f"64-bit millisecond duration passes through a float on encode: {' -> '.join(q.ops)}; "
                                 f"timedelta(milliseconds=2**53+1) is written as 2**53",
                    next(o for o in q.ops if "total_seconds" in o or "timestamp" in o or "/" in o)))
    if q.trunc == "truncate" and q.via_float:
        out.append(("T-trunc", f"an inexact float is truncated to an integer: {' -> '.join(q.ops)}; "
                               f"1.001 s * 1000 = 1000.9999999999999 -> 1000",
                    next(o for o in q.ops if o.startswith(("int", "math."))) ))
    for iss in q.issues:
        if iss.startswith("T-epoch"):
            out.append(("T-epoch", iss[9:], "epoch"))
        if iss.startswith("T-wallclock"):
            out.append(("T-epoch", iss[13:], "wall-clock field"))
    if q.carrier != "int":
        out.append(("T-int", f"conversion does not end in an integer: {q.show()}", q.ops[-1] if q.ops else ""))
    elif q.unit not in ("ms", None):
        out.append(("T-unit", f"conversion yields unit {q.unit}, the wire carries milliseconds: {q.show()}", q.ops[-1] if q.ops else ""))
    return q, out
