"""Per-class codec plans and wire grammars: for every generated entity class, the reader
and writer closures that `entity_reader` / `entity_writer` build (obtained by evaluating the
factories on the static schema model), summarised into R(T) and W(T)."""
from __future__ import annotations

import time

from .analyzer import Analyzer
from .core import AnalysisError
from .descr import Describer, dkey, opaque
from .interp_base import *  # noqa: F401,F403
from .interp_base import Limit, Raised, Run


class ClassPlan:
    __slots__ = ("key", "cls", "reader", "writer", "r", "w", "error", "fields", "tagged", "flexible")

    def __init__(self, key):
        self.key = key
        self.cls = self.reader = self.writer = self.r = self.w = None
        self.error = None
        self.fields = []  # regular fields in wire order: dict(name, r_codec, w_codec, r_desc, w_desc, ...)
        self.tagged = {}
        self.flexible = None


class Plans:
    def __init__(self, ctx):
        self.ctx = ctx
        self.I = ctx.interp
        self.A = Analyzer(self.I)
        self.D = Describer(self.A)
        self.plans: dict[str, ClassPlan] = {}
        self._mods = None
        self.t_build = 0.0
        self.factory_log: dict = {"allocs": [], "mutations": [], "captured_mutable": []}

    # the four anchors of the reflective codec -------------------------------------------------
    def anchors(self):
        if self._mods is None:
            I = self.I
            try:
                pm = I.module("kio.serial._parse")
                sm = I.module("kio.serial._serialize")
            except Raised as r:
                raise AnalysisError(f"importing kio.serial raises {r.exc!r} at {r.site}")
            er, ew = pm.env.vars.get("entity_reader"), sm.env.vars.get("entity_writer")
            if not isinstance(er, FuncV) or not isinstance(ew, FuncV):
                raise AnalysisError("anchor vanished: kio.serial._parse.entity_reader / kio.serial._serialize.entity_writer")
            self._mods = (er, ew)
        return self._mods

    def plan(self, key: str) -> ClassPlan:
        if key in self.plans:
            return self.plans[key]
        t0 = time.time()
        p = ClassPlan(key)
        self.plans[key] = p
        I = self.I
        er, ew = self.anchors()
        try:
            cls = I.entity_class(key)
            p.cls = cls
            try:
                p.reader = self.run_factory(er, cls, "reader")
            except Raised as r:
                p.error = {"side": "reader", "exc": short_exc(r.cls), "msg": repr(r.exc), "site": r.site}
                return p
            try:
                p.writer = self.run_factory(ew, cls, "writer")
            except Raised as r:
                p.error = {"side": "writer", "exc": short_exc(r.cls), "msg": repr(r.exc), "site": r.site}
                return p
            p.r = self.D.reader_desc(p.reader)
            p.w = self.D.writer_desc(p.writer, cls)
            self.link(p)
        except Limit as e:
            p.error = {"side": "analysis", "exc": "Limit", "msg": str(e), "site": ""}
        finally:
            self.t_build += time.time() - t0
        return p

    def run_factory(self, factory, cls, side):
        """Call the cached factory; whatever it allocates or mutates while building the plan is
        state that outlives the call (E4: allocation scope / captured state)."""
        from .values import _ids
        base = next(_ids)
        run = Run()
        clo = self.I.call(factory, [cls], {}, run, None)
        for e in run.effects:
            if e[0] == "alloc":
                self.factory_log["allocs"].append([side, cls.ref, e[2]])
            elif e[0] == "mutate" and getattr(e[1], "uid", base + 1) < base:
                self.factory_log["mutations"].append([side, cls.ref, e[3], e[2]])
        return clo

    def link(self, p: ClassPlan):
        """Tie reader variables / writer attributes to field names."""
        I, D = self.I, self.D
        r, w = p.r, p.w
        flds = {f.name: f for f in I.fields_of(p.cls)}
        if r.get("k") != "entity" or w.get("k") != "entity":
            return
        res = r.get("result")
        var_to_name, tagged_by_name = {}, {}
        if isinstance(res, InstV):
            for name, v in res.attrs.items():
                if isinstance(v, Sym) and v.term[0] == "codec":
                    var_to_name[v.term] = name
                elif isinstance(v, Sym) and v.term[0] == "maybe":
                    tagged_by_name[name] = v
        # regular fields, reader order
        rfields = []
        for f in r["fields"]:
            raw = f["codec"]
            rfields.append(raw)
        # the canonical var of the i-th codec event is ('c', i+1); result attrs hold raw terms -> use order
        raw_terms = [e for e in (res.attrs.values() if isinstance(res, InstV) else [])]
        r_order = []
        if isinstance(res, InstV):
            # recover order: codec wire counters increase in program order
            regs = sorted(((v.term[1], name) for name, v in res.attrs.items() if isinstance(v, Sym) and v.term[0] == "codec"))
            r_order = [name for _, name in regs]
        w_order = [f["attr"] for f in (w["fields"] or [])]
        p.flexible = bool(w.get("flexible"))
        names = list(dict.fromkeys(r_order + w_order))
        for name in names:
            rec = {"name": name, "r_index": r_order.index(name) if name in r_order else None,
                   "w_index": w_order.index(name) if name in w_order else None, "r_codec": None, "w_codec": None,
                   "r_desc": None, "w_desc": None, "field": flds.get(name)}
            if rec["r_index"] is not None and rec["r_index"] < len(r["fields"]):
                rec["r_codec"] = r["fields"][rec["r_index"]]["codec"]
                rec["r_desc"] = D.reader_desc(rec["r_codec"])
            if rec["w_index"] is not None:
                rec["w_codec"] = w["fields"][rec["w_index"]]["codec"]
                if rec["field"] is not None:
                    rec["w_desc"] = D.writer_desc(rec["w_codec"], rec["field"].type)
            p.fields.append(rec)
        # tagged fields
        tg = r.get("tagged")
        if tg:
            for tag, arm in tg["arms"].items():
                rec = {"tag": tag, "r_codec": arm.get("codec"), "r_desc": None, "name": None, "r_default": MISSING,
                       "w_codec": None, "w_desc": None, "field": None, "arm": arm}
                if arm.get("codec") is not None:
                    rec["r_desc"] = D.reader_desc(arm["codec"])
                p.tagged[tag] = rec
            # names: a tagged field's result is maybe(stored codec results, default)
            for name, v in tagged_by_name.items():
                alts = v.info.get("alts") or []
                stored = [a for a in alts[:-1] if isinstance(a, Sym)]
                default = alts[-1] if alts else MISSING
                hit = None
                for tag, rec in p.tagged.items():
                    c = rec["r_codec"]
                    if c is not None and any(s.info.get("codec") is c for s in stored):
                        if hit is None or rec["name"] is None:
                            hit = rec
                            if rec["name"] is None:
                                break
                if hit is not None:
                    hit["name"], hit["r_default"], hit["field"] = name, default, flds.get(name)
        for tp in w.get("tagged_paths") or []:
            for em in tp["emitted"]:
                rec = p.tagged.setdefault(em["tag"], {"tag": em["tag"], "r_codec": None, "r_desc": None, "name": None,
                                                     "r_default": MISSING, "w_codec": None, "w_desc": None, "field": None,
                                                     "arm": None})
                if rec["w_codec"] is None and em["codec"] is not None:
                    rec["w_codec"] = em["codec"]
                    rec["w_name"] = em["attr"]
                    f = flds.get(em["attr"])
                    if f is not None:
                        rec["w_desc"] = D.writer_desc(em["codec"], f.type)
                        rec.setdefault("field", f)
                        if rec["field"] is None:
                            rec["field"] = f

    def all_keys(self):
        return sorted(self.ctx.schema.classes)

    def build_all(self, progress=None):
        for i, k in enumerate(self.all_keys()):
            self.plan(k)
        return self.plans


# ------------------------------------------------------------------------------- export

def jsonable(x):
    if isinstance(x, dict):
        return {str(k): jsonable(v) for k, v in x.items() if not (isinstance(k, str) and k in ("result", "raw_var", "field", "arm"))}
    if isinstance(x, (list, tuple)):
        return [jsonable(v) for v in x]
    if isinstance(x, (set, frozenset)):
        return sorted((jsonable(v) for v in x), key=repr)
    if isinstance(x, bytes):
        return {"bytes": x.hex()}
    if isinstance(x, FuncV):
        return {"fn": x.ref, "line": x.node.lineno}
    if isinstance(x, (PartialV, InstV)) and callable_target(x) is not None and not (isinstance(x, InstV) and (x.cls.entity is not None or "dataclass" in x.cls.flags)):
        return {"fn": callable_ref(x), "line": callable_line(x), "via": "partial" if isinstance(x, PartialV) else f"{x.cls.name} instance"}
    if isinstance(x, Sym):
        return {"term": jsonable(x.term)}
    if isinstance(x, MissingType):
        return {"MISSING": True}
    if isinstance(x, Obj):
        return {"term": jsonable(term_of(x))}
    if isinstance(x, float) and (x != x or x in (float("inf"), float("-inf"))):
        return repr(x)
    if x is Ellipsis:
        return "..."
    if isinstance(x, (int, str, bool, float)) or x is None:
        return x
    return repr(x)


def export_desc(d):
    """Descriptor -> JSON; nested entity grammars become references to their class."""
    if d is None:
        return None
    k = d.get("k")
    if k == "entity":
        return {"k": "struct", "class": d.get("class"), "null": jsonable(d.get("null"))}
    out = {}
    for key, v in d.items():
        if key in ("item", "inner"):
            out[key] = export_desc(v)
        elif key in ("result", "raw_var"):
            continue
        else:
            out[key] = jsonable(v)
    return out


def export_plan(p: ClassPlan) -> dict:
    out = {"key": p.key, "error": p.error, "flexible": p.flexible, "fields": [], "tagged": {}, "reader": None, "writer": None}
    if p.error:
        return out
    if p.r.get("k") != "entity" or p.w.get("k") != "entity":
        out["error"] = {"side": "analysis", "exc": "Limit", "site": "",
                        "msg": f"entity closures not recognised: reader {p.r.get('k')}: {p.r.get('reason')}; writer {p.w.get('k')}: {p.w.get('reason')}"}
        return out
    for f in p.fields:
        out["fields"].append({"name": f["name"], "r_index": f["r_index"], "w_index": f["w_index"],
                              "r_codec": jsonable(f["r_codec"]), "w_codec": jsonable(f["w_codec"]),
                              "r": export_desc(f["r_desc"]), "w": export_desc(f["w_desc"])})
    for tag, t in p.tagged.items():
        out["tagged"][str(tag)] = {"tag": tag, "name": t.get("name"), "w_name": t.get("w_name"),
                                   "r_codec": jsonable(t.get("r_codec")), "w_codec": jsonable(t.get("w_codec")),
                                   "r": export_desc(t.get("r_desc")), "w": export_desc(t.get("w_desc")),
                                   "r_default": ({"MISSING": True} if isinstance(t.get("r_default"), MissingType)
                                                 else {"term": jsonable(term_of(t.get("r_default")))}),
                                   "arm_problem": (t.get("arm") or {}).get("opaque")}
    tg = p.r.get("tagged")
    out["reader"] = {"tagged": None if tg is None else {"count_max_bytes": tg["count_max_bytes"], "miss": jsonable(tg["miss"]),
                                                      "iteration_prefix": tg["iteration_prefix"], "size_used": tg["size_used"],
                                                      "tags": sorted(tg["arms"])},
                     "raises": p.r.get("raises"), "class": p.r.get("class"),
                     "results": [{"conds": jsonable(r["conds"]),
                                  "fields": {k: jsonable(term_of(v)) for k, v in r["value"].attrs.items()} if isinstance(r["value"], InstV) else None}
                                 for r in (p.r.get("results") or [])],
                     "result_fields": sorted(p.r["result"].attrs) if isinstance(p.r.get("result"), InstV) else None,
                     "codec": jsonable(p.reader)}
    out["writer"] = {"flexible": p.w.get("flexible"), "raises": jsonable(p.w.get("raises")),
                     "tagged_paths": [{"emitted": [{"tag": e["tag"], "attr": e["attr"], "size_is_len_of_data": e["size_is_len_of_data"]}
                                                   for e in tp["emitted"]],
                                       "count": tp.get("count"), "staged_flush": tp["staged_flush"], "problems": tp["problems"],
                                       "elided": jsonable(tp["elided"])} for tp in p.w.get("tagged_paths") or []],
                     "codec": jsonable(p.writer)}
    return out


def _worker(keys):
    from .ctx import Ctx
    ctx = Ctx()
    P = Plans(ctx)
    out = {}
    for k in keys:
        out[k] = export_plan(P.plan(k))
    return out, P.A.stats


def build_bundle(ctx, jobs=None) -> dict:
    """Plans of all classes, built in parallel (classes of one module stay together so that
    memoised nested plans are shared)."""
    import multiprocessing
    import os
    keys = sorted(ctx.schema.classes)
    bymod = {}
    for k in keys:
        bymod.setdefault(k.split(":")[0].rsplit(".", 2)[0], []).append(k)  # group by API package
    groups = sorted(bymod.values(), key=len, reverse=True)
    jobs = jobs or min(16, os.cpu_count() or 1)
    buckets = [[] for _ in range(jobs)]
    for g in groups:
        min(buckets, key=len).extend(g)
    buckets = [b for b in buckets if b]
    stats = {}
    classes = {}
    if len(buckets) > 1:
        with multiprocessing.Pool(len(buckets)) as pool:
            results = pool.map(_worker, buckets)
    else:
        results = [_worker(buckets[0])]
    for res, st in results:
        classes.update(res)
        for k, v in st.items():
            stats[k] = stats.get(k, 0) + v
    return {"classes": classes, "stats": stats}


def code_hash() -> str:
    import hashlib
    from pathlib import Path
    h = hashlib.sha256()
    for p in sorted(Path(__file__).parent.glob("*.py")):
        h.update(p.name.encode())
        h.update(p.read_bytes())
    return h.hexdigest()


def load_bundle(ctx) -> dict:
    """All class plans as JSON (cached by digest of the analysed sources + analyser code)."""
    import json
    import os
    from .core import CACHE_DIR
    key = ctx.digest("kio")[:24] + "-" + code_hash()[:16]
    path = CACHE_DIR / f"plans-{key}.json"
    if path.exists():
        try:
            return json.loads(path.read_text())
        except Exception:
            pass
    P = ctx.plans
    prims = analyse_primitives(P)
    P.build_all()
    b = {"classes": {k: export_plan(p) for k, p in P.plans.items()}, "stats": dict(P.A.stats),
         "primitives": prims, "engine": engine_export(P), "factory": P.factory_log}
    b = json.loads(json.dumps(b))  # normalise (tuples -> lists, int keys -> str) exactly as a cache hit would
    try:
        CACHE_DIR.mkdir(exist_ok=True)
        tmp = CACHE_DIR / f".plans-{os.getpid()}.tmp"
        tmp.write_text(json.dumps(b))
        os.replace(tmp, path)
    except OSError:
        pass
    return b


# ------------------------------------------------------------------------------- primitives

PRIMITIVE_DOMAINS = {  # public writers annotated with plain `int`: the domain the Kafka encoding is defined on
    "write_unsigned_varlong": "uvarlong", "write_signed_varint": "i32", "write_signed_varlong": "i64",
    "write_compact_array_length": "i32",
}
FACTORY_ITEM = {"compact_array_reader": "read_int32", "legacy_array_reader": "read_int32",
                "compact_array_writer": "write_int32", "legacy_array_writer": "write_int32"}


def analyse_primitives(P: Plans) -> dict:
    """Descriptor of every public function of kio.serial.readers / kio.serial.writers, analysed
    standalone (value types from the parameter annotation or the domain table)."""
    import ast
    I, D = P.I, P.D
    out = {"readers": {}, "writers": {}}
    rm, wm = I.module("kio.serial.readers"), I.module("kio.serial.writers")
    prim = I.module("kio.static.primitive").env.vars
    for name, f in rm.env.vars.items():
        if not isinstance(f, FuncV) or f.module != "kio.serial.readers" or name.startswith("_"):
            continue
        params = [a.arg for a in f.node.args.args]
        required = len(params) - len(f.node.args.defaults)
        if required == 1 and params:
            anns = [f.node.args.args[0].annotation]
            if anns[0] is not None and "IO" in ast.unparse(anns[0]) or params[0] in ("buffer", "stream"):
                out["readers"][name] = {"desc": export_desc(D.reader_desc(f)), "line": f.node.lineno, "kind": "reader"}
                continue
        if name in FACTORY_ITEM:
            try:
                clo = I.call(f, [rm.env.vars[FACTORY_ITEM[name]]], {}, Run(), None)
                out["readers"][name] = {"desc": export_desc(D.reader_desc(clo)), "line": f.node.lineno, "kind": "factory"}
            except (Raised, Limit) as e:
                out["readers"][name] = {"desc": opaque(f"factory call failed: {e}"), "line": f.node.lineno, "kind": "factory"}
            continue
        out["readers"][name] = {"desc": None, "line": f.node.lineno, "kind": "helper", "params": params}
    for name, f in wm.env.vars.items():
        if not isinstance(f, FuncV) or f.module != "kio.serial.writers" or name.startswith("_"):
            continue
        params = f.node.args.args
        if name in FACTORY_ITEM:
            try:
                clo = I.call(f, [wm.env.vars[FACTORY_ITEM[name]]], {}, Run(), None)
                t = GenericV(LibClass.get("tuple"), (prim["i32"], Ellipsis))
                out["writers"][name] = {"desc": export_desc(D.writer_desc(clo, UnionV((t, None)))), "line": f.node.lineno,
                                        "kind": "factory", "vtype": "tuple[i32, ...] | None"}
            except (Raised, Limit) as e:
                out["writers"][name] = {"desc": opaque(f"factory call failed: {e}"), "line": f.node.lineno, "kind": "factory"}
            continue
        if len(params) == 2:
            ann = params[1].annotation
            t = I.ev_annotation(ann, f.env, Run()) if ann is not None else None
            if name in PRIMITIVE_DOMAINS:
                t = prim[PRIMITIVE_DOMAINS[name]]
            if isinstance(t, OpaqueV) or t is None:
                out["writers"][name] = {"desc": opaque("no value domain known for this writer"), "line": f.node.lineno, "kind": "writer"}
                continue
            descs = {}
            alts = I.alts(t)
            nn = [a for a in alts if a is not LibClass.get("NoneType")]
            # a union of several value types (str | bytes) is analysed once per alternative
            variants = [t] if len(nn) <= 1 else [UnionV([a] + ([None] if len(alts) > len(nn) else [])) for a in nn]
            for vt in variants:
                descs[repr(vt)] = export_desc(D.writer_desc(f, vt))
            out["writers"][name] = {"desc": descs[repr(variants[0])], "variants": descs, "line": f.node.lineno, "kind": "writer",
                                    "vtype": repr(t)}
        elif len(params) == 1:
            try:
                ps = P.A.paths(f, [StreamV("param")], direction="w")
            except Limit:
                ps = []
            out["writers"][name] = {"desc": None, "line": f.node.lineno, "kind": "nullary"}
        else:
            # helper with extra parameters (write_tagged_field): explore it standalone with a caller-owned sink,
            # an item writer and a typed value, so that its own use of the sink is in the effect log
            args, ok = [StreamV("param")], True
            for a in params[1:]:
                t = I.ev_annotation(a.annotation, f.env, Run()) if a.annotation is not None else None
                if "writer" in a.arg:
                    args.append(wm.env.vars.get("write_int8"))
                elif isinstance(t, ClassV):
                    args.append(I.sym_of_type(("param", a.arg), t))
                elif isinstance(t, OpaqueV) or t is None:
                    args.append(I.sym_of_type(("param", a.arg), prim["i8"]))
                else:
                    args.append(I.sym_of_type(("param", a.arg), t))
            try:
                P.A.paths(f, args, direction="w")
                kind = "helper-explored"
            except (Limit, Raised) as e:
                kind = f"helper-not-explored: {e}"
            out["writers"][name] = {"desc": None, "line": f.node.lineno, "kind": kind,
                                    "params": [a.arg for a in params]}
    return out


def engine_export(P: Plans) -> dict:
    A = P.A
    return {
        "effects": [list(k) + [n] for k, n in sorted(A.log.items(), key=lambda kv: tuple(map(str, kv[0])))],
        "raises": [list(k) + [n] for k, n in sorted(A.raises.items(), key=lambda kv: tuple(map(str, kv[0])))],
        "handled": [list(k) + [n] for k, n in sorted(A.handled.items())],
        "functions": sorted(A.functions),
        "atoms": [{"kind": a["kind"], "fn": a["fn"], "line": a["line"], "max_bytes": a.get("max_bytes"),
                   "exc": short_exc(a["exc"]) if a.get("exc") is not None else None,
                   "overflow_exc": a.get("overflow_exc")} for a in A.atoms.values() if a is not None],
        "cached_functions": sorted(f for f in A.functions if False),
    }
