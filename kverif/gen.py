"""E8 -- generator tables: facts about codegen/ obtained by abstract evaluation of its small
pure functions (the generator is never run; its input is not even present in the sandbox)."""
from __future__ import annotations

from .core import AnalysisError
from .interp_base import Raised, Run, Limit
from .spec import header_module, header_class
from .values import *  # noqa


def _codegen_module(ctx, name):
    I = ctx.interp
    try:
        return I.module(name)
    except Raised as r:
        raise AnalysisError(f"importing {name} raises {r.exc!r} at {r.site}")
    except Limit as e:
        raise AnalysisError(f"{name} not understood: {e}")


def header_schema_paths(ctx):
    """Evaluate get_header_schema_import on stub schemas over the decision space of the rule."""
    I = ctx.interp
    m = _codegen_module(ctx, "codegen.header_schema")
    fn = m.env.vars.get("get_header_schema_import")
    if not isinstance(fn, FuncV):
        raise AnalysisError("anchor vanished: codegen.header_schema.get_header_schema_import")
    pm = _codegen_module(ctx, "codegen.parser")
    MS = pm.env.vars.get("MessageSchema")
    VR = _codegen_module(ctx, "codegen.versions").env.vars.get("VersionRange")
    if not isinstance(MS, ClassV) or not isinstance(VR, ClassV):
        raise AnalysisError("anchor vanished: codegen.parser.MessageSchema / codegen.versions.VersionRange")
    rows = []
    # the range the parser produces for flexibleVersions "none" (never flexible), however it chooses to represent it
    try:
        vals = I.iterate_concrete(I.call(I.getattr_(VR, "__get_validators__", Run(), None), [], {}, Run(), None), Run(), None)
        none_range = I.call(vals[0], ["none"], {}, Run(), None)
    except (Raised, Limit) as e:
        raise AnalysisError(f"VersionRange validator not understood: {e}")
    for typ in ("request", "response"):
        for key in (7, 18, 3):
            for version in (0, 1):
                for flexible in (False, True, "none"):
                    # flexibleVersions chosen so that matches(version) == flexible
                    if flexible == "none":
                        fv, flexible = none_range, False
                        label = "flexibleVersions='none'"
                    else:
                        fv = I.call(VR, [version if flexible else version + 1, 99], {}, Run(), None)
                        label = None
                    schema = InstV(MS, {"type": typ, "apiKey": key, "flexibleVersions": fv, "name": "X", "fields": (),
                                        "validVersions": fv})
                    case = f"type={typ} apiKey={key} version={version} flexible={flexible}" + (f" ({label})" if label else "")
                    try:
                        got = I.call(fn, [schema, version], {}, Run(), None)
                    except Raised as r:
                        rows.append({"ok": False, "case": case, "message": f"raises {r.exc!r}", "line": fn.node.lineno})
                        continue
                    except Limit as e:
                        raise AnalysisError(f"codegen.header_schema not understood: {e}")
                    want = f"from {header_module(typ, key, version, flexible)} import {header_class(typ)}\n"
                    rows.append({"ok": got == want, "case": case, "line": fn.node.lineno,
                                 "message": f"generator emits {got!r} but the Kafka rule gives {want!r}"})
    return rows


def class_template_options(ctx):
    """Decorator options in the `class_start` template of generate_dataclass (parsed from the f-string)."""
    import ast
    import textwrap
    src = ctx.sm.require("codegen.generate_schema")
    for fn in ast.walk(src.tree):
        if isinstance(fn, ast.FunctionDef) and fn.name == "generate_dataclass":
            for node in ast.walk(fn):
                if isinstance(node, ast.Assign) and any(isinstance(t, ast.Name) and t.id == "class_start" for t in node.targets):
                    js = [n for n in ast.walk(node.value) if isinstance(n, ast.JoinedStr)]
                    if not js:
                        continue
                    text = "".join(v.value if isinstance(v, ast.Constant) else "NAME" for v in js[0].values)
                    text = textwrap.dedent(text).strip() + "\n    pass\n"
                    try:
                        tree = ast.parse(text)
                    except SyntaxError as e:
                        raise AnalysisError(f"class_start template does not parse as a class statement: {e}")
                    c = tree.body[0]
                    if not isinstance(c, ast.ClassDef) or len(c.decorator_list) != 1:
                        raise AnalysisError("class_start template is not a decorated class statement")
                    d = c.decorator_list[0]
                    if isinstance(d, ast.Call) and ast.unparse(d.func) == "dataclass":
                        return {k.arg: ast.literal_eval(k.value) for k in d.keywords}, node.lineno
                    if ast.unparse(d) == "dataclass":
                        return {}, node.lineno
                    raise AnalysisError(f"class_start decorator is {ast.unparse(d)}")
    raise AnalysisError("anchor vanished: class_start template in codegen.generate_schema.generate_dataclass")


def generator_vs_instances(ctx):
    """C04-c / C16: tables of the current generator vs the shipped schema (filled in by gen_tables)."""
    from .gen_tables import compare_with_instances
    return compare_with_instances(ctx)
