"""E2 base definitions -- path-sensitive abstract interpreter over the Python subset used by kio.

* concrete evaluation of static program parts (plan building, class creation, tables);
* symbolic evaluation of run-time parts (wire bytes, entity attribute values) with
  replay-based forking on undecidable conditions;
* effects on streams are recorded in the run's trace.

Never hands a path condition to a solver: feasibility is decided by constant folding,
syntactic equality of terms and declared types only.
"""
from __future__ import annotations

import ast
import struct as _struct

from .core import AnalysisError
from .values import *  # noqa: F401,F403
from .values import _ids

MAX_PATHS = 4000
MAX_STEPS = 400_000


class Limit(AnalysisError):
    """Source the interpreter does not model."""


class Raised(Exception):
    """An exception raised by interpreted code.  `exc` is an InstV of an exception class."""

    def __init__(self, exc, site=None):
        self.exc, self.site = exc, site
        if site and isinstance(getattr(exc, "attrs", None), dict):
            exc.attrs.setdefault("__site__", site)
        super().__init__(repr(exc))

    @property
    def cls(self):
        return self.exc.cls


class NeedInline(Exception):
    """A decision depends on the result of a higher-order call that was summarised as an opaque
    codec invocation: the exploration is restarted with that callee inlined."""

    def __init__(self, uid):
        self.uid = uid
        super().__init__(f"need to inline function #{uid}")


class _Return(Exception):
    def __init__(self, v):
        self.v = v


class _Break(Exception):
    pass


class _Continue(Exception):
    pass


def cls_name(c) -> str:
    return c.name if isinstance(c, LibClass) else c.ref if isinstance(c, ClassV) else repr(c)


def short_exc(c) -> str:
    n = cls_name(c)
    return n.split(":")[-1]


class Run:
    """One path: the branch decisions taken, the facts assumed, the effects observed."""

    def __init__(self, decisions=()):
        self.decisions = list(decisions)
        self.pos = 0
        self.facts: list = []  # (term, bool, site)
        self.effects: list = []
        self.notes: list = []
        self.steps = 0
        self.refined: dict = {}  # term -> narrowed vtype
        self.ranges: dict = {}  # term -> (lo, hi) learned from decided comparisons
        self.wires = 0
        self.loop_depth = 0
        self.weak = False  # inside a loop with symbolic trip count: container stores are weak
        self.weak_created: set = set()

    def decide(self, term, site=None) -> bool:
        for f in self.facts:
            if f[0] == term:
                return f[1]
        if self.pos < len(self.decisions):
            d = self.decisions[self.pos]
        else:
            d = True
            self.decisions.append(True)
        self.pos += 1
        self.facts.append((term, d, site, len(self.effects)))
        return d

    def fresh_wire(self) -> int:
        self.wires += 1
        return self.wires

    def emit(self, *eff):
        self.effects.append(eff)


class Path:
    __slots__ = ("facts", "effects", "outcome", "value", "notes")

    def __init__(self, facts, effects, outcome, value, notes):
        self.facts, self.effects, self.outcome, self.value, self.notes = facts, effects, outcome, value, notes

    def __repr__(self):
        cs = " & ".join(("" if f[1] else "not ") + show_term(f[0]) for f in self.facts)
        return f"[{cs}] {self.effects} -> {self.outcome} {self.value!r}"




def nonempty_term(t):
    """Canonical subject of an emptiness decision: a sequence built from another one item by item (tuple(x), a comprehension over x,
    len(x) iterations) is empty exactly when x is, so they all share one decision."""
    while isinstance(t, tuple) and t:
        if t[0] == "tuple" and len(t) == 2:
            t = t[1]
        elif t[0] == "repeat" and len(t) >= 2 and isinstance(t[1], tuple) and t[1][:1] == ("len",) and len(t[1]) == 2:
            t = t[1][1]
        elif t[0] == "gen" and len(t) == 3 and t[2] == 0:
            t = t[1]
        else:
            break
    return ("nonempty", t)
