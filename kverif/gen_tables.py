"""E8 -- generator tables: closed-world facts about codegen/ obtained by abstract evaluation
of its small pure functions and by parsing its string templates as Python fragments."""
from __future__ import annotations

import ast
import re

from .core import AnalysisError
from .grammar import SPEC_PYTYPE, KAFKA_TYPES, SPEC_FIXED
from .interp_base import Raised, Run, Limit, short_exc
from .ssm import Norm, type_term, _imports_of
from .values import *  # noqa


def _mod(ctx, name):
    try:
        return ctx.interp.module(name)
    except Raised as r:
        raise AnalysisError(f"importing {name} raises {r.exc!r} at {r.site}")
    except Limit as e:
        raise AnalysisError(f"{name} not understood: {e}")


def primitive_members(ctx):
    P = _mod(ctx, "codegen.parser").env.vars.get("Primitive")
    if not isinstance(P, ClassV) or "enum" not in P.flags:
        raise AnalysisError("anchor vanished: codegen.parser.Primitive")
    return P, list(P.flags["enum"].values())


def template_env(ctx):
    """Module environment a generated version module starts with: the imports of the
    `imports_and_docstring` template plus a header import."""
    I = ctx.interp
    gs = _mod(ctx, "codegen.generate_schema")
    tpl = gs.env.vars.get("imports_and_docstring")
    if not isinstance(tpl, str):
        raise AnalysisError("anchor vanished: codegen.generate_schema.imports_and_docstring")
    text = tpl.replace("{schema_repository_source}", "x/").replace("{schema_source}", "X.json")
    try:
        tree = ast.parse(text)
    except SyntaxError as e:
        raise AnalysisError(f"imports_and_docstring template does not parse as a module: {e}")
    env = Env(None, "module", "<generated module template>")
    I.frames.append(type("F", (), {"fn": None, "module": "kio.schema._template_", "node": None})())
    try:
        I.exec_block(tree.body, env, Run())
    except Raised as r:
        raise AnalysisError(f"the imports of the generated-module template fail: {r.exc!r}")
    finally:
        I.frames.pop()
    return env, tree, _imports_of(tree, "kio.schema._template_", False)


def eval_in(ctx, env, src):
    I = ctx.interp
    tree = ast.parse(src, mode="eval")
    I.frames.append(type("F", (), {"fn": None, "module": "kio.schema._template_", "node": None})())
    try:
        return I.ev(tree.body, env, Run())
    finally:
        I.frames.pop()


def hint_and_default_table(ctx):
    """Per Primitive member: hint string, tagged-default string, their evaluation in the template env."""
    I = ctx.interp
    gs = _mod(ctx, "codegen.generate_schema")
    P, members = primitive_members(ctx)
    fdt = gs.env.vars.get("_format_default_for_tagged")
    if not isinstance(fdt, FuncV):
        raise AnalysisError("anchor vanished: codegen.generate_schema._format_default_for_tagged")
    env, tree, imports = template_env(ctx)
    rows = []
    for m in members:
        row = {"member": m.name, "kafka_type": m.value, "hint": None, "hint_opt": None, "default": None, "problems": []}
        for key, opt in (("hint", False), ("hint_opt", True)):
            try:
                row[key] = I.call(I.getattr_(m, "get_type_hint", Run(), None), [], {"optional": opt}, Run(), None)
            except Raised as r:
                row["problems"].append(f"get_type_hint({opt}) raises {short_exc(r.cls)}")
            except Limit as e:
                raise AnalysisError(f"Primitive.get_type_hint not understood: {e}")
        try:
            row["default"] = I.call(fdt, [m], {}, Run(), None)
        except Raised as r:
            row["problems"].append(f"_format_default_for_tagged raises {short_exc(r.cls)}")
        except Limit as e:
            raise AnalysisError(f"_format_default_for_tagged not understood: {e}")
        # evaluate in the module template's environment
        for key in ("hint", "hint_opt"):
            if isinstance(row[key], str):
                try:
                    row[key + "_value"] = eval_in(ctx, env, row[key])
                except SyntaxError:
                    row["problems"].append(f"type hint {row[key]!r} is not an expression")
                except Raised as r:
                    row["problems"].append(f"type hint {row[key]!r} does not evaluate in a generated module: {short_exc(r.cls)} {r.exc.attrs.get('args')}")
                except Limit as e:
                    row["problems"].append(f"type hint {row[key]!r}: {e}")
        if isinstance(row["default"], str):
            try:
                row["default_value"] = eval_in(ctx, env, row["default"])
                row["default_ok"] = True
            except SyntaxError:
                row["problems"].append(f"tagged default {row['default']!r} is not an expression")
            except Raised as r:
                row["problems"].append(f"tagged default {row['default']!r} does not evaluate in a generated module: "
                                       f"{short_exc(r.cls)} {r.exc.attrs.get('args')}")
            except Limit as e:
                row["problems"].append(f"tagged default {row['default']!r}: {e}")
        rows.append(row)
    return rows, env, fdt


def classvar_templates(ctx):
    """The `    __x__: ... = ...` lines the generator can yield, parsed as annotated assignments."""
    src = ctx.sm.require("codegen.generate_schema")
    out = {}
    for node in ast.walk(src.tree):
        text = None
        if isinstance(node, ast.JoinedStr):
            text = "".join(v.value if isinstance(v, ast.Constant) else "HOLE" for v in node.values)
        elif isinstance(node, ast.Constant) and isinstance(node.value, str):
            text = node.value
        if not text:
            continue
        for line in text.splitlines():
            m = re.match(r"^    (__\w+__)\s*:", line)
            if not m:
                continue
            try:
                st = ast.parse(line.strip()).body[0]
            except SyntaxError:
                out.setdefault(m.group(1), set()).add(("<unparsable>", line.strip(), getattr(node, "lineno", 0)))
                continue
            if isinstance(st, ast.AnnAssign):
                v = st.value
                shape = ("call:" + ast.unparse(v.func)) if isinstance(v, ast.Call) else ("name" if isinstance(v, (ast.Name, ast.Attribute)) else type(v).__name__)
                if isinstance(v, ast.Attribute):
                    shape = "attr:" + ast.unparse(v.value)
                ann = re.sub(r"\b(RequestHeader|ResponseHeader)\b", "X", ast.unparse(st.annotation).replace("HOLE", "X"))
                out.setdefault(m.group(1), set()).add((ann, shape, getattr(node, "lineno", 0)))
    return out


def shipped_classvar_shapes(S):
    out = {}
    for c in S.classes.values():
        for name, cv in c["classvars"].items():
            v = cv["value"]
            if v is None:
                shape = "none"
            elif "call" in v:
                shape = "call:" + v["call"].get("n", "?").split(":")[-1]
            elif "n" in v:
                n = v["n"].split(":")[-1]
                shape = "attr:" + n.rsplit(".", 1)[0] if "." in n else "name"
            elif "c" in v:
                shape = "Constant" if not isinstance(v["c"], bool) else "name"
            else:
                shape = "other"
            ann = re.sub(r"\b(RequestHeader|ResponseHeader)\b", "X", cv.get("ann_src", ""))
            out.setdefault(name, {}).setdefault((ann, shape), 0)
            out[name][(ann, shape)] += 1
    return out


def metadata_keys_written(ctx):
    src = ctx.sm.require("codegen.generate_schema")
    keys = {}
    for node in ast.walk(src.tree):
        if isinstance(node, ast.Subscript) and isinstance(node.ctx, ast.Store) and isinstance(node.value, ast.Name) \
                and node.value.id == "metadata" and isinstance(node.slice, ast.Constant):
            keys[node.slice.value] = node.lineno
    return keys


def metadata_keys_read(ctx):
    src = ctx.sm.require("kio.serial._introspect")
    keys = {}
    for node in ast.walk(src.tree):
        if isinstance(node, ast.Subscript) and isinstance(node.ctx, ast.Load) and isinstance(node.value, ast.Attribute) \
                and node.value.attr == "metadata" and isinstance(node.slice, ast.Constant):
            keys[node.slice.value] = node.lineno
    return keys


def default_shape(n):
    """Shape of a normalised default: callee + argument kinds."""
    if n is None:
        return None
    if "c" in n:
        v = n["c"]
        return "None" if v is None else type(v).__name__
    if "t" in n:
        return "()" if not n["t"] else "tuple"
    if "n" in n:
        return "name:" + n["n"].split(":")[-1]
    if "call" in n:
        callee = n["call"].get("n", "?").split(":")[-1]
        args = ",".join(default_shape(a) or "?" for a in n["args"])
        kws = ",".join(f"{k}={default_shape(v)}" for k, v in sorted(n["kw"].items()))
        return f"{callee}({','.join(x for x in (args, kws) if x)})"
    return "other"


def generator_default_shapes(ctx):
    """Shapes of default expressions the generator can print."""
    I = ctx.interp
    gs = _mod(ctx, "codegen.generate_schema")
    P, members = primitive_members(ctx)
    fd = gs.env.vars.get("format_default")
    CT = gs.env.vars.get("CustomTypeDef")
    if not isinstance(fd, FuncV) or not isinstance(CT, ClassV):
        raise AnalysisError("anchor vanished: codegen.generate_schema.format_default / CustomTypeDef")
    env, tree, imports = template_env(ctx)
    imports = dict(imports)
    imports["BrokerId"] = ("kio.schema.types", "BrokerId")
    nx = Norm("kio.schema._template_", imports, set())
    shapes = {}
    samples = ["7", "-1", "0x7", "true", "false", "null", "1.5", "abc", ""]
    for m in members:
        for d in samples:
            for optional in (False, True):
                for custom in (None, "custom"):
                    ct = None
                    if custom:
                        try:
                            ct = I.call(CT, [], {"name": "CUSTOM", "type_": m}, Run(), None)
                        except (Raised, Limit):
                            continue
                    try:
                        out = I.call(fd, [m, d, optional, ct], {}, Run(), None)
                    except Raised:
                        continue
                    except Limit as e:
                        raise AnalysisError(f"format_default not understood: {e}")
                    if not isinstance(out, str):
                        continue
                    try:
                        e = ast.parse(out, mode="eval").body
                    except SyntaxError:
                        shapes.setdefault("<unparsable>", []).append((m.name, d, out))
                        continue
                    sh = default_shape(nx(e))
                    if custom and sh:
                        sh = sh.replace("?:CUSTOM", "<custom>").replace("CUSTOM", "<custom>")
                    shapes.setdefault(sh, []).append((m.name, d, out))
    return shapes


def compare_with_instances(ctx):
    """Rows {ok, construct, stmt, message, line} for C04-c."""
    from .gen import class_template_options
    S = ctx.schema
    rows = []
    # (1) decorator options
    opts, line = class_template_options(ctx)
    shipped = {}
    for c in S.classes.values():
        for d in c["decorators"]:
            if "call" in d:
                key = tuple(sorted((k, v.get("c")) for k, v in d["kw"].items()))
                shipped[key] = shipped.get(key, 0) + 1
    want = tuple(sorted(opts.items()))
    rows.append({"ok": set(shipped) == {want}, "construct": "codegen.generate_schema:generate_dataclass",
                 "stmt": f"class_start @dataclass({opts})", "line": line,
                 "message": f"generator decorates with {dict(want)} but shipped classes carry {[dict(k) for k in shipped]}"})
    # (2) class variable templates
    tpl = classvar_templates(ctx)
    have = shipped_classvar_shapes(S)
    for name in sorted(set(tpl) | set(have)):
        t = {(a, s) for a, s, _ in tpl.get(name, ())}
        h = set(have.get(name, {}))
        ln = min((l for _, _, l in tpl.get(name, ())), default=0)
        rows.append({"ok": bool(t) and h <= t and bool(h), "construct": "codegen.generate_schema:class variable templates",
                     "stmt": f"{name}: templates {sorted(t)}", "line": ln,
                     "message": f"class variable {name}: generator templates {sorted(t)} vs shipped shapes {sorted(h)}"})
    # (3) type hints
    table, env, fdt = hint_and_default_table(ctx)
    I = ctx.interp
    for row in table:
        kt = row["kafka_type"]
        want_t = SPEC_PYTYPE.get(kt)
        hv = row.get("hint_value")
        ref = None
        base = hv
        if isinstance(hv, UnionV):
            nn = [a for a in hv.args if not (isinstance(a, LibClass) and a.name == "NoneType")]
            base = nn[0] if len(nn) == 1 else hv
        if isinstance(base, ClassV):
            ref = base.ref
        elif isinstance(base, LibClass):
            ref = {"str": "builtins:str", "bytes": "builtins:bytes", "bool": "builtins:bool", "uuid.UUID": "uuid:UUID"}.get(base.name, base.name)
        used = sum(1 for c in S.classes.values() for f in c["fields"] if (f.get("metadata") or {}).get("kafka_type") == kt)
        rows.append({"ok": ref == want_t and not [p for p in row["problems"] if "hint" in p], "file": "codegen/parser.py",
                     "construct": "codegen.parser:Primitive.get_type_hint", "stmt": f"{row['member']}: hint {row['hint']!r}",
                     "message": f"hint for {kt} is {row['hint']!r} -> {ref}; the shipped fields of that kafka type ({used}) are {want_t}; "
                                + "; ".join(p for p in row["problems"] if "hint" in p)})
    # (4) metadata keys
    mk = metadata_keys_written(ctx)
    found = set()
    for c in S.classes.values():
        for f in c["fields"]:
            found.update((f.get("metadata") or {}).keys())
    rows.append({"ok": set(mk) == found, "construct": "codegen.generate_schema:format_dataclass_field",
                 "stmt": f"metadata keys {sorted(mk)}", "line": min(mk.values(), default=0),
                 "message": f"generator writes metadata keys {sorted(mk)} but shipped fields carry {sorted(found)}"})
    # (5) default shapes
    gshapes = generator_default_shapes(ctx)
    tagged_defaults = {default_shape(Norm("t", {}, set())(ast.parse(r["default"], mode="eval").body)) for r in table
                       if isinstance(r["default"], str) and r.get("default_ok")}
    printable = set(gshapes) | tagged_defaults | {"()", "None"}
    local_classes = {c["name"] for c in S.classes.values()}
    seen = {}
    for c in S.classes.values():
        for f in c["fields"]:
            if f["default"] is None:
                continue
            sh = default_shape(f["default"])
            seen.setdefault(sh, []).append(f"{c['key']}.{f['name']}")
    custom_names = set(n.split(":")[1] for n in S.custom_types)
    for sh, where in sorted(seen.items(), key=lambda kv: str(kv[0])):
        ok = sh in printable
        if not ok and sh:
            m = re.match(r"^(\w+)\((.*)\)$", sh)
            if m and m.group(1) in custom_names and f"<custom>({m.group(2)})" in printable:
                ok = True
            if m and m.group(1) in local_classes and m.group(2) == "":
                ok = True  # nested entity with only defaults: f"{field_type}()"
        rows.append({"ok": ok, "construct": "codegen.generate_schema:format_default", "stmt": f"default shape {sh}",
                     "message": f"{len(where)} shipped field(s) (e.g. {where[0]}) have a default of shape {sh} that the current "
                                f"generator cannot print"})
    return rows


def dataclass_field_invariants(ctx):
    """G8: format_dataclass_field over its finite decision grid.  What the message-definition README says
    about a field's default does not depend on tagging or ignorability: an explicit default is emitted as
    given; the metadata names the kafka type and carries the tag iff the field is tagged in that version."""
    I = ctx.interp
    gs = _mod(ctx, "codegen.generate_schema")
    fdf, fd = gs.env.vars.get("format_dataclass_field"), gs.env.vars.get("format_default")
    if not isinstance(fdf, FuncV) or not isinstance(fd, FuncV):
        raise AnalysisError("anchor vanished: codegen.generate_schema.format_dataclass_field / format_default")
    P, members = primitive_members(ctx)
    sample = {"bool_": "true", "string": "abc", "float64": "1.5", "error_code": "3", "timedelta_i32": "500", "timedelta_i64": "500",
              "datetime_i64": "-1"}
    rows = []
    falsy = {"string": "", "bool_": "false", "float64": "0.0", "error_code": "0", "timedelta_i32": "0", "timedelta_i64": "0"}
    cases = []
    for m in members:
        if m.name in ("bytes_", "uuid", "records"):
            continue
        cases.append((m, sample.get(m.name, "7")))
        if m.name != "datetime_i64":
            cases.append((m, falsy.get(m.name, "0")))  # a default that is falsy as a Python value or spelled like one is still a default
    for m, d in cases:
        optional = m.name == "datetime_i64"
        try:
            want_default = I.call(fd, [m, d, optional, None], {}, Run(), None)
        except Raised:
            continue
        for tag in (None, 3):
            for ignorable in (False, True):
                case = f"Primitive.{m.name} default={d!r} tag={tag} ignorable={ignorable}"
                try:
                    out = I.call(fdf, [], {"field_type": m, "default": d, "optional": optional, "custom_type": None, "tag": tag,
                                           "ignorable": ignorable}, Run(), None)
                except Raised as r:
                    rows.append({"ok": False, "case": case, "message": f"raises {short_exc(r.cls)}", "line": fdf.node.lineno})
                    continue
                except Limit as e:
                    raise AnalysisError(f"format_dataclass_field not understood: {e}")
                problems = []
                if not isinstance(out, str):
                    raise AnalysisError(f"format_dataclass_field({case}) is not evaluated to a constant string: {out!r}")
                try:
                    st = ast.parse(f"x: T{out}").body[0]
                    call = st.value
                    kws = {k.arg: k.value for k in call.keywords} if isinstance(call, ast.Call) else {}
                except SyntaxError:
                    rows.append({"ok": False, "case": case, "message": f"emits {out!r}, which is not a field(...) assignment", "line": fdf.node.lineno})
                    continue
                got_default = ast.unparse(kws["default"]) if "default" in kws else None
                if got_default != ast.unparse(ast.parse(want_default, mode="eval").body):
                    problems.append(f"explicit default {d!r} is emitted as default={got_default}, expected default={want_default}")
                md = ast.literal_eval(kws["metadata"]) if "metadata" in kws else {}
                if md.get("kafka_type") != m.value:
                    problems.append(f"metadata kafka_type is {md.get('kafka_type')!r}, expected {m.value!r}")
                if ("tag" in md) != (tag is not None) or (tag is not None and md.get("tag") != tag):
                    problems.append(f"metadata tag is {md.get('tag')!r} for tag={tag}")
                rows.append({"ok": not problems, "case": case, "message": "; ".join(problems), "line": fdf.node.lineno})
    return rows


NUMERIC_NEVER_NULL = {"int8", "int16", "int32", "int64", "uint16", "uint32", "uint64", "float64"}


def field_nullability_grid(ctx):
    """G9: PrimitiveField.is_nullable(version) and _BaseField.get_tag(version) over a finite grid of definitions.
    Reference (message-definition README + kio's documented modelling): a field is tagged in version v iff
    taggedVersions contains v; it is nullable in v iff nullableVersions contains v, or (kio) it is tagged *in v*,
    ignorable and has no default, or (kio) it is a datetime with default -1; numeric primitives never."""
    I = ctx.interp
    pm = _mod(ctx, "codegen.parser")
    PF = pm.env.vars.get("PrimitiveField")
    VR = _mod(ctx, "codegen.versions").env.vars.get("VersionRange")
    if not isinstance(PF, ClassV) or not isinstance(VR, ClassV):
        raise AnalysisError("anchor vanished: codegen.parser.PrimitiveField / codegen.versions.VersionRange")
    P, members = primitive_members(ctx)
    INF = float("inf")
    rows = []
    ranges = {"none": None, "2+": (2, INF), "1-2": (1, 2)}
    for m in members:
        for tv_name in ("none", "2+"):
            for nv_name in ("none", "1-2"):
                for ignorable in (False, True):
                    for default in (None, "-1"):
                        tv, nv = ranges[tv_name], ranges[nv_name]
                        mk = lambda r: None if r is None else I.call(VR, [r[0], r[1]], {}, Run(), None)
                        inst = model_instance(PF, {"name": "Fld", "type": m, "versions": mk((0, INF)), "nullableVersions": mk(nv), "ignorable": ignorable,
                                          "mapKey": False, "about": None, "entityType": None, "tag": None if tv is None else 0,
                                          "taggedVersions": mk(tv), "default": default})
                        for version in (0, 1, 2, 3):
                            case = (f"Primitive.{m.name} taggedVersions={tv_name} nullableVersions={nv_name} ignorable={ignorable} "
                                    f"default={default!r} version={version}")
                            tagged = tv is not None and tv[0] <= version <= tv[1]
                            want_tag = 0 if tagged else None
                            want_null = m.name not in NUMERIC_NEVER_NULL and (
                                (tagged and ignorable and default is None) or (nv is not None and nv[0] <= version <= nv[1])
                                or (m.name == "datetime_i64" and default == "-1"))
                            for meth, want in (("get_tag", want_tag), ("is_nullable", want_null)):
                                try:
                                    got = I.call(I.getattr_(inst, meth, Run(), None), [version], {}, Run(), None)
                                except Raised as r:
                                    rows.append({"ok": False, "case": case, "method": meth, "message": f"{meth} raises {short_exc(r.cls)}"})
                                    continue
                                except Limit as e:
                                    raise AnalysisError(f"PrimitiveField.{meth} not understood: {e}")
                                if not (got is None or isinstance(got, (bool, int))):
                                    raise AnalysisError(f"PrimitiveField.{meth}({case}) is not evaluated to a constant: {got!r}")
                                rows.append({"ok": got == want and type(got) is type(want), "case": case, "method": meth,
                                             "message": f"{meth}({version}) is {got!r} for {case}; the definition gives {want!r}"})
    return rows


def bool_default_spellings(ctx):
    """G10: format_default(bool, s) for the accepted spellings.  Kafka's generator compares the default of a bool
    case-insensitively with "true"/"false"; the parser hands on "true"/"false" (strings) and "True"/"False" (a bare
    JSON literal coerced to str by the model)."""
    I = ctx.interp
    gs = _mod(ctx, "codegen.generate_schema")
    fd = gs.env.vars.get("format_default")
    P, members = primitive_members(ctx)
    b = next((m for m in members if m.name == "bool_"), None)
    if not isinstance(fd, FuncV) or b is None:
        raise AnalysisError("anchor vanished: codegen.generate_schema.format_default / Primitive.bool_")
    rows = []
    for s in ("true", "false", "True", "False"):
        for optional in (False, True):
            case = f"format_default(Primitive.bool_, {s!r}, optional={optional})"
            try:
                got = I.call(fd, [b, s, optional, None], {}, Run(), None)
            except Raised as r:
                rows.append({"ok": False, "case": case, "message": f"{case} raises {short_exc(r.cls)}: the definition is rejected", "line": fd.node.lineno})
                continue
            except Limit as e:
                raise AnalysisError(f"format_default not understood: {e}")
            if not isinstance(got, str):
                raise AnalysisError(f"{case} is not evaluated to a constant string: {got!r}")
            want = "True" if s.lower() == "true" else "False"
            rows.append({"ok": got.strip() == want, "case": case, "line": fd.node.lineno,
                         "message": f"{case} emits {got!r}; the definition's default is {want}"})
    return rows


def naming_rows(ctx):
    """G11: the generator's naming functions evaluated on the shipped vocabulary.  Every shipped field name s is the
    snake-case of its capitalised-word form (to_snake_case(Camel(s)) == s, builtin names suffixed with '_'), and the
    package of every version module is basic_name(<top-level class name>)."""
    I = ctx.interp
    S = ctx.schema
    snake = _mod(ctx, "codegen.case").env.vars.get("to_snake_case")
    basic = _mod(ctx, "codegen.generate_schema").env.vars.get("basic_name")
    if not isinstance(snake, FuncV) or not isinstance(basic, FuncV):
        raise AnalysisError("anchor vanished: codegen.case.to_snake_case / codegen.generate_schema.basic_name")

    def call(f, arg):
        try:
            r = I.call(f, [arg], {}, Run(), None)
        except Raised as r_:
            return ("raise", short_exc(r_.cls))
        except Limit as e:
            raise AnalysisError(f"{f.ref} not understood: {e}")
        if not isinstance(r, str):
            raise AnalysisError(f"{f.ref}({arg!r}) is not evaluated to a constant string: {r!r}")
        return r

    rows = []
    seen = {}
    for c in S.classes.values():
        for fl in c["fields"]:
            seen.setdefault(fl["name"], f"{c['key']}.{fl['name']}")
    for s, where in sorted(seen.items()):
        camel = "".join(p.capitalize() for p in s.rstrip("_").split("_"))
        got = call(snake, camel)
        rows.append({"ok": got == s, "construct": "codegen.case:to_snake_case", "stmt": f"to_snake_case({camel!r})",
                     "message": f"to_snake_case({camel!r}) gives {got!r}; the shipped field (e.g. {where}) is named {s!r}",
                     "file": "codegen/case.py", "line": snake.node.lineno})
    tops = {}
    for mname, m in S.modules.items():
        for c in S.top_level(m):
            tops.setdefault((c["name"], m["api"]), mname)
    # names a future definition may carry: the suffix is removed at the END only, an inner Request/Response word stays
    for cname, want in (("AlterRequestQuotasRequest", "alter_request_quotas"), ("DescribeResponseCodesResponse", "describe_response_codes"),
                        ("RequestHeader", "request_header"), ("ResponseHeader", "response_header"), ("ForwardRequestRequest", "forward_request")):
        got = call(basic, cname)
        rows.append({"ok": got == want, "construct": "codegen.generate_schema:basic_name", "stmt": f"basic_name({cname!r})",
                     "message": f"basic_name({cname!r}) gives {got!r}; the package of that definition is {want!r} (only the trailing _request / "
                                f"_response is dropped)", "file": "codegen/generate_schema.py", "line": basic.node.lineno})
    for (cname, api), mname in sorted(tops.items()):
        got = call(basic, cname)
        rows.append({"ok": got == api, "construct": "codegen.generate_schema:basic_name", "stmt": f"basic_name({cname!r})",
                     "message": f"basic_name({cname!r}) gives {got!r}; the shipped module {mname} lives in package {api!r}",
                     "file": "codegen/generate_schema.py", "line": basic.node.lineno})
    return rows


def post_root_validators(cls):
    """Names of the root validators of a pydantic model class that run after field parsing (`@root_validator` without pre=True),
    base classes first -- read from the decorators in the source."""
    out = []
    for c in reversed([c for c in cls.mro if isinstance(c, ClassV)]):
        for name, v in c.ns.items():
            f = v
            while isinstance(f, WrapV):
                f = f.func
            node = getattr(f, "node", None)
            if not isinstance(node, ast.FunctionDef):
                continue
            for d in node.decorator_list:
                src = ast.unparse(d)
                if src.split("(")[0].split(".")[-1] == "root_validator":
                    pre = isinstance(d, ast.Call) and any(k.arg == "pre" and isinstance(k.value, ast.Constant) and k.value.value is True for k in d.keywords)
                    if not pre and name not in out:
                        out.append(name)
    return out


def model_instance(cls, attrs, I=None):
    """An instance of a pydantic model class of the generator: the given attributes plus the declared defaults of every other field
    (so that a definition that omits a key looks as it does after parsing, and a newly added optional key does not look like a crash),
    passed through the model's post root validators when an interpreter is given (what pydantic does after parsing the fields)."""
    full = {}
    for c in reversed([c for c in cls.mro if isinstance(c, ClassV)]):
        anns = c.ns.get("__annotations__")
        for fname in (anns.d if isinstance(anns, DictV) else {}):
            if fname in c.ns and not isinstance(c.ns[fname], (FuncV, WrapV)) and not fname.startswith("_"):
                full[fname] = c.ns[fname]
    full.update(attrs)
    if I is not None:
        for name in post_root_validators(cls):
            try:
                out = I.call(I.getattr_(cls, name, Run(), None), [DictV(dict(full))], {}, Run(), None)
            except Limit as e:
                raise AnalysisError(f"root validator {cls.name}.{name} not understood: {e}")
            if not isinstance(out, DictV):
                raise AnalysisError(f"root validator {cls.name}.{name} returns {out!r}, not a mapping")
            full = dict(out.d)
    return InstV(cls, full)


def _parse_field_line(line):
    """`    name: ANN = field(k=v, ...)` -> (name, annotation source, {kw: source}) or None."""
    try:
        st = ast.parse("class _X:\n" + line).body[0].body[0]
    except (SyntaxError, IndexError):
        return None
    if not isinstance(st, ast.AnnAssign) or not isinstance(st.target, ast.Name):
        return None
    kws = {}
    if isinstance(st.value, ast.Call) and ast.unparse(st.value.func) == "field":
        kws = {k.arg: ast.unparse(k.value) for k in st.value.keywords}
    elif st.value is not None:
        kws = {"default": ast.unparse(st.value)}
    return st.target.id, ast.unparse(st.annotation), kws


def struct_field_lines(ctx):
    """G12: the lines emitted for struct-array and struct fields over a grid of definitions x versions.
    Independent reading of the definition (README of the message definitions): the field is nullable in v iff
    nullableVersions contains v; tagged in v iff taggedVersions contains v (then the tag is in the metadata); an array
    without an explicit default defaults to the EMPTY array, nullable or not -- a tagged array therefore carries `()`."""
    I = ctx.interp
    gs = _mod(ctx, "codegen.generate_schema")
    pm = _mod(ctx, "codegen.parser")
    VR = _mod(ctx, "codegen.versions").env.vars.get("VersionRange")
    f_arr, f_ent = gs.env.vars.get("format_non_primitive_array_field"), gs.env.vars.get("generate_entity_field")
    EAF, EF, ET_, EAT = (pm.env.vars.get(n) for n in ("EntityArrayField", "EntityField", "EntityType", "EntityArrayType"))
    if not all(isinstance(x, FuncV) for x in (f_arr, f_ent)) or not all(isinstance(x, ClassV) for x in (EAF, EF, VR)):
        raise AnalysisError("anchor vanished: generate_schema.format_non_primitive_array_field / generate_entity_field / parser field classes")
    INF = float("inf")
    mk = lambda r: None if r is None else I.call(VR, [r[0], r[1]], {}, Run(), None)
    rows = []
    for tv in (None, (1, INF)):
        for nv in (None, (2, INF)):
            for ignorable in (False, True):
                base = {"name": "PendingItems", "versions": mk((0, INF)), "nullableVersions": mk(nv), "ignorable": ignorable, "mapKey": False,
                        "about": None, "entityType": None, "tag": None if tv is None else 4, "taggedVersions": mk(tv), "fields": ()}
                for version in (0, 1, 2, 3):
                    tagged = tv is not None and tv[0] <= version <= tv[1]
                    nullable = nv is not None and nv[0] <= version <= nv[1]
                    case = f"taggedVersions={'1+' if tv else None} nullableVersions={'2+' if nv else None} ignorable={ignorable} version={version}"
                    for kind in ("array", "struct"):
                        try:
                            if kind == "array":
                                fld = model_instance(EAF, dict(base, type=I.call(EAT, ["Item"], {}, Run(), None)))
                                line = I.call(f_arr, [fld, version, "Item"], {}, Run(), None)
                            else:
                                fld = model_instance(EF, dict(base, type=I.call(ET_, ["Item"], {}, Run(), None), default=None))
                                line = I.call(f_ent, [fld, version], {}, Run(), None)
                        except Raised as r:
                            rows.append({"ok": False, "kind": kind, "case": case, "message": f"raises {short_exc(r.cls)}"})
                            continue
                        except Limit as e:
                            raise AnalysisError(f"codegen field generator ({kind}) not understood: {e}")
                        if not isinstance(line, str):
                            raise AnalysisError(f"codegen field generator ({kind}, {case}) is not evaluated to a constant string: {line!r}")
                        parsed = _parse_field_line(line)
                        if parsed is None:
                            rows.append({"ok": False, "kind": kind, "case": case, "message": f"emits {line!r}, not a field line"})
                            continue
                        name, ann, kws = parsed
                        problems = []
                        if name != "pending_items":
                            problems.append(f"field is named {name!r}")
                        want_ann = ("tuple[Item, ...]" if kind == "array" else "Item") + (" | None" if nullable else "")
                        if ann.replace(" ", "") != want_ann.replace(" ", ""):
                            problems.append(f"annotation is {ann!r}, the definition gives {want_ann!r}")
                        md = ast.literal_eval(kws["metadata"]) if "metadata" in kws else {}
                        if md.get("tag") != (4 if tagged else None):
                            problems.append(f"metadata tag is {md.get('tag')!r}, the definition gives {4 if tagged else None!r}")
                        if kind == "array":
                            want_def = "()" if tagged else None
                            if kws.get("default") != want_def:
                                problems.append(f"default is {kws.get('default')!r}; an array without an explicit default defaults to the empty "
                                                f"array{' (tagged: `()`)' if tagged else ' (untagged: no dataclass default)'}")
                        elif kws.get("default") == "None" and not nullable:
                            problems.append("default None on a non-nullable struct field")
                        rows.append({"ok": not problems, "kind": kind, "case": case, "message": f"{kind} field, {case}: " + "; ".join(problems)})
    return rows


STRING_PROBES = ("", "abc", "it's", 'say "hi"', "back\\slash", "tab\there", "new\nline", "\u00e9t\u00e9", "\u4e2d", "\U00020bb7", "{brace}")


def string_default_literals(ctx):
    """G13: format_default(string, s) must be a Python literal that evaluates to s (any character)."""
    I = ctx.interp
    gs = _mod(ctx, "codegen.generate_schema")
    fd = gs.env.vars.get("format_default")
    P, members = primitive_members(ctx)
    st = next((m for m in members if m.name == "string"), None)
    if not isinstance(fd, FuncV) or st is None:
        raise AnalysisError("anchor vanished: format_default / Primitive.string")
    rows = []
    for s in STRING_PROBES:
        case = f"format_default(Primitive.string, {s!r})"
        try:
            got = I.call(fd, [st, s, False, None], {}, Run(), None)
        except Raised as r:
            rows.append({"ok": False, "case": case, "message": f"{case} raises {short_exc(r.cls)}", "line": fd.node.lineno})
            continue
        except Limit as e:
            raise AnalysisError(f"format_default not understood: {e}")
        if not isinstance(got, str):
            raise AnalysisError(f"{case} is not evaluated to a constant string: {got!r}")
        try:
            val = ast.literal_eval(got)
        except (SyntaxError, ValueError):
            val = ("<not a literal>",)
        rows.append({"ok": val == s, "case": case, "line": fd.node.lineno,
                     "message": f"{case} emits {got}, which evaluates to {val!r} in the generated module, not to the definition's {s!r}"})
    return rows


def synthetic_definitions():
    """Small message definitions exercising: per-version field visibility, nested struct arrays (with their own version ranges),
    nullable-from-a-version, tagged-from-a-version, explicit defaults, flexible-from-a-version.  Plain data; the expectation
    below is computed from this data only (an independent reading of the definition format)."""
    INF = float("inf")
    P = lambda name, typ, versions, **kw: dict(kind="prim", name=name, type=typ, versions=versions, **kw)
    tp = {"name": "TopicPartitions", "versions": (0, INF), "fields": [P("TopicName", "string", (0, INF)), P("PartitionIndex", "int32", (0, INF))]}
    asg = {"name": "Assignment", "versions": (0, INF), "fields": [dict(kind="carray", name="TopicPartitions", struct=tp, versions=(0, INF))]}
    return [{
        "name": "DemoGroupResponse", "type": "response", "apiKey": 98, "validVersions": (0, 1), "flexibleVersions": (1, INF),
        "fields": [
            dict(kind="array", name="Members", type="Member", versions=(0, INF), fields=[
                P("MemberId", "string", (0, INF)),
                dict(kind="cstruct", name="Assignment", struct=asg, versions=(0, INF)),
                dict(kind="cstruct", name="TargetAssignment", struct=asg, versions=(1, INF)),
            ]),
        ]}, {
        "name": "DemoThingRequest", "type": "request", "apiKey": 99, "validVersions": (0, 3), "flexibleVersions": (2, INF),
        "extra": {"latestVersionUnstable": True},  # a key of the upstream format kio does not interpret: every declared version is generated
        "fields": [
            P("TopicName", "string", (0, INF)),
            P("RetryCount", "int32", (0, INF), default="3"),
            P("OldFlag", "bool", (0, 1)),
            dict(kind="array", name="PartitionStates", type="PartitionState", versions=(1, INF), nullableVersions=(2, INF), fields=[
                P("PartitionIndex", "int32", (0, INF)),
                P("LeaderEpoch", "int32", (2, INF), default="-1"),
                P("IsNew", "bool", (3, INF), taggedVersions=(3, INF), tag=0, ignorable=True, default="false"),
            ]),
            P("ClusterId", "string", (2, INF), taggedVersions=(2, INF), tag=1, ignorable=True, nullableVersions=(2, INF), default="null"),
            P("Newest", "int64", (3, 3)),
            dict(kind="struct", name="EpochInfo", type="EpochInfo", versions=(2, INF), taggedVersions=(2, INF), tag=6, fields=[
                P("Epoch", "int32", (0, INF), default="-1"),
                P("EndOffset", "int64", (0, INF), default="-1"),
            ]),
            dict(kind="struct", name="LeaderInfo", type="LeaderInfo", versions=(2, INF), taggedVersions=(2, INF), tag=7, fields=[
                P("LeaderId", "int32", (0, INF), default="-1"),
                P("Rack", "string", (0, INF)),
            ]),
            dict(kind="struct", name="LimitsInfo", type="LimitsInfo", versions=(2, INF), taggedVersions=(2, INF), tag=8, fields=[
                P("Soft", "int32", (0, INF), default="0"),
                P("Hard", "int32", (0, INF), taggedVersions=(2, INF), tag=0, ignorable=False),  # tagged, but a required keyword: no default
            ]),
            P("Reason", "string", (0, INF), taggedVersions=(2, INF), tag=2, ignorable=True),
            P("TransactionalId", "string", (0, INF), nullableVersions=(1, INF), entityType="transactionalId"),
            P("ProducerId", "int64", (1, INF), entityType="producerId"),
            P("Owner", "string", (2, INF), taggedVersions=(2, INF), tag=3, ignorable=False),
            P("Weight", "int32", (2, INF), taggedVersions=(2, INF), tag=4, ignorable=False),
        ]}, {
        "name": "DemoThingResponse", "type": "response", "apiKey": 99, "validVersions": (1, 2), "flexibleVersions": (2, INF),
        "fields": [
            P("ThrottleCount", "int16", (1, INF)),
            dict(kind="struct", name="Coordinator", type="CoordinatorInfo", versions=(2, INF), nullableVersions=None, fields=[
                P("NodeId", "int32", (0, INF)),
                P("Host", "string", (0, INF)),
            ]),
        ]}]


PY_HINT = {"string": "str", "int8": "i8", "int16": "i16", "int32": "i32", "int64": "i64", "bool": "bool", "float64": "f64", "uuid": "uuid.UUID | None"}


def generated_modules(ctx):
    """G14: generate_models evaluated (E2) on the synthetic definitions; the emitted code of every version is parsed and compared
    class by class, field by field with what the definition says for that version."""
    I = ctx.interp
    gs, pm = _mod(ctx, "codegen.generate_schema"), _mod(ctx, "codegen.parser")
    VR = _mod(ctx, "codegen.versions").env.vars.get("VersionRange")
    gm = gs.env.vars.get("generate_models")
    need = {n: pm.env.vars.get(n) for n in ("MessageSchema", "PrimitiveField", "EntityArrayField", "EntityField", "EntityType", "EntityArrayType",
                                            "CommonStruct", "CommonStructField", "CommonStructArrayField", "CommonStructType", "CommonStructArrayType")}
    Prim, members = primitive_members(ctx)
    if not isinstance(gm, FuncV) or not all(isinstance(v, ClassV) for v in need.values()) or not isinstance(VR, ClassV):
        raise AnalysisError("anchor vanished: codegen.generate_schema.generate_models / codegen.parser model classes")
    by_value = {m.value: m for m in members}
    mk = lambda r: None if r is None else I.call(VR, [r[0], r[1]], {}, Run(), None)
    inside = lambda r, v: r is not None and r[0] <= v <= r[1]

    def model(cls, attrs):
        """An instance of a pydantic model class: the given attributes plus the declared defaults of every other field, then the
        post root validators (a validator that rewrites a parsed definition is part of the translation)."""
        return model_instance(cls, attrs, I)

    structs = {}

    def build_struct(sd):
        if sd["name"] not in structs:
            structs[sd["name"]] = model(need["CommonStruct"], {"name": sd["name"], "versions": mk(sd["versions"]),
                                                               "fields": tuple(build(x) for x in sd["fields"])})
        return structs[sd["name"]]

    def build(f):
        base = {"name": f["name"], "versions": mk(f["versions"]), "nullableVersions": mk(f.get("nullableVersions")),
                "ignorable": f.get("ignorable", False), "mapKey": False, "about": None, "entityType": f.get("entityType"),
                "tag": f.get("tag"), "taggedVersions": mk(f.get("taggedVersions"))}
        if f["kind"] == "prim":
            return model(need["PrimitiveField"], dict(base, type=by_value[f["type"]], default=f.get("default")))
        if f["kind"] in ("cstruct", "carray"):
            st = build_struct(f["struct"])
            if f["kind"] == "cstruct":
                return model(need["CommonStructField"], dict(base, type=I.call(need["CommonStructType"], [st], {}, Run(), None), default=None))
            return model(need["CommonStructArrayField"], dict(base, type=I.call(need["CommonStructArrayType"], [st], {}, Run(), None)))
        sub = tuple(build(x) for x in f["fields"])
        if f["kind"] == "array":
            return model(need["EntityArrayField"], dict(base, type=I.call(need["EntityArrayType"], [f["type"]], {}, Run(), None), fields=sub))
        return model(need["EntityField"], dict(base, type=I.call(need["EntityType"], [f["type"]], {}, Run(), None), fields=sub, default=None))

    rows = []
    for d in synthetic_definitions():
        for holder in ("seen", "custom_types", "seen_custom_types"):
            h = gs.env.vars.get(holder)
            if isinstance(h, ListV):
                h.items.clear()
            elif isinstance(h, DictV):
                h.d.clear()
        structs.clear()
        schema = model(need["MessageSchema"], dict({"name": d["name"], "type": d["type"], "apiKey": d["apiKey"], "validVersions": mk(d["validVersions"]),
                                                    "flexibleVersions": mk(d["flexibleVersions"]), "fields": tuple(build(f) for f in d["fields"])},
                                                   **d.get("extra", {})))
        try:
            out = I.call(gm, [schema], {}, Run(), None)
            items = I.iterate_concrete(out, Run(), None)
        except Raised as r:
            rows.append({"ok": False, "case": d["name"], "message": f"generate_models({d['name']}) raises {short_exc(r.cls)} at {r.site}"})
            continue
        except Limit as e:
            raise AnalysisError(f"generate_models not understood: {e}")
        code = {}
        for it in items:
            if isinstance(it, tuple) and len(it) == 2 and isinstance(it[1], str):
                code[it[0]] = code.get(it[0], "") + it[1]
            elif isinstance(it, tuple) and len(it) == 2 and isinstance(it[1], Sym):
                raise AnalysisError(f"generate_models({d['name']}) emits non-constant code for version {it[0]}: {it[1]!r}")
        lo, hi = d["validVersions"]
        rows.append({"ok": sorted(code) == list(range(lo, hi + 1)), "case": f"{d['name']} versions",
                     "message": f"{d['name']}: code is generated for versions {sorted(code)}, the definition declares {lo}-{hi}"})
        for v in range(lo, hi + 1):
            if v not in code:
                continue
            try:
                tree = ast.parse(code[v])
            except SyntaxError as e:
                rows.append({"ok": False, "case": f"{d['name']} v{v}", "message": f"{d['name']} v{v}: the generated code does not parse: {e}"})
                continue
            got = {}
            order = []
            for c in tree.body:
                if not isinstance(c, ast.ClassDef):
                    continue
                cv, fl = {}, []
                for st in c.body:
                    if isinstance(st, ast.AnnAssign) and isinstance(st.target, ast.Name):
                        if "ClassVar" in ast.unparse(st.annotation):
                            cv[st.target.id] = ast.unparse(st.value) if st.value is not None else None
                        else:
                            kws = {}
                            if isinstance(st.value, ast.Call) and ast.unparse(st.value.func) == "field":
                                kws = {k.arg: ast.unparse(k.value) for k in st.value.keywords}
                            elif st.value is not None:
                                kws = {"default": ast.unparse(st.value)}
                            fl.append((st.target.id, ast.unparse(st.annotation).replace(" ", ""), kws))
                got[c.name] = (cv, fl, [ast.unparse(x) for x in c.decorator_list])
                order.append(c.name)
            flexible = inside(d["flexibleVersions"], v)

            def expect_fields(fields):
                out_ = []
                for f in fields:
                    if not inside(f["versions"], v):
                        continue
                    name = snake_ref(f["name"])
                    tagged, nullable = inside(f.get("taggedVersions"), v), inside(f.get("nullableVersions"), v)
                    if f["kind"] == "prim":
                        hint = PY_HINT[f["type"]]
                        if f.get("entityType"):
                            hint = f["entityType"][0].upper() + f["entityType"][1:]  # the custom type of that entity, same nullability rules
                        opt = nullable or (tagged and f.get("ignorable") and f.get("default") is None)
                        ann = hint + ("|None" if opt and "None" not in hint else "")
                    elif f["kind"] == "array":
                        ann = f"tuple[{f['type']},...]" + ("|None" if nullable else "")
                    elif f["kind"] == "carray":
                        ann = f"tuple[{f['struct']['name']},...]" + ("|None" if nullable else "")
                    elif f["kind"] == "cstruct":
                        ann = f["struct"]["name"] + ("|None" if nullable else "")
                    else:
                        ann = f["type"] + ("|None" if nullable else "")
                    out_.append((name, ann.replace(" ", ""), 0 if not tagged else f["tag"], tagged, f))
                return out_

            def check_class(cname, fields, top):
                tag = f"{d['name']} v{v} class {cname}"
                if cname not in got:
                    rows.append({"ok": False, "case": tag, "message": f"{tag}: the class is not generated (classes: {order})"})
                    return
                cv, fl, decos = got[cname]
                problems = []
                want_cv = {"__version__": f"i16({v})", "__flexible__": str(flexible),
                           "__type__": f"EntityType.{d['type']}" if top else "EntityType.nested",
                           "__api_key__": f"i16({d['apiKey']})",
                           "__header_schema__": "RequestHeader" if d["type"] == "request" else "ResponseHeader"}
                for k, w in want_cv.items():
                    if cv.get(k) != w:
                        problems.append(f"{k} = {cv.get(k)}, the definition gives {w}")
                exp = expect_fields(fields)
                if [e[0] for e in exp] != [g[0] for g in fl]:
                    problems.append(f"fields are {[g[0] for g in fl]}, the definition's fields valid in v{v} are {[e[0] for e in exp]} (in this order)")
                else:
                    for (name, ann, tg, tagged, f), (gname, gann, kws) in zip(exp, fl):
                        if gann != ann:
                            problems.append(f"{name}: annotated {gann}, the definition gives {ann}")
                        md = ast.literal_eval(kws["metadata"]) if "metadata" in kws else {}
                        if md.get("tag") != (f["tag"] if tagged else None):
                            problems.append(f"{name}: metadata tag {md.get('tag')!r}, the definition gives {f['tag'] if tagged else None!r}")
                        if f["kind"] == "prim" and md.get("kafka_type") != f["type"]:
                            problems.append(f"{name}: kafka_type {md.get('kafka_type')!r}, the definition says {f['type']!r}")
                        if f["kind"] == "prim" and f.get("default") is not None:
                            wd = {"false": "False", "true": "True", "null": "None"}.get(f["default"])
                            if wd is None and f["type"] in ("int8", "int16", "int32", "int64"):
                                wd = f"{PY_HINT[f['type']]}({f['default']})"
                            if kws.get("default") != wd:
                                problems.append(f"{name}: default {kws.get('default')!r}, the definition's default {f['default']!r} is {wd}")
                        if f["kind"] == "struct" and tagged:
                            all_def = all(x["kind"] == "prim" and x.get("default") is not None for x in f["fields"])
                            if all_def and kws.get("default") != f"{f['type']}()":
                                problems.append(f"{name}: a tagged struct whose members all have defaults must default to {f['type']}() (so that an "
                                                f"all-default value is omitted from the wire); got default={kws.get('default')!r}")
                            if not all_def and kws.get("default") == f"{f['type']}()":
                                problems.append(f"{name}: defaults to {f['type']}() although member(s) have no default")
                        if kws.get("default") == "None" and "None" not in gann:
                            problems.append(f"{name}: default None on a field annotated {gann} (None is not a value of that type)")
                        if f["kind"] == "prim" and f.get("default") is None and not tagged and "default" in kws:
                            problems.append(f"{name}: a default ({kws['default']}) although the definition gives none")
                if not any("frozen=True" in x and "slots=True" in x and "kw_only=True" in x for x in decos):
                    problems.append(f"decorator {decos}")
                rows.append({"ok": not problems, "case": tag, "message": f"{tag}: " + "; ".join(problems)})

            done_cls = set()

            def walk(fields):
                for f in fields:
                    if not inside(f["versions"], v):
                        continue
                    if f["kind"] in ("array", "struct"):
                        walk(f["fields"])
                        check_class(f["type"], f["fields"], False)
                    elif f["kind"] in ("cstruct", "carray") and f["struct"]["name"] not in done_cls:
                        done_cls.add(f["struct"]["name"])
                        walk(f["struct"]["fields"])
                        check_class(f["struct"]["name"], f["struct"]["fields"], False)
            walk(d["fields"])
            check_class(d["name"], d["fields"], True)
            want_order = []

            def order_of(fields):
                for f in fields:
                    if not inside(f["versions"], v):
                        continue
                    if f["kind"] in ("array", "struct"):
                        order_of(f["fields"])
                        want_order.append(f["type"])
                    elif f["kind"] in ("cstruct", "carray") and f["struct"]["name"] not in want_order:
                        order_of(f["struct"]["fields"])
                        want_order.append(f["struct"]["name"])
            order_of(d["fields"])
            want_order.append(d["name"])
            rows.append({"ok": order == want_order, "case": f"{d['name']} v{v} classes",
                         "message": f"{d['name']} v{v}: classes are emitted as {order}; every class must be defined before it is used: {want_order}"})
    return rows


def snake_ref(name):
    """Reference snake-casing for plain CamelCase names (no acronyms, no digits): an underscore before every inner capital."""
    out = []
    for i, ch in enumerate(name):
        if ch.isupper() and i:
            out.append("_")
        out.append(ch.lower())
    return "".join(out)


def index_builder_rows(ctx):
    """G15: codegen.generate_index.build_index evaluated (E2) with get_message_entities replaced by a stub that yields a handful of
    shipped entity classes (among them API key 0 and a header without API key): every payload class must be reachable by name and
    by key; classes without an API key contribute no key."""
    I = ctx.interp
    from .source import add_virtual
    gi = _mod(ctx, "codegen.generate_index")
    bi = gi.env.vars.get("build_index")
    if not isinstance(bi, FuncV):
        raise AnalysisError("anchor vanished: codegen.generate_index.build_index")
    keys = ["kio.schema.produce.v0.request:ProduceRequest", "kio.schema.produce.v0.response:ProduceResponse",
            "kio.schema.produce.v3.request:ProduceRequest", "kio.schema.metadata.v12.request:MetadataRequest",
            "kio.schema.metadata.v12.response:MetadataResponse", "kio.schema.request_header.v1.header:RequestHeader",
            "kio.schema.fetch.v4.request:FetchRequest"]
    S = ctx.schema
    missing = [k for k in keys if k not in S.classes]
    if missing:
        raise AnalysisError(f"anchor vanished: schema classes {missing}")
    ents = tuple(I.entity_class(k) for k in keys)
    if ctx.sm.get("codegen._kverif_stub_entities") is None:
        add_virtual(ctx.sm, "codegen._kverif_stub_entities", "ENTITIES = ()\ndef get_message_entities():\n    return tuple((e, None) for e in ENTITIES)\n")
    st = I.module("codegen._kverif_stub_entities")
    st.env.vars["ENTITIES"] = ents
    saved = gi.env.vars.get("get_message_entities")
    gi.env.vars["get_message_entities"] = st.env.vars["get_message_entities"]
    try:
        res = I.call(bi, [], {}, Run(), None)
    except Raised as r:
        return [{"ok": False, "case": "build_index()", "message": f"build_index raises {short_exc(r.cls)} at {r.site}"}]
    except Limit as e:
        raise AnalysisError(f"codegen.generate_index.build_index not understood: {e}")
    finally:
        gi.env.vars["get_message_entities"] = saved
    if not (isinstance(res, tuple) and len(res) == 2 and all(isinstance(x, DictV) for x in res)):
        raise AnalysisError(f"build_index() is not evaluated to two mappings: {res!r}")
    names, akm = res

    def plain(d):
        return {k: (plain(v) if isinstance(v, DictV) else v) for k, v in d.d.items()}
    names_p, akm_p = plain(names), {int(k) if not isinstance(k, InstV) else k.attrs.get("_base_value_"): v for k, v in akm.d.items()}
    rows = []
    want_keys = {}
    for k in keys:
        c = S.classes[k]
        mod = S.modules[c["module"]]
        api, ver, typ = mod["api"], mod["version"], mod["type"]
        got = None
        for et, path in (names_p.get(api, {}).get(ver, {}) or {}).items():
            if getattr(et, "name", None) == typ:
                got = path
        rows.append({"ok": got == k, "case": f"schema_name_map[{api!r}][{ver}][{typ}]",
                     "message": f"build_index maps ({api!r}, {ver}, {typ}) to {got!r}; the entity is {k!r}"})
        ak = S.cv_const(c, "__api_key__")
        if isinstance(ak, int):
            want_keys[ak] = api
    rows.append({"ok": akm_p == want_keys, "case": "api_key_map",
                 "message": f"build_index gives api_key_map {akm_p}; the entities carry the keys {want_keys} (a key of 0 is a key)"})
    rows.append({"ok": list(akm_p) == sorted(akm_p), "case": "api_key_map order", "message": f"api_key_map keys are not sorted: {list(akm_p)}"})
    return rows


def special_name_rows(ctx):
    """G16: the parser's name-based special cases (error codes, millisecond durations and timestamps) evaluated on the shipped
    vocabulary: for every shipped scalar field, the (capitalised-word) name and its wire type must come out with the kafka_type the
    shipped field carries -- an int16 named TopicConfigErrorCode stays int16, ErrorCode becomes error_code, TimeoutMs a duration."""
    I = ctx.interp
    S = ctx.schema
    pm = _mod(ctx, "codegen.parser")
    PF = pm.env.vars.get("PrimitiveField")
    if not isinstance(PF, ClassV):
        raise AnalysisError("anchor vanished: codegen.parser.PrimitiveField")
    vals = []
    for vname in ("special_case_error_code", "special_case_time_fields"):
        try:
            vals.append(I.getattr_(PF, vname, Run(), None))
        except Raised:
            raise AnalysisError(f"anchor vanished: codegen.parser.PrimitiveField.{vname}")
    WIRE = {"error_code": ("int16", ""), "timedelta_i32": ("int32", "Ms"), "timedelta_i64": ("int64", "Ms"), "datetime_i64": ("int64", "Ms")}
    seen = {}
    for c in S.classes.values():
        for f in c["fields"]:
            kt = (f.get("metadata") or {}).get("kafka_type")
            base, arr, outer, inner = S.base_of(f["type"])
            if kt is None or arr:
                continue
            seen.setdefault((f["name"], kt), f"{c['key']}.{f['name']}")
    rows = []
    for (s, kt), where in sorted(seen.items()):
        wire, suffix = WIRE.get(kt, (kt, ""))
        camel = "".join(p.capitalize() for p in s.rstrip("_").split("_")) + suffix
        cur = DictV({"name": camel, "type": wire})
        err = None
        for v in vals:
            try:
                cur = I.call(v, [cur], {}, Run(), None)
            except Raised as r:
                err = short_exc(r.cls)
                break
            except Limit as e:
                raise AnalysisError(f"PrimitiveField special-case validators not understood: {e}")
        if err is None and not isinstance(cur, DictV):
            raise AnalysisError(f"special-case validators return {cur!r} for {camel}")
        got = None if err else cur.d.get("type")
        rows.append({"ok": got == kt, "construct": "codegen.parser:PrimitiveField", "stmt": f"special cases of {camel!r}: {wire}",
                     "message": f"a {wire} field named {camel!r} comes out of the parser's special cases as {got or err!r}; the shipped field "
                                f"{where} has kafka_type {kt!r}", "file": "codegen/parser.py", "line": PF.node.lineno})
    return rows


def custom_type_rows(ctx):
    """G17: the definition the generator emits for every shipped custom type (kio/schema/types.py) is of the shipped kind and base:
    `class TopicName(str): ...` -- a real subclass that isinstance() works on -- not an alias."""
    I = ctx.interp
    S = ctx.schema
    gs = _mod(ctx, "codegen.generate_schema")
    CT = gs.env.vars.get("CustomTypeDef")
    if not isinstance(CT, ClassV):
        raise AnalysisError("anchor vanished: codegen.generate_schema.CustomTypeDef")
    P, members = primitive_members(ctx)
    by_hint = {}
    for m in members:
        try:
            by_hint[I.call(I.getattr_(m, "get_type_hint", Run(), None), [], {}, Run(), None)] = m
        except (Raised, Limit):
            pass
    rows = []
    if not S.custom_types:
        raise AnalysisError("anchor vanished: no custom types found in kio/schema/types.py")
    for ref, base in sorted(S.custom_types.items()):
        name = ref.split(":")[1]
        short = base.split(":")[-1]
        m = by_hint.get(short)
        if m is None:
            rows.append({"ok": False, "case": name, "message": f"no Primitive has the type hint {short!r} that {name} derives from"})
            continue
        try:
            inst = I.call(CT, [], {"name": name, "type_": m}, Run(), None)
            code = I.call(I.getattr_(inst, "get_definition", Run(), None), [], {}, Run(), None)
        except Raised as r:
            rows.append({"ok": False, "case": name, "message": f"CustomTypeDef({name}).get_definition() raises {short_exc(r.cls)}"})
            continue
        except Limit as e:
            raise AnalysisError(f"CustomTypeDef.get_definition not understood: {e}")
        if not isinstance(code, str):
            raise AnalysisError(f"CustomTypeDef({name}).get_definition() is not evaluated to a constant string: {code!r}")
        try:
            st = ast.parse(code).body
        except SyntaxError:
            st = []
        ok = len(st) == 1 and isinstance(st[0], ast.ClassDef) and st[0].name == name and [ast.unparse(b) for b in st[0].bases] == [short]
        rows.append({"ok": ok, "case": name, "message": f"the generator defines {name} as `{code.strip()}`; the shipped schema has `class {name}({short}): ...`"})
    return rows


def primitive_array_lines(ctx):
    """G18: generate_primitive_array_field over definitions x versions.  Per the definition: nullable in v iff nullableVersions
    contains v; tagged in v iff taggedVersions contains v.  Returns (problems by aspect, number of cases)."""
    I = ctx.interp
    gs = _mod(ctx, "codegen.generate_schema")
    pm = _mod(ctx, "codegen.parser")
    VR = _mod(ctx, "codegen.versions").env.vars.get("VersionRange")
    fn = gs.env.vars.get("generate_primitive_array_field")
    PAF, PAT = pm.env.vars.get("PrimitiveArrayField"), pm.env.vars.get("PrimitiveArrayType")
    if not isinstance(fn, FuncV) or not isinstance(PAF, ClassV) or not isinstance(PAT, ClassV):
        raise AnalysisError("anchor vanished: generate_primitive_array_field / PrimitiveArrayField / PrimitiveArrayType")
    P, members = primitive_members(ctx)
    by_value = {m.value: m for m in members}
    INF = float("inf")
    mk = lambda r: None if r is None else I.call(VR, [r[0], r[1]], {}, Run(), None)
    problems = {"nullability": [], "tag": [], "name": [], "items": [], "coherence": [], "other": []}
    n = 0
    for kt in ("int32", "string", "uuid"):
        for tv in (None, (1, INF)):
            for nv in (None, (2, INF)):
              for dflt in ((None, "null") if nv is not None and kt == "int32" else (None,)):
                  fld = model_instance(PAF, {"name": "ReplicaIds", "default": dflt, "versions": mk((0, INF)), "nullableVersions": mk(nv), "ignorable": False, "mapKey": False,
                                    "about": None, "entityType": None, "tag": None if tv is None else 2, "taggedVersions": mk(tv),
                                    "type": I.call(PAT, [by_value[kt]], {}, Run(), None)})
                  for version in (0, 1, 2, 3):
                      n += 1
                      case = f"[]{kt} taggedVersions={'1+' if tv else None} nullableVersions={'2+' if nv else None}" + \
                          (f" default={dflt!r}" if dflt else "") + f" version={version}"
                      try:
                          line = I.call(fn, [], {"field": fld, "inner_type": by_value[kt], "version": version, "custom_type": None}, Run(), None)
                      except Raised as r:
                          problems["other"].append(f"{case}: raises {short_exc(r.cls)}")
                          continue
                      except Limit as e:
                          raise AnalysisError(f"generate_primitive_array_field not understood: {e}")
                      if not isinstance(line, str):
                          raise AnalysisError(f"generate_primitive_array_field({case}) is not evaluated to a constant string: {line!r}")
                      parsed = _parse_field_line(line)
                      if parsed is None:
                          problems["other"].append(f"{case}: emits {line!r}")
                          continue
                      name, ann, kws = parsed
                      tagged = tv is not None and tv[0] <= version
                      nullable = nv is not None and nv[0] <= version
                      if name != "replica_ids":
                          problems["name"].append(f"{case}: named {name!r}")
                      if ann.replace(" ", "").endswith("|None") != nullable:
                          problems["nullability"].append(f"{case}: annotated {ann!r}")
                      if kws.get("default") == "None" and not ann.replace(" ", "").endswith("|None"):
                          problems["coherence"].append(f"{case}: default None on a field annotated {ann!r}")
                      inner = ann.replace(" ", "").removesuffix("|None")
                      want_inner = {"int32": "tuple[i32,...]", "string": "tuple[str,...]", "uuid": "tuple[uuid.UUID|None,...]"}[kt]
                      if inner != want_inner:
                          problems["items"].append(f"{case}: items annotated {ann!r}, expected {want_inner} (a uuid is modelled optional everywhere: "
                                                   f"the all-zero UUID reads as None)")
                      md = ast.literal_eval(kws["metadata"]) if "metadata" in kws else {}
                      if md.get("tag") != (2 if tagged else None) or md.get("kafka_type") != kt:
                          problems["tag"].append(f"{case}: metadata {md}")
    return problems, n



def field_validator_rows(ctx):
    """G19: the root validators of the field model, evaluated in pydantic's order (pre validators, defaults filled in, post validators) on
    the key combinations a definition can have.  The message-definition format: `tag` and `taggedVersions` come together or not at all;
    `versions` may be missing only when `taggedVersions` is there (then it is the same range)."""
    I = ctx.interp
    pm = _mod(ctx, "codegen.parser")
    BF = pm.env.vars.get("_BaseField")
    if not isinstance(BF, ClassV):
        raise AnalysisError("anchor vanished: codegen.parser._BaseField")
    pre = I.getattr_(BF, "use_tagged_versions_as_fallback_for_versions", Run(), None)
    post = I.getattr_(BF, "validate_tag_tagged_versions_composite", Run(), None)
    cases = [
        ({"name": "A", "versions": "0+"}, "ok", {"versions": "0+", "tag": None, "taggedVersions": None}),
        ({"name": "A", "versions": "0+", "tag": 1, "taggedVersions": "2+"}, "ok", {"versions": "0+", "tag": 1, "taggedVersions": "2+"}),
        ({"name": "A", "tag": 1, "taggedVersions": "2+"}, "ok", {"versions": "2+", "tag": 1, "taggedVersions": "2+"}),
        ({"name": "A", "versions": "0+", "tag": 1}, "ValueError", None),
        ({"name": "A", "versions": "0+", "taggedVersions": "2+"}, "ValueError", None),
        ({"name": "A"}, "ValueError", None),
    ]
    rows = []
    for given, want, want_vals in cases:
        case = f"field definition keys {given}"
        try:
            vals = I.call(pre, [DictV(dict(given))], {}, Run(), None)
            if not isinstance(vals, DictV):
                raise AnalysisError(f"pre validator returns {vals!r}")
            full = {"tag": None, "taggedVersions": None, "nullableVersions": None}
            full.update(vals.d)
            out = I.call(post, [DictV(full)], {}, Run(), None)
            got, got_vals = "ok", {k: out.d.get(k) for k in ("versions", "tag", "taggedVersions")} if isinstance(out, DictV) else None
        except Raised as r:
            got, got_vals = short_exc(r.cls).split(":")[-1], None
        except Limit as e:
            raise AnalysisError(f"_BaseField validators not understood: {e}")
        ok = got == want and (want_vals is None or got_vals == want_vals)
        rows.append({"ok": ok, "case": case, "message": f"{case}: the validators give {got}{'' if got_vals is None else ' ' + str(got_vals)}; the format "
                                                          f"prescribes {want}{'' if want_vals is None else ' ' + str(want_vals)}"})
    return rows


def error_code_rows(ctx):
    """G21: the per-line translation of codegen.generate_error_codes.main -- the body of its loop over the listing's lines, lifted into a
    function by an AST transformation (print(x, file=...) -> collect x; continue -> return) and evaluated by E2 on representative
    rows of the listing, the negative code and the docstring-less code 0 among them.  Every row must yield its member line."""
    I = ctx.interp
    from .source import add_virtual
    src = ctx.sm.require("codegen.generate_error_codes")
    main = next((n for n in src.tree.body if isinstance(n, ast.FunctionDef) and n.name == "main"), None)
    if main is None:
        raise AnalysisError("anchor vanished: codegen.generate_error_codes.main")
    loops = [n for n in ast.walk(main) if isinstance(n, ast.For) and isinstance(n.target, ast.Name) and
             any(isinstance(c, ast.Call) and ast.unparse(c.func).split(".")[-1] == "parse_line" for st in n.body for c in ast.walk(st))]
    if len(loops) != 1:
        raise AnalysisError(f"codegen.generate_error_codes.main: {len(loops)} loops that parse lines of the listing (expected one)")
    loop = loops[0]

    class Lift(ast.NodeTransformer):
        def visit_Continue(self, node):
            return ast.Return(value=ast.Constant(value=None))

        def visit_Break(self, node):
            return ast.Return(value=ast.Constant(value="<break>"))

        def visit_Expr(self, node):
            self.generic_visit(node)
            c = node.value
            if isinstance(c, ast.Call) and isinstance(c.func, ast.Name) and c.func.id == "print" and len(c.args) == 1:
                return ast.Expr(value=ast.Call(func=ast.Attribute(value=ast.Name(id="_kverif_out", ctx=ast.Load()), attr="append", ctx=ast.Load()),
                                               args=[c.args[0]], keywords=[]))
            return node
    body = [Lift().visit(ast.parse(ast.unparse(st)).body[0]) for st in loop.body]
    names = sorted({n.name for n in src.tree.body if isinstance(n, (ast.FunctionDef, ast.ClassDef))} |
                   {t.id for n in src.tree.body if isinstance(n, (ast.Assign, ast.AnnAssign))
                    for t in (n.targets if isinstance(n, ast.Assign) else [n.target]) if isinstance(t, ast.Name)})
    fn = ast.FunctionDef(name="_kverif_line", args=ast.arguments(posonlyargs=[], args=[ast.arg(arg=loop.target.id), ast.arg(arg="_kverif_out")],
                                                                  kwonlyargs=[], kw_defaults=[], defaults=[]),
                         body=body, decorator_list=[], type_params=[])
    text = f"from codegen.generate_error_codes import {', '.join(n for n in names if n != 'main')}\n\n" + ast.unparse(ast.fix_missing_locations(ast.Module(body=[fn], type_ignores=[]))) + "\n"
    modname = "codegen._kverif_error_lines"
    if ctx.sm.get(modname) is not None:
        ctx.sm.modules.pop(modname, None)
    add_virtual(ctx.sm, modname, text)
    try:
        f = I.module(modname).env.vars.get("_kverif_line")
    except (Raised, Limit) as e:
        raise AnalysisError(f"lifted loop body of generate_error_codes.main not understood: {e}")
    samples = [(-1, "UNKNOWN_SERVER_ERROR", False, "The server experienced an unexpected error when processing the request."),
               (0, "NONE", False, "None"), (1, "OFFSET_OUT_OF_RANGE", False, "The requested offset is not within the range of offsets maintained by the server."),
               (3, "UNKNOWN_TOPIC_OR_PARTITION", True, "This server does not host this topic-partition."),
               (127, "REBOOTSTRAP_REQUIRED", False, "Client metadata is stale, client should rebootstrap to obtain new metadata.")]
    rows = []
    for code, name, retriable, msg in samples:
        line = f"{code} {name} {retriable} {msg}\n"
        out = ListV([])
        case = f"listing row {line.strip()[:50]!r}"
        try:
            I.call(f, [line, out], {}, Run(), None)
        except Raised as r:
            rows.append({"ok": False, "case": case, "message": f"{case}: raises {short_exc(r.cls)} at {r.site}"})
            continue
        except Limit as e:
            raise AnalysisError(f"generate_error_codes loop body not understood: {e}")
        got = [x for x in out.items]
        want = f"    {name.lower()} = {code}, {retriable}"
        ok = bool(got) and got[0] == want and (code == 0 or (len(got) > 1 and isinstance(got[1], str) and msg in got[1]))
        rows.append({"ok": ok, "case": case,
                     "message": f"{case}: the generator emits {got[:2]!r}; the listing row defines the member line {want!r}"
                                + ("" if got else " -- the row is dropped, the code is missing from ErrorCode")})
    return rows
