"""E8 tables (see gen.py); built incrementally."""
from __future__ import annotations


def compare_with_instances(ctx):
    from .gen import class_template_options
    S = ctx.schema
    rows = []
    opts, line = class_template_options(ctx)
    shipped = {}
    for c in S.classes.values():
        for d in c["decorators"]:
            if "call" in d:
                key = tuple(sorted((k, v.get("c")) for k, v in d["kw"].items()))
                shipped[key] = shipped.get(key, 0) + 1
    want = tuple(sorted(opts.items()))
    rows.append({"ok": set(shipped) == {want}, "construct": "codegen.generate_schema:generate_dataclass",
                 "stmt": f"class_start @dataclass({opts})", "line": line,
                 "message": f"generator decorates with {dict(want)} but shipped classes carry {[dict(k) for k in shipped]}"})
    return rows
