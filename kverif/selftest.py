"""Checker self-validation: positive controls (every run / setup), mutant and silent corpora
(thorough / development).  Filled in as the engines land."""
from __future__ import annotations


def main(argv) -> int:
    from .controls import run_controls
    missed = run_controls(verbose=True)
    if missed:
        for m in missed:
            print(f"ANALYSIS-ERROR control not detected: {m}")
        return 2
    return 0
