"""Checker self-validation (DESIGN.md section 8).

  ./vcheck selftest --controls          positive controls only (setup_cmd; fast)
  ./vcheck selftest --mutants [ids..]   single-edit variants of /repo in scratch copies: the named
                                        check must exit 1 and name the edited construct
  ./vcheck selftest --silent [ids..]    behaviour-preserving variants: every listed check must exit 0
  ./vcheck selftest --seeded [ids..]    patches kept under /verif/seeded/<id>/patch.diff
  ./vcheck selftest --refactors [ids..] behaviour-preserving refactorings under /verif/refactors/<id>/: no check may exit 1

Scratch copies are hard-link trees under tempfile.mkdtemp() and are removed in a finally."""
from __future__ import annotations

import json
import os
import shutil
import subprocess
import sys
import tempfile
import time
from concurrent.futures import ThreadPoolExecutor
from pathlib import Path

from .core import REPO, VERIF


def scratch_copy() -> Path:
    d = Path(tempfile.mkdtemp(prefix="kverif-scratch-"))
    for sub in ("src", "codegen"):
        shutil.copytree(REPO / sub, d / sub, copy_function=os.link, ignore=shutil.ignore_patterns("__pycache__", "*.pyc"))
    return d


def edit(root: Path, rel: str, old: str, new: str, count: int = 1):
    p = root / rel
    text = p.read_text()
    if text.count(old) < 1:
        raise RuntimeError(f"selftest edit: pattern not found in {rel}: {old[:60]!r}")
    if count and text.count(old) != count:
        raise RuntimeError(f"selftest edit: pattern occurs {text.count(old)}x in {rel} (expected {count}): {old[:60]!r}")
    p.unlink()  # break the hard link: never write through to /repo
    p.write_text(text.replace(old, new))


def run_check(root: Path, pid: str, tier="quick"):
    env = dict(os.environ, KVERIF_REPO=str(root), KVERIF_CACHE=str(root / ".cache"), PYTHONDONTWRITEBYTECODE="1",
               KVERIF_EVIDENCE=str(root / "evidence"), KVERIF_REPLAY=str(root / "replay"))
    r = subprocess.run([str(VERIF / "vcheck"), pid, "--tier", tier], capture_output=True, text=True, env=env, cwd=str(VERIF))
    return r.returncode, r.stdout + r.stderr


def run_variant(v: dict, kind: str):
    root = scratch_copy()
    t0 = time.time()
    try:
        if "patch" in v:
            r = subprocess.run(["git", "apply", "--directory", str(root), "--unsafe-paths", v["patch"]], capture_output=True, text=True,
                               cwd=str(root))
            if r.returncode != 0:
                # git apply refuses to write through hard links only if paths are outside; fall back to patch(1)
                r = subprocess.run(["patch", "-p1", "-d", str(root), "-i", v["patch"], "--force"], capture_output=True, text=True)
                if r.returncode != 0:
                    return {"id": v["id"], "ok": False, "why": f"patch does not apply: {r.stderr[:200]} {r.stdout[:200]}"}
        for e in v.get("edits", []):
            edit(root, *e)
        out = {"id": v["id"], "results": {}, "ok": True, "why": ""}
        for pid in v["checks"]:
            rc, text = run_check(root, pid)
            viol = [l for l in text.splitlines() if l.strip().startswith(pid + " ")]
            out["results"][pid] = {"rc": rc, "violations": viol[:6]}
            if kind == "probe":
                if rc == 2:
                    out["results"][pid]["violations"] = [l for l in text.splitlines() if "ANALYSIS-ERROR" in l][:2]
                continue
            if kind == "silent":
                if rc == 2 and v.get("allow_limit"):
                    out["results"][pid]["note"] = "analysis limit (not a verdict) on a shape the analyser does not follow"
                elif rc != 0:
                    out["ok"] = False
                    out["why"] += f"{pid} exit {rc} on a behaviour-preserving variant: {(viol or text.splitlines()[-3:])[:2]}; "
            else:
                want = v.get("expect", {}).get(pid, "")
                if rc != 1:
                    out["ok"] = False
                    out["why"] += f"{pid} exit {rc} (expected 1): {text.strip().splitlines()[-1][:200] if text.strip() else ''}; "
                elif want and not any(want in l for l in text.splitlines()):
                    out["ok"] = False
                    out["why"] += f"{pid} fired but did not name {want!r}; "
        out["wall_s"] = round(time.time() - t0, 1)
        return out
    except Exception as e:
        return {"id": v["id"], "ok": False, "why": f"{type(e).__name__}: {e}"}
    finally:
        shutil.rmtree(root, ignore_errors=True)


def load_seeded():
    out = []
    sd = VERIF / "seeded"
    if sd.is_dir():
        for d in sorted(sd.iterdir()):
            meta = d / "meta.json"
            if meta.exists() and (d / "patch.diff").exists():
                m = json.loads(meta.read_text())
                det = m.get("detected_by") or [m["property"]]
                # the check of the property the change was written against must report it; when that property is not among the
                # detecting checks (a change that in fact breaks a neighbouring property), the recorded detecting checks must
                checks = [m["property"]] if m["property"] in det else det
                if os.environ.get("KVERIF_SEEDED_ALL"):
                    checks = det
                out.append({"id": d.name, "patch": str(d / "patch.diff"), "checks": checks, "expect": m.get("expect", {}), "meta": m})
    return out


def load_refactors(ids=None, all_checks=False):
    """Independently written behaviour-preserving refactorings (refactors/<id>/): variants on which no check may report a violation."""
    from . import props as _props
    out = []
    rd = VERIF / "refactors"
    for d in sorted(rd.iterdir()) if rd.is_dir() else []:
        mf = d / "meta.json"
        if not mf.exists() or not (d / "patch.diff").exists() or (ids and d.name not in ids):
            continue
        m = json.loads(mf.read_text())
        checks = list(_props.ALL) if all_checks else (m.get("checks") or list(_props.ALL))
        lim = set(m.get("limits_tolerated") or {})
        strict, tolerant = [c for c in checks if c not in lim], [c for c in checks if c in lim]
        if strict:
            out.append({"id": d.name, "patch": str(d / "patch.diff"), "checks": strict})
        if tolerant:
            out.append({"id": d.name + "+limits", "patch": str(d / "patch.diff"), "checks": tolerant, "allow_limit": True})
    return out


def main(argv) -> int:
    from .controls import run_controls
    from .corpus import MUTANTS, SILENT
    mode = argv[0] if argv else "--controls"
    ids = set(argv[1:])
    if mode == "--controls":
        missed = run_controls(verbose=True)
        for m in missed:
            print(f"ANALYSIS-ERROR control not detected: {m}")
        return 2 if missed else 0
    if mode == "--mutants":
        todo, kind = [m for m in MUTANTS if not ids or m["id"] in ids], "mutant"
    elif mode == "--silent":
        todo, kind = [m for m in SILENT if not ids or m["id"] in ids], "silent"
        if os.environ.get("KVERIF_SILENT_ALL"):
            # every check on every behaviour-preserving variant (a limit is tolerated where the variant allows it, a VIOLATION never)
            from . import props as _props
            todo = [dict(m, checks=list(_props.ALL)) for m in todo]
    elif mode == "--patch":
        # evaluate one patch file against all (or the given) checks; prints what fires
        from . import props as _props
        v = {"id": Path(argv[1]).parent.name + "/" + Path(argv[1]).name, "patch": argv[1], "checks": list(argv[2:]) or list(_props.ALL)}
        r = run_variant(v, "probe")
        if "results" not in r:
            print(r)
            return 2
        line = []
        for pid, res in r["results"].items():
            mark = {0: "pass", 1: "VIOLATION", 2: "ANALYSIS-ERROR"}.get(res["rc"], str(res["rc"]))
            if res["rc"] == 0:
                line.append(pid)
                continue
            first = next((l for l in res["violations"] if "[quick]" not in l), "")
            print(f"{pid}: {mark} ({len([l for l in res['violations'] if '[quick]' not in l])}+) {first.strip()[:230]}")
        print("pass: " + " ".join(line))
        return 0
    elif mode == "--seeded":
        todo, kind = [m for m in load_seeded() if not ids or m["id"] in ids], "mutant"
    elif mode == "--refactors":
        # independently written behaviour-preserving refactorings (refactors/<id>/patch.diff): no check may report a violation;
        # an analysis limit (exit 2) is tolerated only for the checks the meta file lists, with the reason recorded there
        todo, kind = load_refactors(ids, bool(os.environ.get("KVERIF_SILENT_ALL"))), "silent"
    else:
        print(__doc__)
        return 2
    jobs = int(os.environ.get("KVERIF_JOBS", "8"))
    with ThreadPoolExecutor(jobs) as ex:
        results = list(ex.map(lambda v: run_variant(v, kind), todo))
    bad = 0
    for r in results:
        status = "ok" if r["ok"] else "FAIL"
        print(f"{kind} {r['id']}: {status} {r.get('why', '')} {json.dumps({k: v['rc'] for k, v in r.get('results', {}).items()})} {r.get('wall_s', '')}s")
        bad += 0 if r["ok"] else 1
    print(f"{kind}s: {len(results) - bad}/{len(results)} as expected")
    (VERIF / "selftest").mkdir(exist_ok=True)
    (VERIF / "selftest" / f"last-{kind}.json").write_text(json.dumps(results, indent=1))
    return 0 if not bad else 1
