"""Positive controls: tiny synthetic violating inputs that the engines' rules must flag.
Run by MANIFEST.setup_cmd and by the thorough tier; a control that does not fire is exit 2.
A rule whose expected violation count on the real tree is zero would otherwise pass
vacuously forever."""
from __future__ import annotations

CONTROLS = []


def control(name):
    def deco(fn):
        CONTROLS.append((name, fn))
        return fn
    return deco


def _ctx_with(name, text):
    from .ctx import Ctx
    from .source import add_virtual
    ctx = Ctx()
    add_virtual(ctx.sm, name, text)
    return ctx


def _paths(ctx, modname, fname, nargs=1, direction=None, value_type=None):
    from .values import StreamV, Sym
    P = ctx.plans
    f = P.I.module(modname).env.vars[fname]
    args = [StreamV("param")]
    if nargs == 2:
        args.append(Sym(("param", "value"), "int", lo=0, hi=255))
    P.A.paths(f, args, direction=direction)
    return P.A


@control("E4: reader using an unchecked raw read is logged as unchecked-used")
def c_unchecked_read():
    ctx = _ctx_with("kio.serial._ctl_r1", "def reader(buffer):\n    return buffer.read(4)\n")
    A = _paths(ctx, "kio.serial._ctl_r1", "reader")
    return any(k[1] == "read" and "unchecked-used" in k[4] for k in A.log)


@control("E4: reader calling read() without a size is logged")
def c_unsized_read():
    ctx = _ctx_with("kio.serial._ctl_r2", "def reader(buffer):\n    return buffer.read()\n")
    A = _paths(ctx, "kio.serial._ctl_r2", "reader")
    return any(k[1] == "read" and "size=None" in k[4] for k in A.log)


@control("E4: writer calling seek on the sink is logged")
def c_writer_seek():
    ctx = _ctx_with("kio.serial._ctl_w1", "def writer(buffer, value):\n    buffer.seek(0)\n    buffer.write(bytes([value]))\n")
    A = _paths(ctx, "kio.serial._ctl_w1", "writer", nargs=2)
    return any(k[1] == "seek" and k[2] == "param" for k in A.log)


@control("E4: closure mutating a captured list is logged as pre-existing mutation")
def c_captured_mutation():
    src = "def factory():\n    seen = []\n    def reader(buffer):\n        seen.append(1)\n        return buffer.read(0)\n    return reader\n"
    ctx = _ctx_with("kio.serial._ctl_c1", src)
    from .interp_base import Run
    from .values import StreamV
    P = ctx.plans
    f = P.I.call(P.I.module("kio.serial._ctl_c1").env.vars["factory"], [], {}, Run(), None)
    P.A.paths(f, [StreamV("param")])
    return any(k[1] == "mutate" and "pre-existing" in k[4] for k in P.A.log)


@control("E5: lookup keyed by wire data without a miss arm raises KeyError in the may-raise set")
def c_tainted_lookup():
    src = ("from kio.serial.readers import read_int8\nTABLE = {1: 'a', 2: 'b'}\n"
           "def reader(buffer):\n    return TABLE[read_int8(buffer)]\n")
    ctx = _ctx_with("kio.serial._ctl_e1", src)
    A = _paths(ctx, "kio.serial._ctl_e1", "reader")
    return any(k[1] == "KeyError" for k in A.raises)


@control("E5: handler swallowing BufferUnderflow is found by the handler scan")
def c_handler():
    src = ("from kio.serial.readers import read_exact\nfrom kio.serial.errors import SerialError\n"
           "def reader(buffer):\n    try:\n        return read_exact(buffer, 2)\n    except SerialError:\n        return None\n")
    ctx = _ctx_with("kio.serial._ctl_h1", src)
    from . import scan
    I = ctx.interp
    bu = I.module("kio.serial.errors").env.vars["BufferUnderflow"]
    hs = scan.handlers(ctx, ["kio.serial._ctl_h1"])
    return any(scan.catches(I, h, bu) and not h["reraises_same"] for h in hs)


@control("E4: module-level mutable state is found by the state scan")
def c_module_state():
    ctx = _ctx_with("kio.serial._ctl_s1", "_cache = {}\ndef f(x):\n    global _n\n    _n = x\n    _cache[x] = 1\n")
    from . import scan
    kinds = {s["kind"] for s in scan.module_state(ctx, ["kio.serial._ctl_s1"])}
    return {"module-mutable", "global", "nonlocal-store"} <= kinds


@control("E6: replace(microsecond=0) on a millisecond decode path is T-gran")
def c_tgran():
    from . import timeflow
    conv = ["replace", ["fromtimestamp", [["div", ["X"], ["k", 1000]], ["k", "utc"]]], [["microsecond", ["k", 0]]]]
    q, issues = timeflow.read_side(conv, 64, "timestamp")
    return any(i[0] == "T-gran" for i in issues)


@control("E6: int(float * 1000) on an encode path is T-trunc; float on a 64-bit duration is T-float64")
def c_ttrunc():
    from . import timeflow
    q, i1 = timeflow.write_side(["int", ["mul", ["timestamp", ["X"]], ["k", 1000]]], 64, "timestamp")
    q, i2 = timeflow.write_side(["round", ["mul", ["total_seconds", ["X"]], ["k", 1000]]], 64, "duration")
    q, i3 = timeflow.write_side(["round", ["mul", ["total_seconds", ["X"]], ["k", 1000]]], 32, "duration")
    return any(i[0] == "T-trunc" for i in i1) and any(i[0] == "T-float64" for i in i2) and not i3


@control("BV: zig-zag with a wrong shift is rejected, the canonical pair is accepted")
def c_zigzag():
    from . import varint
    X = ("X",)
    enc = lambda s: ("xor", ("shl", X, ("k", 1)), ("shr", X, ("k", s)))
    dec = ("xor", ("shr", X, ("k", 1)), ("neg", ("and", X, ("k", 1))))
    return not varint.check_zigzag(enc(31), dec, 32) and bool(varint.check_zigzag(enc(30), dec, 32))


@control("E3: a little-endian writer differs from the big-endian spec row")
def c_spec_cmp():
    from .grammar import cmp_writer, spec_primitive
    w = {"k": "scalar", "prefix": {"k": "fixed", "fmt": "<h"}, "conv": "identity", "null": None}
    return bool(cmp_writer(w, spec_primitive("int16", False, False))) and not cmp_writer(
        {"k": "scalar", "prefix": {"k": "fixed", "fmt": ">h"}, "conv": "identity", "null": None}, spec_primitive("int16", False, False))


@control("E2: a native TypeError on an abstract value is never taken for behaviour (soundness regression)")
def c_native_soundness():
    src = "def writer(buffer, value):\n    buffer.write(bytes((value + 1,)))\n"
    ctx = _ctx_with("kio.serial._ctl_n1", src)
    from .values import StreamV, Sym
    P = ctx.plans
    f = P.I.module("kio.serial._ctl_n1").env.vars["writer"]
    ps = P.A.paths(f, [StreamV("param"), Sym(("param", "value"), "int", lo=0, hi=100)])
    return len(ps) == 1 and ps[0].outcome == "return"


FAST_MUTANTS = ["M12-stale-index-entry", "M13-generator-apiversions-key", "M16-batch-length-off-by-one", "M17-crc-region-short",
                "M25-eq-false-on-record", "M27-version-family-gap", "M29-i16-high-off-by-one"]


def run_controls(verbose=False, with_mutants=True) -> list[str]:
    missed = []
    for name, fn in CONTROLS:
        try:
            ok = bool(fn())
        except Exception as e:  # a crashing control is a missed control
            ok = False
            name = f"{name} (crashed: {type(e).__name__}: {e})"
        if not ok:
            missed.append(name)
    n = len(CONTROLS)
    if with_mutants:
        from .corpus import MUTANTS
        from .selftest import run_variant
        for m in MUTANTS:
            if m["id"] in FAST_MUTANTS:
                n += 1
                r = run_variant(m, "mutant")
                if not r["ok"]:
                    missed.append(f"mutant {m['id']}: {r.get('why')}")
    if verbose:
        print(f"controls: {n - len(missed)}/{n} fired")
    return missed
