"""Positive controls: tiny synthetic violating inputs each zero-expected rule must flag."""
from __future__ import annotations

CONTROLS = []  # (name, callable returning True when the rule fired)


def control(name):
    def deco(fn):
        CONTROLS.append((name, fn))
        return fn
    return deco


def run_controls(verbose=False) -> list[str]:
    missed = []
    for name, fn in CONTROLS:
        try:
            ok = bool(fn())
        except Exception as e:  # a crashing control is a missed control
            ok = False
            name = f"{name} (crashed: {type(e).__name__}: {e})"
        if not ok:
            missed.append(name)
    if verbose:
        print(f"controls: {len(CONTROLS) - len(missed)}/{len(CONTROLS)} fired")
    return missed
