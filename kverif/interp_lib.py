"""E2 library model: builtins, typing/dataclasses/enum/struct/datetime/uuid/io models,
concrete operations, isinstance/issubclass, containers, generated-schema modules.

Concrete values of immutable standard-library types (datetime, timedelta, timezone, UUID,
int, float, str, bytes) are native Python objects and are operated on natively: that is
evaluation of the *standard library* on constants, never of repository code.
"""
from __future__ import annotations

import ast
import datetime as _dt
import math as _math
import struct as _struct
import uuid as _uuid

from .interp_base import *  # noqa: F401,F403
from .interp_base import Limit, Raised, Run, _ids
from .interp_core import NONETYPE, is_concrete, Frame

import re as _re

NATIVE_TYPES = (_dt.datetime, _dt.timedelta, _dt.tzinfo, _uuid.UUID, _re.Pattern, _re.Match)
NATIVE_CLASS = {"datetime.datetime": _dt.datetime, "datetime.timedelta": _dt.timedelta, "datetime.timezone": _dt.timezone,
                "datetime.tzinfo": _dt.tzinfo, "uuid.UUID": _uuid.UUID, "int": int, "str": str, "bytes": bytes,
                "float": float, "bool": bool, "tuple": tuple, "NoneType": type(None), "EllipsisType": type(Ellipsis),
                "range": range, "frozenset": frozenset}
PY_EXC = {KeyError: "KeyError", IndexError: "IndexError", ValueError: "ValueError", TypeError: "TypeError",
          OverflowError: "OverflowError", ZeroDivisionError: "ZeroDivisionError", AttributeError: "AttributeError",
          UnicodeDecodeError: "UnicodeDecodeError", UnicodeEncodeError: "UnicodeEncodeError", OSError: "OSError",
          _struct.error: "struct.error"}

TYPING_OPAQUE = {"Final", "Literal", "TypeAlias", "Self", "Annotated", "Any", "Optional", "Callable", "Sequence",
                 "Mapping", "Iterator", "Iterable", "Awaitable", "Type", "NewType", "TypeGuard", "Never", "NoReturn",
                 "Collection", "MutableMapping", "Hashable", "Sized", "Container", "Generator", "Set"}



def kterm(v):
    from .interp_sym import kterm as _kterm  # interp_sym imports this module
    return _kterm(v)


class KeysT(tuple):
    """dict.keys() of a constant dict: ordered like a tuple, compares with sets like a set."""
    __slots__ = ()


class LazyDefault:
    __slots__ = ("src", "module")

    def __init__(self, src, module):
        self.src, self.module = src, module


class SchemaVars(dict):
    """Lazily resolved namespace of a generated schema module."""

    def __init__(self, interp, modname, m):
        super().__init__()
        self.interp, self.modname, self.m = interp, modname, m
        self.local = {c["name"]: c for c in m["classes"]}

    def __contains__(self, k):
        return dict.__contains__(self, k) or k in self.local or k in self.m["imports"]

    def __getitem__(self, k):
        if dict.__contains__(self, k):
            return dict.__getitem__(self, k)
        if k in self.local:
            v = self.interp.entity_class(f"{self.modname}:{k}")
        elif k in self.m["imports"]:
            mod, attr = self.m["imports"][k]
            v = self.interp.module(mod) if attr is None else self.interp.import_attr(mod, attr)
        else:
            raise KeyError(k)
        dict.__setitem__(self, k, v)
        return v

    def get(self, k, d=None):
        return self[k] if k in self else d


class LibMixin:
    # ------------------------------------------------------------------ set-up
    def init_lib(self):
        L, F = LibClass.get, LibFn.get
        self.cached_functions: set = set()
        self.cached_funcs: dict = {}
        b = {}
        for n in ("int", "str", "bytes", "float", "bool", "tuple", "list", "dict", "set", "frozenset", "bytearray",
                  "object", "type", "range", "memoryview"):
            b[n] = L(n)
        for n in ("len", "isinstance", "issubclass", "getattr", "hasattr", "setattr", "sorted", "max", "min", "sum",
                  "round", "abs", "iter", "next", "enumerate", "zip", "reversed", "any", "all", "repr", "print", "id",
                  "classmethod", "staticmethod", "property", "super", "divmod", "callable", "hash", "vars", "dir",
                  "globals", "locals", "exec", "eval", "open", "__import__", "format", "ord", "chr", "hex", "map",
                  "filter", "pow", "delattr"):
            b[n] = F(n)
        for n, c in LibClass._reg.items():
            if "." not in n and (n.endswith("Error") or n.endswith("Warning") or n in ("Exception", "BaseException", "StopIteration",
                                                                "KeyboardInterrupt", "SystemExit", "GeneratorExit")):
                b[n] = c
        b["NotImplemented"] = OpaqueV("NotImplemented")
        b["Ellipsis"] = Ellipsis
        b["__debug__"] = True
        self.builtins = b

    # ------------------------------------------------------------------ module attributes
    def lib_attr(self, m: LibModule, attr: str, node=None):
        L, F = LibClass.get, LibFn.get
        n = m.name
        if n == "typing" or n == "typing_extensions":
            if attr == "TYPE_CHECKING":
                return False
            if attr in ("Protocol", "Generic", "IO", "NamedTuple"):
                return L(f"typing.{attr}")
            if attr in ("TypeVar", "ParamSpec"):
                return F("typing.TypeVar")
            if attr in ("get_origin", "get_args", "ClassVar", "final", "overload", "runtime_checkable", "assert_never",
                        "cast", "Union", "no_type_check", "get_type_hints", "assert_type", "reveal_type"):
                return F(f"typing.{attr}")
            if attr == "dataclass_transform":
                return F("typing.dataclass_transform")  # dataclass_transform(...)(f) is f
            if attr in TYPING_OPAQUE:
                return OpaqueV(f"typing.{attr}")
        elif n == "types":
            if attr in ("NoneType", "UnionType", "EllipsisType", "ModuleType", "MappingProxyType"):
                return L(attr) if attr in ("NoneType", "UnionType", "EllipsisType") else L(f"types.{attr}")
        elif n == "dataclasses":
            if attr == "MISSING":
                return MISSING
            if attr == "Field":
                return L("dataclasses.Field")
            if attr in ("dataclass", "field", "fields", "is_dataclass", "replace", "asdict", "astuple"):
                return F(f"dataclasses.{attr}")
        elif n == "functools":
            if attr in ("cache", "lru_cache", "partial", "wraps", "cached_property"):
                return F(f"functools.{attr}")
        elif n == "enum":
            if attr in ("Enum", "IntEnum"):
                return L(f"enum.{attr}")
            if attr == "auto":
                return F("enum.auto")
            if attr in ("unique", "verify"):
                return F("identity")  # class decorators that check the members and return the class
        elif n == "struct":
            if attr == "error":
                return L("struct.error")
            if attr in ("pack", "unpack", "calcsize", "pack_into", "unpack_from", "Struct"):
                return F(f"struct.{attr}")
        elif n == "datetime":
            if attr in ("timedelta", "datetime", "timezone", "tzinfo"):
                return L(f"datetime.{attr}")
            if attr == "UTC":
                return _dt.timezone.utc
        elif n == "uuid":
            if attr == "UUID":
                return L("uuid.UUID")
        elif n == "io":
            if attr == "BytesIO":
                return L("io.BytesIO")
            if attr == "UnsupportedOperation":
                return L("io.UnsupportedOperation")
        elif n == "math":
            if attr in ("isfinite", "isnan", "isinf", "floor", "ceil", "trunc"):
                return F(f"math.{attr}")
            if attr in ("inf", "nan", "pi"):
                return getattr(_math, attr)
        elif n == "abc":
            if attr == "ABCMeta":
                return L("abc.ABCMeta")
            if attr == "ABC":
                return L("object")
            if attr == "abstractmethod":
                return F("abc.abstractmethod")
        elif n in ("collections.abc", "collections"):
            if attr == "defaultdict":
                return F("collections.defaultdict")
            return OpaqueV(f"{n}.{attr}")
        elif n == "contextlib":
            if attr in ("closing", "suppress", "contextmanager", "nullcontext"):
                return F(f"contextlib.{attr}")
        elif n == "warnings":
            if attr in ("warn", "warn_explicit"):
                return F("warnings.warn")
        elif n == "pkgutil":
            if attr == "resolve_name":
                return F("pkgutil.resolve_name")
        elif n == "crc32c":
            if attr == "crc32c":
                return F("crc32c.crc32c")
        elif n == "asyncio":
            if attr == "StreamWriter":
                return L("asyncio.StreamWriter")
        elif n == "operator":
            if attr in ("attrgetter", "itemgetter", "methodcaller"):
                return F(f"operator.{attr}")
        elif n == "itertools":
            return F(f"itertools.{attr}")
        elif n == "builtins":
            if attr in self.builtins:
                return self.builtins[attr]
        elif n == "__future__":
            return OpaqueV("future")
        elif n == "_typeshed":
            return OpaqueV(f"_typeshed.{attr}")
        elif n == "pydantic":
            if attr == "BaseModel":
                return L("pydantic.BaseModel")
            if attr == "ValidationError":
                return LibClass.get("pydantic.ValidationError", (L("ValueError"),))
            if attr in ("root_validator", "validator"):
                return F("pydantic.validator")
            return OpaqueV(f"pydantic.{attr}")
        elif n in ("hypothesis", "hypothesis.strategies"):
            raise Raised(InstV(L("ImportError"), {"args": (f"{n} is modelled as not installed",)}))
        # unknown attribute of a library module: opaque.  An opaque value that reaches a computation the
        # analyses depend on ends in an analysis limit there, never in a silent verdict.
        if n == "textwrap" and attr in ("dedent", "indent"):
            return F(f"textwrap.{attr}")
        if n == "re" and attr in ("compile", "sub", "match", "fullmatch", "search", "escape", "split", "findall"):
            return F(f"re.{attr}")
        if n == "re" and attr in ("IGNORECASE", "I", "MULTILINE", "M", "DOTALL", "S", "ASCII", "A", "VERBOSE", "X"):
            return int(getattr(_re, attr))
        if n == "calendar" and attr == "timegm":
            return F("calendar.timegm")
        if n == "keyword" and attr in ("kwlist", "softkwlist"):
            import keyword as _kw
            return ListV(list(getattr(_kw, attr)))
        if n == "json" and attr in ("dumps", "loads"):
            return F(f"json.{attr}")
        if n == "sys" and attr == "float_info":
            import sys as _sys
            return InstV(L("sys.float_info"), {"max": _sys.float_info.max, "min": _sys.float_info.min, "epsilon": _sys.float_info.epsilon,
                                               "dig": _sys.float_info.dig, "mant_dig": _sys.float_info.mant_dig})
        if n == "math" and attr in ("inf", "nan", "pi", "e"):
            return getattr(_math, attr)
        return OpaqueV(f"{n}.{attr}")

    def module(self, name):  # extends InterpCore.module for third-party packages modelled as absent
        if name.split(".")[0] in ("hypothesis",) and self.sm.get(name) is None:
            raise Raised(InstV(LibClass.get("ImportError"), {"args": (f"{name} is modelled as not installed",)}))
        return super().module(name)

    # ------------------------------------------------------------------ generated schema
    def schema_module(self, name):
        m = self.ctx.schema.modules[name]
        env = Env(None, "module", name)
        env.vars = SchemaVars(self, name, m)
        mv = ModuleV(name, env, self.sm.get(name))
        mv.state = "done"
        return mv

    def schema_eval(self, modname, src, what):
        key = (modname, src)
        if key not in self._ann_cache:
            mv = self.module(modname)
            try:
                tree = ast.parse(src, mode="eval")
            except SyntaxError as e:
                raise Limit(f"cannot parse {what} {src!r} of {modname}: {e}")
            self.frames.append(type("F", (), {"fn": None, "module": modname, "node": None})())
            try:
                run = Run()
                self._ann_cache[key] = self.ev(tree.body, mv.env, run)
            finally:
                self.frames.pop()
        return self._ann_cache[key]

    def entity_class(self, key: str) -> ClassV:
        if key in self.entity_classes:
            return self.entity_classes[key]
        c = self.ctx.schema.classes.get(key)
        if c is None:
            raise Limit(f"unknown entity class {key}")
        modname = c["module"]
        cls = ClassV(c["name"], modname, [], {}, None, None)
        cls.entity = c
        self.entity_classes[key] = cls
        cls.ns["__name__"] = c["name"]
        cls.ns["__qualname__"] = c["name"]
        cls.ns["__module__"] = modname
        params = {}
        for d in c["decorators"]:
            if "call" in d and d["call"].get("n") == "dataclasses:dataclass":
                params = {k: v.get("c") for k, v in d["kw"].items()}
                cls.flags["dataclass"] = params
            elif d.get("n") == "dataclasses:dataclass":
                cls.flags["dataclass"] = {}
        for name, cv in c["classvars"].items():
            if cv.get("src") is not None:
                cls.ns[name] = LazyDefault(cv["src"], modname)
        return cls

    def fields_of(self, cls) -> list:
        if cls.entity is None:
            if "dataclass" not in cls.flags:
                self.throw("TypeError", "must be called with a dataclass type or instance")
            return self.dataclass_fields(cls)
        if "fields" in cls.flags:
            return cls.flags["fields"]
        c = cls.entity
        out = []
        kw_only = bool((cls.flags.get("dataclass") or {}).get("kw_only"))
        for f in c["fields"]:
            t = self.schema_eval(c["module"], f["ann_src"], "annotation")
            if f["field_call"]:
                default = LazyDefault(f["default_src"], c["module"]) if f["default_src"] is not None else MISSING
                md = f["metadata"] if isinstance(f["metadata"], dict) else {}
            else:
                default = LazyDefault(f["default_src"], c["module"]) if f["default_src"] is not None else MISSING
                md = {}
            fv = FieldV(f["name"], t, default, DictV(dict(md), frozen=True), owner=cls.ref, src=f)
            fv.kw_only = kw_only
            if f.get("default_factory"):
                fv.default_factory = LazyDefault(f["default_factory"], c["module"])
            out.append(fv)
        cls.flags["fields"] = out
        return out

    def field_default(self, f: FieldV):
        if isinstance(f.default, LazyDefault):
            f.default = self.schema_eval(f.default.module, f.default.src, "default")
        return f.default

    def class_lookup(self, cls, name):
        v = super().class_lookup(cls, name)
        if isinstance(v, LazyDefault):
            val = self.schema_eval(v.module, v.src, "class variable")
            for c in cls.mro:
                if isinstance(c, ClassV) and c.ns.get(name) is v:
                    c.ns[name] = val
            return val
        if v is None and isinstance(cls, ClassV) and cls.entity is not None:
            for f in self.fields_of(cls):
                if f.name == name:
                    return f
        return v

    # ------------------------------------------------------------------ type predicates
    def type_of(self, v):
        L = LibClass.get
        if isinstance(v, bool):
            return L("bool")
        if isinstance(v, int):
            return L("int")
        if isinstance(v, str):
            return L("str")
        if isinstance(v, bytes):
            return L("bytes")
        if isinstance(v, float):
            return L("float")
        if v is None:
            return L("NoneType")
        if v is Ellipsis:
            return L("EllipsisType")
        if isinstance(v, tuple):
            return L("tuple")
        if isinstance(v, frozenset):
            return L("frozenset")
        if isinstance(v, range):
            return L("range")
        if isinstance(v, _dt.datetime):
            return L("datetime.datetime")
        if isinstance(v, _dt.timedelta):
            return L("datetime.timedelta")
        if isinstance(v, _dt.timezone):
            return L("datetime.timezone")
        if isinstance(v, _uuid.UUID):
            return L("uuid.UUID")
        if isinstance(v, InstV):
            return v.cls
        if isinstance(v, EnumMemberV):
            return v.cls
        if isinstance(v, ListV):
            return L("list")
        if isinstance(v, DictV):
            return L("types.MappingProxyType") if v.frozen else L("dict")
        if isinstance(v, (FuncV, BoundV, LibFn)):
            return L("function")
        if isinstance(v, ClassV):
            return v.metaclass or TYPE
        if isinstance(v, LibClass):
            return TYPE
        if isinstance(v, UnionV):
            return L("UnionType")
        if isinstance(v, FieldV):
            return L("dataclasses.Field")
        if isinstance(v, StreamV):
            return L("io.BytesIO")
        if isinstance(v, (ModuleV, LibModule)):
            return L("types.ModuleType")
        if isinstance(v, GenericV):
            return L("types.GenericAlias") if False else OBJECT
        return OBJECT

    def is_subclass(self, c, parent) -> bool:
        if isinstance(parent, tuple):
            return any(self.is_subclass(c, p) for p in parent)
        if isinstance(parent, UnionV):
            return any(self.is_subclass(c, p) for p in parent.args)
        if isinstance(parent, GenericV):
            parent = parent.origin
        if c is parent:
            return True
        if not isinstance(c, (ClassV, LibClass)):
            return False
        if isinstance(parent, ClassV) and parent.flags.get("protocol"):
            members = [k for k, v in parent.ns.items() if isinstance(v, (FuncV, WrapV)) and k not in ("__init__",)]
            return all(self.has_class_attr(c, k) for k in members)
        if isinstance(parent, LibClass) and parent.name == "int" and isinstance(c, LibClass) and c.name == "bool":
            return True
        return parent in c.mro

    def has_class_attr(self, c, name) -> bool:
        if isinstance(c, ClassV):
            if self.class_lookup(c, name) is not None:
                return True
        return False

    def isinstance_(self, v, cls, run, node):
        """May return a bool or a symbolic bool."""
        if isinstance(cls, tuple):
            res = False
            for c in cls:
                r = self.isinstance_(v, c, run, node)
                if r is True:
                    return True
                if isinstance(r, Sym):
                    res = r if res is False else self.boolop_or(res, r)
            return res
        if isinstance(cls, UnionV):
            return self.isinstance_(v, tuple(cls.args), run, node)
        if isinstance(cls, GenericV):
            self.throw("TypeError", "isinstance() argument 2 cannot be a parameterized generic", node)
        if isinstance(cls, ClassV) and cls.metaclass is not None and isinstance(cls.metaclass, ClassV):
            ic = self.class_lookup(cls.metaclass, "__instancecheck__")
            if ic is not None:
                return self.call(ic, [cls, v], {}, run, node)
        if isinstance(v, Sym):
            return self.sym_isinstance(v, cls, run, node)
        if not isinstance(cls, (ClassV, LibClass)):
            if isinstance(cls, OpaqueV):
                self.limit(f"isinstance against opaque type {cls!r}", node)
            self.throw("TypeError", "isinstance() arg 2 must be a type", node)
        if isinstance(v, InstV) and "_base_value_" in v.attrs and isinstance(cls, LibClass):
            return self.is_subclass(v.cls, cls)
        return self.is_subclass(self.type_of(v), cls)

    # ------------------------------------------------------------------ library classes
    def libclass_attr(self, c: LibClass, name, node, probe=False):
        F = LibFn.get
        n = c.name
        if n in NATIVE_CLASS and n.startswith(("datetime.", "uuid.")):
            nat = NATIVE_CLASS[n]
            if name in ("min", "max", "resolution"):
                return getattr(nat, name)
            if name in ("fromtimestamp", "now", "utcnow", "utcfromtimestamp", "fromisoformat", "combine", "strptime", "utc"):
                if name == "utc":
                    return _dt.timezone.utc
                return F(f"{n}.{name}")
        if n == "int" and name in ("__new__", "from_bytes"):
            return F(f"int.{name}")
        if n in ("str", "bytes") and name in ("isidentifier", "join", "fromhex"):
            return F(f"{n}.{name}")
        if n == "dict" and name == "fromkeys":
            return F("dict.fromkeys")
        if name == "__name__":
            return n.split(".")[-1]
        if name == "__qualname__":
            return n.split(".")[-1]
        if name == "__mro__":
            return tuple(c.mro)
        if name == "__bases__":
            return tuple(c.bases)
        if name == "__module__":
            return n.rpartition(".")[0] or "builtins"
        if n == "pydantic.BaseModel" and name in ("update_forward_refs", "parse_obj", "parse_file", "construct"):
            return F("noop") if name == "update_forward_refs" else OpaqueV(f"pydantic.BaseModel.{name}")
        if name in ("__init_subclass__",):
            return F("object.__init_subclass__")
        if name in ("__new__",):
            return F("object.__new__")
        if probe:
            return NotImplemented
        self.limit(f"attribute {name} of library class {n}", node)

    def call_libclass(self, c: LibClass, args, kwargs, run, node):
        n = c.name
        L = LibClass.get
        if n in ("UnicodeDecodeError", "UnicodeEncodeError") and (len(args) != 5 or kwargs):
            # (encoding, object, start, end, reason): the builtin exceptions with a fixed constructor signature
            run.emit("raise-site", "TypeError", self.site(node), f"{n}() takes exactly 5 arguments")
            self.throw("TypeError", f"function takes exactly 5 arguments ({len(args)} given)", node)
        if any(not is_concrete(a) for a in list(args) + list(kwargs.values())):
            # deep check: a tuple/list holding a symbol must never reach a native constructor
            # (a native TypeError on an abstract value is an analysis artefact, not behaviour)
            return self.sym_call_libclass(c, args, kwargs, run, node)
        if n in ("int", "str", "float", "bool", "bytes"):
            if n == "str" and len(args) == 1 and isinstance(args[0], InstV) and isinstance(args[0].attrs.get("_base_value_"), str) and \
                    isinstance(args[0].cls, ClassV) and not any(self.class_lookup(args[0].cls, m) is not None for m in ("__str__", "__repr__")):
                return args[0].attrs["_base_value_"]  # str() of an instance of a plain str subclass
            if n == "str" and len(args) == 1 and not isinstance(args[0], (str, int, float, bytes)) and args[0] is not None:
                return Sym(("str", term_of(args[0])), "str")
            if n == "int" and len(args) == 1 and isinstance(args[0], EnumMemberV):
                return args[0].value
            try:
                return NATIVE_CLASS[n](*args, **kwargs)
            except tuple(PY_EXC) as e:
                self.throw(PY_EXC[type(e)], str(e), node)
        if n == "tuple":
            if not args:
                return ()
            if isinstance(args[0], ListV) and args[0].may:
                return self.sym_call_libclass(c, args, kwargs, run, node)
            return tuple(self.iterate_concrete(args[0], run, node))
        if n == "list":
            return ListV(list(self.iterate_concrete(args[0], run, node)) if args else [], site=self.site(node))
        if n == "dict":
            d = {}
            if args:
                src = args[0]
                if isinstance(src, DictV):
                    d.update(src.d)
                else:
                    for kv in self.iterate_concrete(src, run, node):
                        k, v = kv
                        d[k] = v
            d.update(kwargs)
            return DictV(d, site=self.site(node))
        if n == "set" and not args:
            return SetV([], site=self.site(node))
        if n in ("set", "frozenset"):
            return frozenset(self.iterate_concrete(args[0], run, node)) if args else frozenset()
        if n == "range":
            return range(*args)
        if n == "object":
            return InstV(ClassV("object", "builtins", [], {}), {})
        if n == "type":
            if len(args) == 1:
                return self.type_of(args[0])
            self.limit("three-argument type()", node)
        if n == "types.MappingProxyType":
            src = args[0]
            if not isinstance(src, DictV):
                self.throw("TypeError", "mappingproxy() argument must be a mapping", node)
            return DictV(src.d, frozen=True, site=self.site(node))
        if n in ("datetime.timedelta", "datetime.datetime", "datetime.timezone", "uuid.UUID"):
            try:
                return NATIVE_CLASS[n](*args, **kwargs)
            except tuple(PY_EXC) as e:
                self.throw(PY_EXC[type(e)], str(e), node)
        if n == "io.BytesIO":
            s = StreamV("local", site=self.site(node), init=args[0] if args else None)
            run.emit("alloc", s, self.site(node), args[0] if args else None)
            return s
        if n == "bytearray":
            init = args[0] if args else b""
            ln = len(init) if isinstance(init, bytes) else (init if isinstance(init, int) else None)
            return Sym(("bytearray", term_of(init), next(_ids)), "bytearray", len=ln, mutable=True)
        if c in LibClass.get("BaseException").mro or L("BaseException") in c.mro:
            return InstV(c, {"args": tuple(args)})
        if n == "enum.Enum":
            self.limit("functional enum API", node)
        self.limit(f"instantiation of library class {n}", node)

    # ------------------------------------------------------------------ library functions
    def _call_lib_plain(self, name, args, kwargs, run, node):
        L, F = LibClass.get, LibFn.get
        m = getattr(self, "lib_" + name.replace(".", "_"), None)
        if m is not None:
            return m(args, kwargs, run, node)
        if name == "noop" or name == "print":
            return None
        if name.startswith("object."):
            if name == "object.__init_subclass__":
                if kwargs:
                    self.throw("TypeError", "object.__init_subclass__() takes no keyword arguments", node)
                return None
            if name == "object.__new__":
                return InstV(args[0], {})
            return None
        symbolic = any(not is_concrete(a) for a in list(args) + list(kwargs.values()))
        if symbolic:
            return self.sym_call_lib(name, args, kwargs, run, node)
        native = {"len": len, "abs": abs, "round": round, "repr": repr, "hash": hash, "divmod": divmod, "ord": ord,
                  "chr": chr, "hex": hex, "pow": pow, "math.isfinite": _math.isfinite, "math.isnan": _math.isnan,
                  "math.isinf": _math.isinf, "math.floor": _math.floor, "math.ceil": _math.ceil,
                  "math.trunc": _math.trunc, "struct.pack": _struct.pack, "struct.unpack": _struct.unpack,
                  "struct.calcsize": _struct.calcsize, "format": format,
                  "datetime.datetime.fromtimestamp": _dt.datetime.fromtimestamp,
                  "datetime.datetime.fromisoformat": _dt.datetime.fromisoformat,
                  "json.dumps": __import__("json").dumps, "json.loads": __import__("json").loads,
                  "calendar.timegm": __import__("calendar").timegm,
                  "re.compile": _re.compile, "re.sub": _re.sub, "re.match": _re.match, "re.fullmatch": _re.fullmatch, "re.search": _re.search,
                  "re.escape": _re.escape, "re.split": _re.split, "re.findall": _re.findall,
                  "int.from_bytes": int.from_bytes, "str.isidentifier": str.isidentifier, "bytes.fromhex": bytes.fromhex}
        if name == "struct.Struct" and len(args) == 1 and isinstance(args[0], str):
            try:
                return InstV(LibClass.get("struct.Struct"), {"format": args[0], "size": _struct.calcsize(args[0])})
            except _struct.error as e:
                self.throw("struct.error", str(e), node)
        if name in ("struct.Struct.pack", "struct.Struct.unpack") and args and isinstance(args[0], InstV):
            return self.call_lib("struct." + name.rsplit(".", 1)[1], [args[0].attrs["format"]] + list(args[1:]), kwargs, run, node)
        if name == "itertools.count" and len(args) <= 2 and not kwargs:
            start = args[0] if args else 0
            step = args[1] if len(args) > 1 else 1
            if isinstance(start, int) and isinstance(step, int) and step > 0:
                return range(start, start + step * 100_000, step)  # unbounded counter; a loop that exhausts it is reported as a limit
        if name == "datetime.datetime.fromtimestamp" and len(args) < 2 and "tz" not in kwargs:
            # local time of the running process: environment, not program
            return Sym(("localtime", "fromtimestamp", ("k", repr(args[0]) if args else "?")), "datetime", env_dependent=True)
        if name in native:
            a2 = [self.to_native(a, node) for a in args]
            k2 = {k: self.to_native(v, node) for k, v in kwargs.items()}
            try:
                return native[name](*a2, **k2)
            except tuple(PY_EXC) as e:
                self.throw(PY_EXC[type(e)], str(e), node)
        self.limit(f"library function {name} is not modelled", node)

    def to_native(self, v, node):
        if isinstance(v, ListV):
            return [self.to_native(x, node) for x in v.items]
        if isinstance(v, EnumMemberV) and isinstance(v.value, int):
            return v.value
        if isinstance(v, InstV) and "_base_value_" in v.attrs:
            return v.attrs["_base_value_"]
        if isinstance(v, InstV) and isinstance(v.cls, ClassV) and v.cls.flags.get("namedtuple"):
            return tuple(self.to_native(v.attrs[k], node) for k in v.cls.flags["namedtuple"])
        if isinstance(v, DictV) and not v.may and all(isinstance(k, (str, int, bool)) or k is None for k in v.d):
            return {k: self.to_native(x, node) for k, x in v.d.items()}
        if isinstance(v, tuple):
            return tuple(self.to_native(x, node) for x in v)
        if isinstance(v, Obj):
            self.limit(f"abstract object {v!r} passed to a native library function", node)
        return v

    # individual models ---------------------------------------------------------------
    def lib_len(self, a, kw, run, node):
        v = a[0]
        if isinstance(v, Sym):
            return self.sym_len(v, run, node)
        if isinstance(v, DictV):
            if v.may:
                return Sym(("len", term_of(v)), "int", lo=0)
            return len(v.d)
        if isinstance(v, ListV):
            if v.may:
                return Sym(("len", term_of(v)), "int", lo=0)
            return len(v.items)
        if isinstance(v, (str, bytes, tuple, frozenset, range)):
            return len(v)
        if isinstance(v, Obj) and not isinstance(v, (ClassV, LibClass, FuncV, LibFn, EnumMemberV)):
            self.limit(f"len() of {v!r} is not modelled", node)
        self.throw("TypeError", f"object of type {self.type_of(v)!r} has no len()", node)

    def lib_isinstance(self, a, kw, run, node):
        return self.isinstance_(a[0], a[1], run, node)

    def lib_issubclass(self, a, kw, run, node):
        c, p = a
        if isinstance(c, GenericV):
            self.throw("TypeError", "issubclass() arg 1 must be a class", node)
        if not isinstance(c, (ClassV, LibClass)):
            self.throw("TypeError", "issubclass() arg 1 must be a class", node)
        return self.is_subclass(c, p)

    def lib_getattr(self, a, kw, run, node):
        o, name = a[0], a[1]
        if not isinstance(name, str):
            self.limit("getattr with a non-constant name", node)
        if len(a) == 3:
            try:
                return self.getattr_(o, name, run, node)
            except Raised as r:
                if self.is_subclass(r.cls, LibClass.get("AttributeError")):
                    return a[2]
                raise
        return self.getattr_(o, name, run, node)

    def lib_hasattr(self, a, kw, run, node):
        try:
            self.getattr_(a[0], a[1], run, node)
            return True
        except Raised as r:
            if self.is_subclass(r.cls, LibClass.get("AttributeError")):
                return False
            raise

    def lib_setattr(self, a, kw, run, node):
        run.notes.append(("dynamic-setattr", self.site(node)))
        self.setattr_(a[0], a[1], a[2], run, node)

    def lib_callable(self, a, kw, run, node):
        return isinstance(a[0], (FuncV, BoundV, LibFn, ClassV, LibClass, PartialV))

    def lib_sorted(self, a, kw, run, node):
        items = self.iterate_concrete(a[0], run, node)
        key = kw.get("key")
        if key is not None:
            ks = [self.call(key, [x], {}, run, node) for x in items]
        else:
            ks = items
        if any(not is_concrete(k) or isinstance(k, Obj) for k in ks):
            self.limit("sorted() over non-constant keys", node)
        try:
            order = sorted(range(len(items)), key=lambda i: ks[i], reverse=bool(kw.get("reverse", False)))
        except TypeError as e:
            self.throw("TypeError", str(e), node)
        return ListV([items[i] for i in order], site=self.site(node))

    def _minmax(self, which, a, kw, run, node):
        if len(a) == 1:
            seq = self.iterate(a[0], run, node)
            if seq is None:
                src = a[0]
                if isinstance(src, ListV):
                    src = Sym(("tuple", kterm(src)), "tuple", weak_list=src, elem_values=list(src.items) + list(src.may or []))
                if isinstance(src, Sym) and isinstance(src.info.get("weak_list"), Sym):
                    src = src.info["weak_list"]
                vals = src.info.get("elem_values") if isinstance(src, Sym) else None
                if vals and len(vals) == 1 and isinstance(vals[0], Sym) and "key" not in kw:
                    # max()/min() of a sequence with a symbolic number of items: the empty case raises unless a default is given
                    if "default" not in kw:
                        nonempty = run.decide(nonempty_term(src.term), self.site(node))
                        if not nonempty:
                            run.emit("raise-site", "ValueError", self.site(node), f"{which}() of a sequence that may be empty")
                            self.throw("ValueError", f"{which}() arg is an empty sequence", node)
                    v = vals[0]
                    return Sym((which, src.term), v.kind, **{k: x for k, x in v.info.items() if k not in ("bv",)})
                return self.sym_call_lib(which, a, kw, run, node)
        else:
            seq = list(a)
        if any(not is_concrete(x) for x in seq):
            return self.sym_call_lib(which, [tuple(seq)], kw, run, node)
        if not seq:
            if "default" in kw:
                return kw["default"]
            self.throw("ValueError", f"{which}() arg is an empty sequence", node)
        try:
            return (max if which == "max" else min)(seq)
        except TypeError as e:
            self.throw("TypeError", str(e), node)

    def lib_max(self, a, kw, run, node):
        return self._minmax("max", a, kw, run, node)

    def lib_min(self, a, kw, run, node):
        return self._minmax("min", a, kw, run, node)

    def lib_sum(self, a, kw, run, node):
        seq = self.iterate_concrete(a[0], run, node)
        tot = a[1] if len(a) > 1 else 0
        for x in seq:
            tot = self.binop("add", tot, x, run, node)
        return tot

    def lib_any(self, a, kw, run, node):
        return any(self.truth(x, run, node) for x in self.iterate_concrete(a[0], run, node))

    def lib_all(self, a, kw, run, node):
        return all(self.truth(x, run, node) for x in self.iterate_concrete(a[0], run, node))

    def lib_enumerate(self, a, kw, run, node):
        start = a[1] if len(a) > 1 else kw.get("start", 0)
        return tuple((i + start, x) for i, x in enumerate(self.iterate_concrete(a[0], run, node)))

    def lib_zip(self, a, kw, run, node):
        return tuple(zip(*[self.iterate_concrete(x, run, node) for x in a]))

    def lib_reversed(self, a, kw, run, node):
        return tuple(reversed(self.iterate_concrete(a[0], run, node)))

    def lib_iter(self, a, kw, run, node):
        return ListV(list(self.iterate_concrete(a[0], run, node)))

    def lib_next(self, a, kw, run, node):
        it = a[0]
        if isinstance(it, GenV):
            if isinstance(it.src, tuple):
                if not it.exhausted and it.taken < len(it.src):
                    it.taken += 1
                    return it.src[it.taken - 1]
            elif not it.exhausted:
                rest = self.gen_rest(it, consume=False)
                if run.decide(("nonempty", rest.term), self.site(node)):
                    cnt, var = self.loop_item(it.src, run, node)
                    k = it.taken
                    it.taken += 1
                    # the k-th item: the generic element of the underlying sequence becomes its item k

                    def sub_t(t):
                        if isinstance(t, tuple):
                            if len(t) == 2 and t[0] == "elem":
                                return ("item", sub_t(t[1]), k)
                            return tuple(sub_t(x) for x in t)
                        return t

                    def sub_v(v):
                        if isinstance(v, Sym):
                            return Sym(sub_t(v.term), v.kind, **{a: b for a, b in v.info.items() if a != "bv"})
                        if isinstance(v, InstV):
                            return InstV(v.cls, {a: sub_v(b) for a, b in v.attrs.items()})
                        if isinstance(v, tuple):
                            return tuple(sub_v(x) for x in v)
                        return v
                    return sub_v(var)
            if len(a) > 1:
                return a[1]
            run.emit("raise-site", "StopIteration", self.site(node), "next() of a generator that may be exhausted")
            self.throw("StopIteration", "", node)
        if isinstance(it, ListV) and it.items:
            return it.items.pop(0)
        if len(a) > 1:
            return a[1]
        self.throw("StopIteration", "", node)

    def lib_map(self, a, kw, run, node):
        if len(a) != 2:
            self.limit("map() over several iterables", node)
        seq = a[1]
        if isinstance(seq, GenV):
            seq = self.gen_rest(seq)
        items = self.iterate(seq, run, node)
        if items is not None:
            return GenV(tuple(self.call(a[0], [x], {}, run, node) for x in items))  # lazy and stateful, like a generator
        # over a symbolic sequence: the generator expression (f(x) for x in seq), with the same state a named generator has
        e = ast.parse("(__kv_f(__kv_x) for __kv_x in __kv_seq)", mode="eval").body
        for n_ in ast.walk(e):
            if hasattr(n_, "lineno"):
                n_.lineno = getattr(node, "lineno", 0)
                n_.end_lineno = getattr(node, "end_lineno", getattr(node, "lineno", 0))
                n_.col_offset = getattr(node, "col_offset", 0)
                n_.end_col_offset = getattr(node, "end_col_offset", 0)
        env = Env(None, "function", None)
        env.vars["__kv_f"], env.vars["__kv_seq"] = a[0], seq
        v = self.ev_comp(e, env, run)
        return GenV(v) if isinstance(v, (tuple, Sym)) else v

    def lib_dir(self, a, kw, run, node):
        if a and isinstance(a[0], LibModule) and a[0].name == "builtins":
            import builtins as _b
            return ListV(sorted(dir(_b)))
        self.limit("dir() of a non-builtin object", node)

    def lib_textwrap_dedent(self, a, kw, run, node):
        import textwrap
        if isinstance(a[0], str):
            return textwrap.dedent(a[0])
        return Sym(("dedent", term_of(a[0])), "str")

    def lib_id(self, a, kw, run, node):
        return id(a[0])

    def py_repr(self, v):
        """repr() of a concrete value built from constants (dict / list / tuple nests), else None."""
        if isinstance(v, (int, str, bytes, float)) or v is None:
            return repr(v)
        if isinstance(v, DictV) and not v.may:
            parts = []
            for k, x in v.d.items():
                rk, rx = self.py_repr(k), self.py_repr(x)
                if rk is None or rx is None:
                    return None
                parts.append(f"{rk}: {rx}")
            return "{" + ", ".join(parts) + "}"
        if isinstance(v, (ListV, tuple)):
            items = v.items if isinstance(v, ListV) else v
            rs = [self.py_repr(x) for x in items]
            if any(r is None for r in rs) or (isinstance(v, ListV) and v.may):
                return None
            if isinstance(v, ListV):
                return "[" + ", ".join(rs) + "]"
            return "(" + ", ".join(rs) + ("," if len(rs) == 1 else "") + ")"
        return None

    def lib_repr(self, a, kw, run, node):
        r = self.py_repr(a[0])
        if r is not None:
            return r
        return Sym(("repr", term_of(a[0])), "str")

    def lib_classmethod(self, a, kw, run, node):
        return WrapV("classmethod", a[0])

    def lib_staticmethod(self, a, kw, run, node):
        return WrapV("staticmethod", a[0])

    def lib_property(self, a, kw, run, node):
        return WrapV("property", a[0])

    def lib_super(self, a, kw, run, node):
        return SuperV(a[0], a[1])

    def _forbidden(self, what, node):
        self.limit(f"dynamic feature {what} is not modelled (and breaks the static-resolution assumption)", node)

    def lib_exec(self, a, kw, run, node):
        self._forbidden("exec", node)

    def lib_eval(self, a, kw, run, node):
        self._forbidden("eval", node)

    def lib_globals(self, a, kw, run, node):
        self._forbidden("globals()", node)

    def lib___import__(self, a, kw, run, node):
        self._forbidden("__import__", node)

    # typing --------------------------------------------------------------------------
    def lib_typing_TypeVar(self, a, kw, run, node):
        return OpaqueV(f"TypeVar {a[0] if a else ''}")

    def lib_typing_get_origin(self, a, kw, run, node):
        t = a[0]
        if isinstance(t, GenericV):
            return t.origin
        if isinstance(t, UnionV):
            return LibClass.get("UnionType")
        return None

    def lib_typing_get_args(self, a, kw, run, node):
        t = a[0]
        if isinstance(t, (GenericV, UnionV)):
            return tuple(t.args)
        return ()

    def lib_typing_assert_never(self, a, kw, run, node):
        self.throw("AssertionError", f"assert_never({a[0]!r})", node)

    def lib_typing_cast(self, a, kw, run, node):
        return a[1]

    def lib_typing_final(self, a, kw, run, node):
        return a[0]

    def lib_typing_runtime_checkable(self, a, kw, run, node):
        if isinstance(a[0], ClassV):
            a[0].flags["runtime_checkable"] = True
        return a[0]

    def lib_typing_Union(self, a, kw, run, node):
        self.limit("typing.Union called", node)

    def lib_abc_abstractmethod(self, a, kw, run, node):
        return a[0]

    # dataclasses ---------------------------------------------------------------------
    def lib_dataclasses_dataclass(self, a, kw, run, node):
        if a and isinstance(a[0], ClassV):
            a[0].flags["dataclass"] = dict(kw)
            self.finish_dataclass(a[0])
            return a[0]
        return PartialV(LibFn.get("dataclasses.dataclass"), [], dict(kw))

    def finish_dataclass(self, cls):
        # class attributes that are field() objects without default disappear (slots) -- handled in class_getattr
        cls.flags.pop("fields", None)

    def lib_dataclasses_field(self, a, kw, run, node):
        f = FieldV("?", None, kw.get("default", MISSING), kw.get("metadata") or DictV({}, frozen=True))
        if isinstance(f.metadata, DictV) and not f.metadata.frozen:
            f.metadata = DictV(f.metadata.d, frozen=True)
        f.default_factory = kw.get("default_factory", MISSING)
        if "kw_only" in kw:
            f.kw_only = kw["kw_only"]
        return f

    def lib_dataclasses_fields(self, a, kw, run, node):
        c = a[0]
        if isinstance(c, InstV):
            c = c.cls
        if isinstance(c, Sym):
            return self.sym_call_lib("dataclasses.fields", a, kw, run, node)
        if not isinstance(c, ClassV) or (c.entity is None and "dataclass" not in c.flags):
            self.throw("TypeError", "must be called with a dataclass type or instance", node)
        return tuple(self.fields_of(c))

    def lib_dataclasses_is_dataclass(self, a, kw, run, node):
        c = a[0]
        if isinstance(c, InstV):
            c = c.cls
        return isinstance(c, ClassV) and (c.entity is not None and "dataclass" in c.flags or "dataclass" in c.flags)

    def lib_dataclasses_replace(self, a, kw, run, node):
        o = a[0]
        vals = dict(o.attrs)
        vals.update(kw)
        return self.call_class(o.cls, [], vals, run, node)

    # functools / contextlib / enum / operator ------------------------------------------
    def lib_functools_cache(self, a, kw, run, node):
        if isinstance(a[0], FuncV):
            self.cached_functions.add(a[0].uid)
            self.cached_funcs[a[0].uid] = a[0]
        return a[0]

    def lib_functools_lru_cache(self, a, kw, run, node):
        if a and isinstance(a[0], FuncV):
            self.cached_functions.add(a[0].uid)
            self.cached_funcs[a[0].uid] = a[0]
            return a[0]
        return LibFn.get("functools.cache")

    def lib_functools_partial(self, a, kw, run, node):
        return PartialV(a[0], list(a[1:]), dict(kw))

    def lib_functools_wraps(self, a, kw, run, node):
        return LibFn.get("identity")

    def lib_identity(self, a, kw, run, node):
        return a[0]

    def lib_pydantic_validator(self, a, kw, run, node):
        # @root_validator / @root_validator(pre=True) / @validator("field", ...): validators do not change
        # the decorated function as far as this analysis is concerned
        if len(a) == 1 and isinstance(a[0], (FuncV, WrapV)) and not kw:
            return a[0]
        return LibFn.get("identity")

    def lib_contextlib_contextmanager(self, a, kw, run, node):
        """@contextmanager: calling the decorated generator function gives a manager whose __enter__ runs the body up to its single
        top-level `yield` (plain, or the only statement of a try body) and whose __exit__ runs what follows (the finally block)."""
        f = a[0]
        if not isinstance(f, FuncV):
            self.limit("contextmanager applied to something else than a function", node)
        return WrapV("contextmanager", f)

    def call_contextmanager(self, f, args, kwargs, run, node):
        body = list(f.node.body)
        if body and isinstance(body[0], ast.Expr) and isinstance(getattr(body[0], "value", None), ast.Constant) and isinstance(body[0].value.value, str):
            body = body[1:]
        pre, post, yexpr, found = [], [], None, False
        for i, st in enumerate(body):
            if isinstance(st, ast.Expr) and isinstance(st.value, ast.Yield):
                pre, yexpr, post, found = body[:i], st.value.value, body[i + 1:], True
                break
            if isinstance(st, ast.Try) and len(st.body) == 1 and isinstance(st.body[0], ast.Expr) and isinstance(st.body[0].value, ast.Yield) \
                    and not st.handlers and not st.orelse:
                pre, yexpr, post, found = body[:i], st.body[0].value.value, list(st.finalbody) + body[i + 1:], True
                break
            if any(isinstance(x, (ast.Yield, ast.YieldFrom)) for x in ast.walk(st)):
                break
        if not found:
            self.limit(f"context manager {f.ref}: the yield is not a top-level statement (or the only statement of a try/finally)", node)
        # bind the arguments as a call would, then run the part before the yield
        env = self.bind_args(f, args, kwargs, run, node)
        self.frames.append(Frame(f, f.module))
        try:
            self.exec_block(pre, env, run)
            val = self.ev(yexpr, env, run) if yexpr is not None else None
        finally:
            self.frames.pop()
        m = CtxMgrV("generator", val)
        m_exit = (f, env, post)
        self._cm_exits = getattr(self, "_cm_exits", {})
        self._cm_exits[id(m)] = (m, m_exit)
        return m

    def lib_contextlib_closing(self, a, kw, run, node):
        return CtxMgrV("closing", a[0])

    def lib_typing_dataclass_transform(self, a, kw, run, node):
        return LibFn.get("identity")

    def lib_warnings_warn(self, a, kw, run, node):
        """warnings.warn(message, category): prints, or -- when the process runs with warnings turned into errors, as this project's own
        test configuration does -- raises the category.  Which of the two is the environment's choice: both are paths."""
        cat = a[1] if len(a) > 1 else kw.get("category", LibClass.get("UserWarning"))
        msg = a[0] if a else kw.get("message")
        if isinstance(msg, InstV):
            cat = msg.cls
        if isinstance(cat, (ClassV, LibClass)) and run.decide(("warnings-are-errors", getattr(cat, "name", "?")), self.site(node)):
            run.emit("raise-site", getattr(cat, "name", "Warning"), self.site(node), "warnings.warn under -W error")
            raise Raised(InstV(cat, {"args": (msg,)}), site=self.site(node))
        return None

    def lib_contextlib_suppress(self, a, kw, run, node):
        m = CtxMgrV("suppress", None)
        m.inner = tuple(a)  # the exception types that end the block silently
        return m

    def lib_contextlib_nullcontext(self, a, kw, run, node):
        return CtxMgrV("null", a[0] if a else None)

    def lib_enum_auto(self, a, kw, run, node):
        self._auto = getattr(self, "_auto", 0) + 1
        return self._auto

    def lib_collections_defaultdict(self, a, kw, run, node):
        d = DefaultDictV({}, site=self.site(node))
        d.factory = a[0] if a else None
        if len(a) > 1 or kw:
            self.limit("defaultdict with initial contents", node)
        return d

    def lib_operator_attrgetter(self, a, kw, run, node):
        return PartialV(LibFn.get("getattr_swapped"), [a[0]], {})

    def lib_operator_itemgetter(self, a, kw, run, node):
        if len(a) != 1 or kw:
            self.limit("operator.itemgetter with several keys", node)
        return PartialV(LibFn.get("getitem_swapped"), [a[0]], {})

    def lib_getitem_swapped(self, a, kw, run, node):
        return self.getitem(a[1], a[0], run, node)

    def lib_operator_methodcaller(self, a, kw, run, node):
        if not a or not isinstance(a[0], str):
            self.limit("operator.methodcaller with a non-constant method name", node)
        return PartialV(LibFn.get("methodcall_swapped"), [a[0], tuple(a[1:]), DictV(dict(kw))], {})

    def lib_methodcall_swapped(self, a, kw, run, node):
        name, args, kwargs, obj = a[0], a[1], a[2], a[3]
        return self.call(self.getattr_(obj, name, run, node), list(args), dict(kwargs.d), run, node)

    def lib_getattr_swapped(self, a, kw, run, node):
        return self.getattr_(a[1], a[0], run, node)

    def lib_int___new__(self, a, kw, run, node):
        cls, v = a[0], a[1]
        return InstV(cls, {"_int_": v})

    # pkgutil ---------------------------------------------------------------------------
    def lib_pkgutil_resolve_name(self, a, kw, run, node):
        name = a[0]
        if isinstance(name, Sym):
            return self.sym_call_lib("pkgutil.resolve_name", a, kw, run, node)
        if not isinstance(name, str):
            self.throw("ValueError", "resolve_name: not a string", node)
        if ":" in name:
            modname, _, attr = name.partition(":")
        else:
            modname, attr = name, ""
            # pkgutil tries progressively shorter module prefixes
            parts = name.split(".")
            for i in range(len(parts), 0, -1):
                cand = ".".join(parts[:i])
                if self.sm.get(cand) is not None:
                    modname, attr = cand, ".".join(parts[i:])
                    break
        if self.sm.get(modname) is None:
            self.throw("ImportError", f"No module named {modname!r}", node)
        obj = self.module(modname)
        for p in [x for x in attr.split(".") if x]:
            obj = self.getattr_(obj, p, run, node)
        return obj

    # ------------------------------------------------------------------ attribute / method access on values
    def lib_value_attr(self, o, name, run, node):
        F = LibFn.get
        if isinstance(o, DictV):
            if name in ("items", "keys", "values", "get", "pop", "setdefault", "update", "clear", "copy", "__getitem__",
                        "__contains__", "__setitem__", "popitem"):
                return BoundV(F(f"dict.{name}"), o)
        if isinstance(o, SetV):
            if name in ("add", "discard", "remove", "update", "clear", "pop", "copy", "union", "issubset", "issuperset", "isdisjoint",
                        "intersection", "difference"):
                return BoundV(F(f"list.set_{name}"), o)
            self.limit(f"set method {name!r} is not modelled", node)
        if isinstance(o, ListV):
            if name in ("append", "extend", "pop", "insert", "clear", "copy", "index", "count", "sort", "reverse",
                        "remove", "__getitem__"):
                return BoundV(F(f"list.{name}"), o)
        if isinstance(o, StreamV):
            return BoundV(F(f"stream.{name}"), o)
        if isinstance(o, CtxMgrV):
            return self.getattr_(o.inner, name, run, node)
        if isinstance(o, LibClass):
            return self.libclass_attr(o, name, node)
        if isinstance(o, GenericV):
            if name == "__origin__":
                return o.origin
            if name == "__args__":
                return tuple(o.args)
        if isinstance(o, UnionV) and name == "__args__":
            return tuple(o.args)
        if isinstance(o, InstV) and "_int_" in o.attrs:
            return self.lib_value_attr(o.attrs["_int_"], name, run, node)
        if isinstance(o, InstV) and isinstance(o.cls, LibClass) and o.cls.name == "struct.Struct":
            if name in ("pack", "unpack"):
                return BoundV(F("struct.Struct." + name), o)
            if name in o.attrs:
                return o.attrs[name]
        if isinstance(o, NATIVE_TYPES) or isinstance(o, (int, float, str, bytes, tuple, frozenset, range)) and not isinstance(o, Obj):
            if isinstance(o, tuple) and not is_concrete(o):
                if name in ("index", "count"):
                    self.limit("tuple method on symbolic tuple", node)
            if isinstance(o, frozenset) and name in ("add", "discard", "remove", "pop", "clear", "update", "intersection_update",
                                                     "difference_update", "symmetric_difference_update"):
                # set() is modelled by an immutable frozenset: a mutation is something the model cannot follow, never an AttributeError
                self.limit(f"mutation of a set (.{name}) is not modelled", node)
            try:
                r = getattr(o, name)
            except AttributeError as e:
                self.throw("AttributeError", str(e), node)
            if callable(r):
                return BoundV(F("native." + name), o)
            return r
        if o is None:
            self.throw("AttributeError", f"'NoneType' object has no attribute {name!r}", node)
        if isinstance(o, OpaqueV):
            return OpaqueV(f"{o.what}.{name}")
        if isinstance(o, LibFn):
            if name in ("__name__", "__qualname__"):
                return o.name
            if o.name.startswith("itertools."):
                return F(o.name + "." + name)
        self.limit(f"attribute {name!r} of {o!r}", node)

    def call_lib_bound_native(self, name, a, kw, run, node):
        o, rest = a[0], a[1:]
        if isinstance(o, _dt.datetime) and o.tzinfo is None and name in ("astimezone", "timestamp"):
            # the result depends on the time zone of the process that runs kio, not on the program: never evaluated natively
            return Sym(("localtime", name, ("k", repr(o))), "datetime" if name == "astimezone" else "float", env_dependent=True)
        if any(not is_concrete(x) for x in list(rest) + list(kw.values())):
            return self.sym_method(o, name, rest, kw, run, node)
        if isinstance(o, str) and name in ("format", "format_map"):
            import string as _string
            try:
                fields = [f for _, f, _, _ in _string.Formatter().parse(o) if f is not None]
            except ValueError as e:
                self.throw("ValueError", str(e), node)
            plain = (int, str, bytes, float, bool, type(None))
            if name == "format_map" or any("." in f or "[" in f for f in fields) or \
                    any(not isinstance(x, plain) for x in list(rest) + list(kw.values())):
                # attribute / item access inside a replacement field, or an argument that is not a plain constant (an enum member, an
                # instance): the text is not computed here -- a string the analysis knows nothing about, never a native exception
                return Sym(("format", ("k", o), tuple(kterm(x) for x in rest), tuple((k, kterm(v)) for k, v in sorted(kw.items()))), "str")
        a2 = [self.to_native(x, node) for x in rest]
        k2 = {k: self.to_native(v, node) for k, v in kw.items()}

        def native_deep(x):
            if isinstance(x, (Sym, Obj)):
                return False
            if isinstance(x, (tuple, list, frozenset)):
                return all(native_deep(y) for y in x)
            if isinstance(x, dict):
                return all(native_deep(y) for y in x.values())
            return True
        if not all(native_deep(x) for x in a2 + list(k2.values())):
            # a container that holds a symbol must never reach a native method (its TypeError would be an artefact of the analysis)
            return self.sym_method(o, name, [tuple(x) if isinstance(x, list) else x for x in a2], k2, run, node)
        try:
            r = getattr(o, name)(*a2, **k2)
        except tuple(PY_EXC) as e:
            self.throw(PY_EXC[type(e)], str(e), node)
        if isinstance(r, list):
            return ListV(r)
        return r

    def call_lib(self, name, args, kwargs, run, node):  # noqa: F811 -- dispatch prefix families first
        if name.startswith("native."):
            return self.call_lib_bound_native(name[7:], args, kwargs, run, node)
        if name == "dict.fromkeys":
            value = args[1] if len(args) > 1 else None
            return DictV({self.hashable(k, node): value for k in self.iterate_concrete(args[0], run, node)}, site=self.site(node))  # ONE value object for all keys
        if name.startswith("dict."):
            return self.dict_method(name[5:], args[0], args[1:], kwargs, run, node)
        if name.startswith("list."):
            return self.list_method(name[5:], args[0], args[1:], kwargs, run, node)
        if name.startswith("stream."):
            return self.stream_method(name[7:], args[0], args[1:], kwargs, run, node)
        return LibMixin._call_lib_plain(self, name, args, kwargs, run, node)

    # containers ------------------------------------------------------------------------
    def dict_method(self, name, d: DictV, a, kw, run, node):
        mutating = name in ("pop", "setdefault", "update", "clear", "__setitem__", "popitem")
        if mutating:
            if d.frozen:
                self.throw("AttributeError", f"'mappingproxy' object has no attribute {name!r}", node)
            run.emit("mutate", d, name, self.site(node))
        if name in ("items", "keys", "values"):
            if d.may:
                self.limit("view of a weakly updated dict", node)
            return KeysT(d.d.keys()) if name == "keys" else tuple(getattr(d.d, name)())
        if name == "get":
            k = a[0]
            default = a[1] if len(a) > 1 else None
            if isinstance(k, Sym):
                return self.sym_dict_lookup(d, k, run, node, default=(default,))
            if d.may and k in d.may:
                stored = d.may[k]
                base = d.d.get(k, default)
                return Sym(("maybe", tuple(term_of(s) for s in stored), term_of(base)), "any",
                           alts=list(stored) + [base])
            return d.d.get(k, default)
        if name == "__getitem__":
            return self.getitem(d, a[0], run, node)
        if name == "__contains__":
            return self.compare("in", a[0], d, run, node)
        if name == "copy":
            return DictV(dict(d.d), site=self.site(node))
        if name == "setdefault":
            k = a[0]
            dv = a[1] if len(a) > 1 else None
            if k not in d.d and d.may and k in d.may:
                # key present only on some paths of an earlier loop: the wire value if stored, else the default
                stored = d.may.pop(k)
                d.d[k] = Sym(("maybe", tuple(term_of(s) for s in stored), term_of(dv)), "any", alts=list(stored) + [dv])
                return d.d[k]
            if k not in d.d:
                self.setitem(d, k, dv, run, node)
            return d.d[k]
        if name == "update":
            src = a[0] if a else DictV({})
            if isinstance(src, DictV):
                for k, v in src.d.items():
                    self.setitem(d, k, v, run, node)
                for k, vs in (src.may or {}).items():
                    if k not in src.d:
                        d.may = d.may or {}
                        d.may.setdefault(k, []).extend(vs)
            for k, v in kw.items():
                self.setitem(d, k, v, run, node)
            return None
        if name == "pop":
            k = a[0]
            if k in d.d:
                return d.d.pop(k)
            if len(a) > 1:
                return a[1]
            self.throw_key(k, node)
        if name == "clear":
            d.d.clear()
            return None
        self.limit(f"dict method {name}", node)

    def list_method(self, name, l: ListV, a, kw, run, node):
        if name.startswith("set_"):
            return self.set_method(name[4:], l, a, kw, run, node)
        if name in ("append", "extend", "pop", "insert", "clear", "sort", "reverse", "remove"):
            run.emit("mutate", l, name, self.site(node))
        if name == "append":
            if run.weak and l.uid not in run.weak_created:
                l.may = (l.may or []) + [a[0]]
            else:
                l.items.append(a[0])
            return None
        if name == "extend":
            l.items.extend(self.iterate_concrete(a[0], run, node))
            return None
        if name == "pop":
            try:
                return l.items.pop(*a)
            except IndexError as e:
                self.throw("IndexError", str(e), node)
        if name == "copy":
            return ListV(list(l.items))
        if name == "clear":
            l.items.clear()
            return None
        if name == "insert":
            l.items.insert(a[0], a[1])
            return None
        if name == "index":
            for i, x in enumerate(l.items):
                if x is a[0] or (is_concrete(x) and x == a[0]):
                    return i
            self.throw("ValueError", "not in list", node)
        self.limit(f"list method {name}", node)

    def set_method(self, name, l, a, kw, run, node):
        def has(x):
            for y in l.items:
                if y is x:
                    return True
                if not is_concrete(x) or not is_concrete(y):
                    self.limit("set membership of a symbolic element", node)
                if type(x) is type(y) and x == y or (isinstance(x, (int, float)) and isinstance(y, (int, float)) and x == y):
                    return True
            return False
        if run.weak and l.uid not in run.weak_created and name in ("add", "discard", "remove", "update", "clear", "pop"):
            self.limit("mutation of a set under a loop with a run-time trip count", node)
        if name in ("add", "discard", "remove", "update", "clear", "pop"):
            run.emit("mutate", l, name, self.site(node))
        if name == "add":
            if not has(a[0]):
                l.items.append(a[0])
            return None
        if name in ("discard", "remove"):
            for i, y in enumerate(l.items):
                if y is a[0] or (is_concrete(y) and is_concrete(a[0]) and type(y) is type(a[0]) and y == a[0]):
                    del l.items[i]
                    return None
            if name == "remove":
                self.throw_key(a[0], node)
            return None
        if name == "update":
            for it in a:
                for x in self.iterate_concrete(it, run, node):
                    if not has(x):
                        l.items.append(x)
            return None
        if name == "clear":
            l.items.clear()
            return None
        if name == "copy":
            return SetV(list(l.items), site=self.site(node))
        self.limit(f"set method {name!r} is not modelled", node)

    def getitem(self, o, k, run, node):
        if isinstance(o, DictV):
            if isinstance(k, Sym):
                return self.sym_dict_lookup(o, k, run, node)
            try:
                hit = k in o.d
            except TypeError:
                self.throw("TypeError", "unhashable key", node)
            if o.may and k in o.may:
                self.limit("subscript of a weakly updated dict key", node)
            if hit:
                return o.d[k]
            if isinstance(o, DefaultDictV) and o.factory is not None:
                if run.weak and o.uid not in run.weak_created:
                    self.limit("defaultdict miss under a loop with a run-time trip count", node)
                v = self.call(o.factory, [], {}, run, node)
                run.emit("mutate", o, "__missing__", self.site(node))
                o.d[k] = v
                return v
            self.throw_key(k, node)
        if isinstance(o, OpaqueV) and o.what == "sys.modules" and isinstance(k, str):
            try:
                return self.module(k)  # an imported module of the analysed packages
            except (Raised, Limit):
                self.limit(f"sys.modules[{k!r}]", node)
        if isinstance(o, (LibClass, LibFn, OpaqueV)) or (isinstance(o, ClassV) and not isinstance(k, Sym)):
            if isinstance(o, ClassV) and "enum" in o.flags:
                if isinstance(k, str) and k in o.flags["enum"]:
                    return o.flags["enum"][k]
                self.throw_key(k, node)
            args = k if isinstance(k, tuple) else (k,)
            if isinstance(o, OpaqueV):
                return OpaqueV(f"{o.what}[...]")
            return GenericV(o, args)
        if isinstance(o, Sym) or isinstance(k, Sym):
            return self.sym_getitem(o, k, run, node)
        if isinstance(o, ListV) and o.may and isinstance(k, int) and not o.items:
            # the list is filled by a loop with a run-time trip count: it may still be empty
            run.emit("raise-site", "IndexError", self.site(node), "subscript of a list that is empty when the loop ran zero times")
            if run.decide(nonempty_term(term_of(o)), self.site(node)):
                vals = o.may
                return vals[0] if len(vals) == 1 else Sym(("maybe", tuple(term_of(v) for v in vals)), "any", alts=list(vals))
            self.throw("IndexError", "list index out of range", node)
        if isinstance(o, ListV):
            o = o.items
            wrap = True
        else:
            wrap = False
        if isinstance(k, tuple) and k and k[0] == "slice":
            r = o[slice(k[1], k[2], k[3])]
            return ListV(r) if wrap else r
        if isinstance(o, (tuple, list, str, bytes, range)):
            try:
                return o[k]
            except IndexError as e:
                self.throw("IndexError", str(e), node)
            except TypeError as e:
                self.throw("TypeError", str(e), node)
        if isinstance(o, GenericV):
            return o
        self.limit(f"subscript of {o!r}", node)

    def setitem(self, o, k, v, run, node):
        if isinstance(o, DictV):
            if o.frozen:
                self.throw("TypeError", "'mappingproxy' object does not support item assignment", node)
            run.emit("mutate", o, "__setitem__", self.site(node))
            if isinstance(k, Sym):
                self.limit("dict store under a symbolic key", node)
            if run.weak and o.uid not in run.weak_created:
                o.may = o.may or {}
                o.may.setdefault(k, []).append(v)
            else:
                o.d[k] = v
            return
        if isinstance(o, ListV):
            run.emit("mutate", o, "__setitem__", self.site(node))
            o.items[k] = v
            return
        self.limit(f"item store on {o!r}", node)

    # context managers -------------------------------------------------------------------
    def ctx_enter(self, m, run, node):
        if isinstance(m, StreamV):
            return m
        if isinstance(m, CtxMgrV) and m.kind == "suppress":
            return None
        if isinstance(m, CtxMgrV):
            return m.inner
        if isinstance(m, InstV):
            f = self.class_lookup(m.cls, "__enter__")
            if f is not None:
                return self.call(self.bind_descr(f, m, m.cls), [], {}, run, node)
        self.limit(f"context manager {m!r}", node)

    def ctx_exit(self, m, run, node):
        if isinstance(m, StreamV):
            m.closed = True
            run.emit("close", m, self.site(node))
        elif isinstance(m, CtxMgrV) and m.kind == "closing" and isinstance(m.inner, StreamV):
            m.inner.closed = True
            run.emit("close", m.inner, self.site(node))
        elif isinstance(m, CtxMgrV) and m.kind == "generator":
            ent = getattr(self, "_cm_exits", {}).pop(id(m), None)
            if ent is not None:
                f, env, post = ent[1]
                self.frames.append(Frame(f, f.module))
                try:
                    self.exec_block(post, env, run)
                finally:
                    self.frames.pop()

    # concrete operators ----------------------------------------------------------------
    def binop(self, op, a, b, run, node):
        if isinstance(a, Sym) or isinstance(b, Sym):
            return self.sym_binop(op, a, b, run, node)
        if op == "or" and (self.is_typeish(a) or self.is_typeish(b)) and not (isinstance(a, OpaqueV) and isinstance(b, (str, int))):
            return UnionV((a, b))
        if isinstance(a, EnumMemberV) and isinstance(a.value, int):
            a = a.value
        if isinstance(b, EnumMemberV) and isinstance(b.value, int):
            b = b.value
        if isinstance(a, ListV) and isinstance(b, ListV) and op == "add":
            return ListV(a.items + b.items)
        if isinstance(a, OpaqueV) or isinstance(b, OpaqueV):
            return OpaqueV(f"({a!r} {op} {b!r})"[:80])
        if isinstance(a, Obj) or isinstance(b, Obj):
            self.limit(f"binary {op} on {a!r}, {b!r}", node)
        import operator as _o
        f = {"add": _o.add, "sub": _o.sub, "mul": _o.mul, "and": _o.and_, "or": _o.or_, "xor": _o.xor,
             "shl": _o.lshift, "shr": _o.rshift, "div": _o.truediv, "floordiv": _o.floordiv, "mod": _o.mod,
             "pow": _o.pow}[op]
        try:
            if op == "shl" and isinstance(b, int) and b > 4096:
                self.limit("huge shift", node)
            if op == "pow" and isinstance(b, int) and abs(b) > 4096:
                self.limit("huge power", node)
            return f(a, b)
        except tuple(PY_EXC) as e:
            self.throw(PY_EXC[type(e)], str(e), node)

    def is_typeish(self, v):
        return isinstance(v, (ClassV, LibClass, GenericV, UnionV)) or (isinstance(v, OpaqueV))

    def unop(self, op, v, run, node):
        if isinstance(v, Sym):
            return self.sym_unop(op, v, run, node)
        try:
            if op == "USub":
                return -v
            if op == "UAdd":
                return +v
            if op == "Invert":
                return ~v
        except TypeError as e:
            self.throw("TypeError", str(e), node)
        self.limit(f"unary {op}", node)

    def values_equal(self, a, b, run, node):  # noqa: C901
        """Python `==` on abstract values; returns bool or Sym."""
        if isinstance(a, Sym) or isinstance(b, Sym):
            return self.sym_compare("eq", a, b, run, node)
        if a is b:
            return True
        if isinstance(a, InstV) and isinstance(b, InstV):
            if a.cls is not b.cls:
                return False
            if a.cls.entity is not None or "dataclass" in a.cls.flags:
                res = True
                for k in a.attrs:
                    r = self.values_equal(a.attrs[k], b.attrs.get(k, MISSING), run, node)
                    if r is False:
                        return False
                    if isinstance(r, Sym):
                        res = r if res is True else self.boolop_and(res, r)
                return res
            return False
        if isinstance(a, EnumMemberV) or isinstance(b, EnumMemberV):
            if isinstance(a, EnumMemberV) and isinstance(b, EnumMemberV):
                return a is b
            ea, other = (a, b) if isinstance(a, EnumMemberV) else (b, a)
            if any(isinstance(c, LibClass) and c.name == "int" for c in ea.cls.mro) and isinstance(other, int):
                return ea.value == other
            return False
        if (isinstance(a, KeysT) and isinstance(b, (frozenset, KeysT))) or (isinstance(b, KeysT) and isinstance(a, frozenset)):
            try:
                return frozenset(a) == frozenset(b)  # a keys view compares like a set
            except TypeError:
                self.limit("comparison of a keys view holding unhashable keys", node)
        if isinstance(a, tuple) and isinstance(b, tuple):
            if len(a) != len(b):
                return False
            res = True
            for x, y in zip(a, b):
                r = self.values_equal(x, y, run, node)
                if r is False:
                    return False
                if isinstance(r, Sym):
                    res = r if res is True else self.boolop_and(res, r)
            return res
        if isinstance(a, ListV) and isinstance(b, ListV):
            return self.values_equal(tuple(a.items), tuple(b.items), run, node)
        if isinstance(a, DictV) and isinstance(b, DictV):
            return a.d == b.d if is_concrete(tuple(a.d.values())) else a is b
        if isinstance(a, Obj) or isinstance(b, Obj):
            if isinstance(a, (GenericV, UnionV)) and isinstance(b, (GenericV, UnionV)):
                return a == b
            return False
        try:
            return a == b
        except Exception:
            return False

    def compare(self, op, a, b, run, node):
        if op == "is" or op == "isnot":
            r = self.identical(a, b, run, node)
            if isinstance(r, Sym):
                return r if op == "is" else self.sym_not(r)
            return r if op == "is" else not r
        if op in ("in", "notin"):
            r = self.contains(b, a, run, node)
            if isinstance(r, Sym):
                return r if op == "in" else self.sym_not(r)
            return r if op == "in" else not r
        if op in ("eq", "ne"):
            r = self.values_equal(a, b, run, node)
            if isinstance(r, Sym):
                return r if op == "eq" else self.sym_not(r)
            return r if op == "eq" else not r
        if isinstance(a, Sym) or isinstance(b, Sym):
            return self.sym_compare(op, a, b, run, node)
        if isinstance(a, EnumMemberV):
            a = a.value
        if isinstance(b, EnumMemberV):
            b = b.value
        if isinstance(a, Obj) or isinstance(b, Obj):
            self.limit(f"ordering comparison on {a!r}, {b!r}", node)
        import operator as _o
        try:
            return {"lt": _o.lt, "le": _o.le, "gt": _o.gt, "ge": _o.ge}[op](a, b)
        except TypeError as e:
            self.throw("TypeError", str(e), node)

    def identical(self, a, b, run, node):
        if isinstance(a, Sym) or isinstance(b, Sym):
            return self.sym_identical(a, b, run, node)
        if a is None or b is None or isinstance(a, bool) or isinstance(b, bool) or a is Ellipsis or b is Ellipsis:
            return a is b
        if isinstance(a, Obj) or isinstance(b, Obj):
            return a is b
        if isinstance(a, (int, str, bytes, tuple, float)) and isinstance(b, (int, str, bytes, tuple, float)):
            # identity of equal immutable constants is an implementation detail; treat small ints / interned as equal
            return type(a) is type(b) and a == b
        return a is b

    def contains(self, container, item, run, node):
        if isinstance(container, Sym) or isinstance(item, Sym):
            return self.sym_contains(container, item, run, node)
        if isinstance(container, DictV):
            if container.may and item in container.may and item not in container.d:
                return Sym(("haskey", term_of(container), term_of(item)), "bool")
            return item in container.d
        if isinstance(container, ListV):
            seq = container.items
        elif isinstance(container, (tuple, frozenset)):
            seq = container
        elif isinstance(container, (str, bytes, range)):
            return item in container
        elif isinstance(container, ClassV) and "enum" in container.flags:
            return item in container.flags["enum"].values()
        elif isinstance(container, InstV) and container.cls.flags.get("namedtuple") and self.class_lookup(container.cls, "__contains__") is None:
            seq = tuple(container.attrs[n] for n in container.cls.flags["namedtuple"])  # a NamedTuple is a tuple: membership among its fields
        elif isinstance(container, InstV) and self.class_lookup(container.cls, "__contains__") is not None:
            r = self.call(self.class_lookup(container.cls, "__contains__"), [container, item], {}, run, node)
            return r if isinstance(r, Sym) else self.truth(r, run, node)
        else:
            self.limit(f"`in` on {container!r}", node)
        for x in seq:
            r = self.identical(x, item, run, node)
            if r is True:
                return True
            r = self.values_equal(x, item, run, node)
            if r is True:
                return True
            if isinstance(r, Sym):
                self.limit("`in` over symbolic elements", node)
        return False
