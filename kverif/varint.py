"""Bit-level verification of the varint reader/writer atoms and the zig-zag conversions in
the GF(2)-affine bit-vector domain (values.BV).  No solver: the domain is exact for the
operations involved (mask with a constant, shift by a constant, or/xor, add without carry),
so equalities between bit vectors are decided by normal-form comparison."""
from __future__ import annotations

from .values import BV, Sym


def bv_eval(t, env):
    """Evaluate a term (tuple form) to a BV.  env maps atom terms to BVs. None = not expressible."""
    if t in env:
        return env[t]
    if not isinstance(t, tuple) or not t:
        return None
    h = t[0]
    if h == "k":
        return BV.const(t[1]) if isinstance(t[1], int) and not isinstance(t[1], bool) else None
    if h == "byte" and len(t) == 3:
        return env.get(t) or BV.atom(t, 8, False)
    if h in ("and", "or", "xor", "add") and len(t) == 3:
        a, b = bv_eval(t[1], env), bv_eval(t[2], env)
        if a is None or b is None:
            return None
        r = {"and": a.__and__, "or": a.__or__, "xor": a.__xor__, "add": a.add}[h](b)
        return None if r is None or r.has_top() else r
    if h in ("shl", "shr") and len(t) == 3:
        a, b = bv_eval(t[1], env), bv_eval(t[2], env)
        if a is None or b is None or not b.is_const() or not (0 <= b.const_value() <= 512):
            return None
        return (a << b.const_value()) if h == "shl" else (a >> b.const_value())
    if h == "neg" and len(t) == 2:
        a = bv_eval(t[1], env)
        return None if a is None else a.neg()
    if h == "invert" and len(t) == 2:
        a = bv_eval(t[1], env)
        return None if a is None else a.invert()
    return None


def from_json(t):
    if isinstance(t, list):
        return tuple(from_json(x) for x in t)
    return t


def check_varint_reader(atom) -> list[str]:
    """k-th path: k exact 1-byte reads, value = sum (b_i & 0x7f) << 7i, continues iff b_i & 0x80."""
    problems = []
    for k, p in enumerate(atom["paths"], start=1):
        wires = p["wires"]
        if len(wires) != k:
            problems.append(f"path {k} reads {len(wires)} bytes")
            continue
        bytes_bv = [BV.atom(("byte", w, 0), 8, False) for w in wires]
        want = BV([bytes_bv[i].bit(j) for i in range(k) for j in range(7)], BV.ZERO)
        got = p["bv"]
        if got is None or got.has_top() or got != want:
            problems.append(f"{k}-byte path: value bits are {got.show() if got is not None else None}, expected the low 7 bits of each byte, "
                            f"least significant group first")
        # continuation tests: one decision per byte, on bit 7 only
        conds = p["conds"]
        if len(conds) != k:
            problems.append(f"{k}-byte path takes {len(conds)} decisions, expected one continuation test per byte")
            continue
        for i, (term, pol) in enumerate(conds):
            tested, zero_means = None, None
            if term[0] == "eq" and term[2] == ("k", 0):
                tested, zero_means = bv_eval(term[1], {}), True
            elif term[0] == "eq" and term[1] == ("k", 0):
                tested, zero_means = bv_eval(term[2], {}), True
            elif term[0] == "nonzero":
                tested, zero_means = bv_eval(term[1], {}), False
            if tested is None:
                problems.append(f"{k}-byte path: continuation test {term!r} not understood")
                continue
            want_t = BV([BV.ZERO] * 7 + [bytes_bv[i].bit(7)], BV.ZERO)
            if tested != want_t:
                problems.append(f"{k}-byte path: continuation test of byte {i} inspects {tested.show()}, expected bit 7 only")
            is_zero = pol if zero_means else not pol
            last = i == k - 1
            if is_zero != last:
                problems.append(f"{k}-byte path: byte {i} continuation bit is {'clear' if is_zero else 'set'} but the path "
                                f"{'stops' if last else 'continues'} there")
    return problems


def _bounds(conds, v, V):
    """(lo, hi) of the value implied by a path's decided conditions (range comparisons with constants and
    zero tests of shifted copies of the value)."""
    lo, hi = 0, (1 << 70) - 1
    env = {v: V}
    for term, pol in conds:
        h = term[0]
        if h == "nonzero" or (h == "eq" and term[2] == ("k", 0)):
            q = bv_eval(term[1], env)
            nz = pol if h == "nonzero" else not pol
            if q is None:
                return None
            if q.known_zero():
                continue
            b0 = q.bits[0] if q.bits else None
            if b0 is None or len(b0[1]) != 1 or any(q.bits[i] != V.bit(next(iter(b0[1]))[1] + i) for i in range(len(q.bits))):
                return None
            p = next(iter(b0[1]))[1]
            if nz:
                lo = max(lo, 1 << p)
            else:
                hi = min(hi, (1 << p) - 1)
        elif h in ("lt", "le", "gt", "ge") and len(term) == 3:
            a, b = term[1], term[2]
            if a == v and b[0] == "k":
                c, op = b[1], h
            elif b == v and a[0] == "k":
                c, op = a[1], {"lt": "gt", "le": "ge", "gt": "lt", "ge": "le"}[h]
            else:
                return None
            if not pol:
                op = {"lt": "ge", "le": "gt", "gt": "le", "ge": "lt"}[op]
            if op == "lt":
                hi = min(hi, c - 1)
            elif op == "le":
                hi = min(hi, c)
            elif op == "gt":
                lo = max(lo, c + 1)
            else:
                lo = max(lo, c)
        else:
            return None
    return lo, hi


def check_varint_writer(atom) -> list[str]:
    """Every path of the writer must emit the canonical (minimal) LEB128 bytes for every value that takes it.
    A k-byte path taken for values in [lo, hi] is canonical iff 2**(7(k-1)) <= lo (k > 1), hi < 2**(7k), and
    byte i carries bits 7i..7i+6 with the continuation bit set on all but the last byte."""
    problems = []
    v = atom["value_term"]
    V = BV.atom(v, 70, False)
    for p in atom["paths"]:
        bs = p["bytes"]
        k = len(bs)
        bd = _bounds(p["conds"], v, V)
        if bd is None:
            problems.append(f"{k}-byte path: path condition not understood: {[c for c, _ in p['conds']][:3]!r}")
            continue
        lo, hi = bd
        if lo > hi:
            continue  # infeasible
        if hi >= 1 << (7 * k):
            problems.append(f"the {k}-byte path is taken for values up to {min(hi, (1 << 70) - 1)}, but {1 << (7 * k)} and above need {k + 1} "
                            f"bytes: for {1 << (7 * k)} the last byte is written with its continuation bit set (or bits are dropped)")
        if k > 1 and lo < 1 << (7 * (k - 1)):
            problems.append(f"the {k}-byte path is taken for values down to {lo}, which fit in fewer bytes (non-minimal encoding)")
        known_zero = {(v, i): BV.ZERO for i in range(max(hi, 0).bit_length(), 71)}
        for i, b in enumerate(bs):
            want = BV([V.bit(7 * i + j) for j in range(7)] + [BV.ONE if i < k - 1 else BV.ZERO], BV.ZERO).subst(known_zero)
            got = b.subst(known_zero) if b is not None else None
            if got is None or got != want:
                if hi < 1 << (7 * k):
                    problems.append(f"{k}-byte path: byte {i} is {got.show() if got is not None else None}, expected bits {7 * i}..{7 * i + 6} "
                                    f"of the value and continuation bit {'set' if i < k - 1 else 'clear'}")
    return problems


def check_roundtrip(reader_atom, writer_atom) -> list[str]:
    """reader(writer(v)) = v for every v below 2**(7*max_bytes): substitute the writer's byte
    vectors for the reader's byte atoms, path by path."""
    problems = []
    v = writer_atom["value_term"]
    V = BV.atom(v, 70, False)
    for wp in writer_atom["paths"]:
        k = len(wp["bytes"])
        if k > reader_atom["max_bytes"]:
            continue
        bd = _bounds(wp["conds"], v, V)
        if bd is not None and bd[0] > bd[1]:
            continue
        rp = reader_atom["paths"][k - 1]
        zero = {(v, i): BV.ZERO for i in range(max(bd[1], 0).bit_length() if bd else 71, 71)}
        mapping = {}
        for i, w in enumerate(rp["wires"]):
            b = wp["bytes"][i]
            if b is None:
                problems.append(f"{k}-byte path: writer byte {i} not expressible")
                return problems
            b = b.subst(zero)
            for j in range(8):
                mapping[(("byte", w, 0), j)] = b.bit(j)
        got = rp["bv"].subst(mapping) if rp["bv"] is not None else None
        want = BV([V.bit(i) for i in range(7 * k)], BV.ZERO).subst(zero)  # bits >= 7k are zero on this writer path
        if got is None or got != want:
            problems.append(f"{k}-byte encodings do not read back: reader yields {got.show() if got is not None else None}")
    return problems


def check_zigzag(enc_conv, dec_conv, bits: int) -> list[str]:
    """enc: value -> unsigned; dec: unsigned -> value.  dec(enc(v)) = v on the signed `bits`-bit
    domain, enc(v) >= 0 and fits bits bits, and enc is the canonical (v << 1) ^ (v >> bits-1)."""
    problems = []
    hole = ("X",)
    V = BV.atom("v", bits, True)
    U = bv_eval(enc_conv, {hole: V})
    if U is None:
        return [f"zig-zag encoder {enc_conv!r} not expressible at bit level"]
    want = (V << 1) ^ (V >> (bits - 1))
    if U != want:
        problems.append(f"zig-zag encoder is not (v << 1) ^ (v >> {bits - 1}) on the {bits}-bit domain: {U.show()}")
    if U.ext != BV.ZERO or U.width() > bits:
        problems.append(f"zig-zag encoder yields a negative or over-wide value on the {bits}-bit domain (ext={U.ext}, width={U.width()})")
    back = bv_eval(dec_conv, {hole: U})
    if back is None or back != V:
        problems.append(f"zig-zag decode(encode(v)) != v on the {bits}-bit domain: {back.show() if back is not None else None}")
    return problems
