"""Fault-injection exploration (thorough tier of C06 / C10 / C19): every stream operation of
every codec root gets one extra path on which it raises -- BufferUnderflow for checked reads
("underflow"), OSError for reads and writes ("io").  Static: the interpreter forks the path,
nothing of /repo is executed.  The exception must leave the root unchanged (same class, not
swallowed, not converted) and no object that outlives the call may have been mutated."""
from __future__ import annotations

from .core import AnalysisError
from .interp_base import Limit, Raised, Run, short_exc
from .values import StreamV, InstV, LibClass


def explore_faults(ctx, mode: str, direction: str):
    """Yield (root ref, line, module, problems) for every codec root of the given direction."""
    P = ctx.plans
    P.build_all()
    from .plans import analyse_primitives
    analyse_primitives(P)
    A, D, I = P.A, P.D, P.I
    roots = []
    if direction == "r":
        roots = [(c, None) for c in D.roots_r.values()]
    else:
        roots = list(D.roots_w.values())
    want = I.module("kio.serial.errors").env.vars["BufferUnderflow"] if mode == "underflow" else LibClass.get("OSError")
    A.fault = mode
    out = []
    n_paths = n_fault_paths = 0
    try:
        for codec, vtype in roots:
            args = [StreamV("param")]
            if direction == "w":
                args.append(I.sym_of_type(("param", "value"), vtype))
            base_log = dict(A.log)
            try:
                paths = A.paths(codec, args, direction=direction)
            except Limit as e:
                out.append((codec, [f"not explored under fault injection: {e}"], True))
                continue
            problems = []
            for p in paths:
                n_paths += 1
                faults = [e for e in p.effects if e[0] == "fault"]
                if not faults:
                    continue
                n_fault_paths += 1
                site = faults[-1][3]
                if p.outcome != "raise":
                    problems.append(f"an injected {short_exc(want)} at {site} is swallowed: the call returns {p.value!r}"[:300])
                elif not (isinstance(p.value, InstV) and p.value.attrs.get("__injected__")):
                    handled = [n for n in p.notes if n and n[0] == "handled"]
                    problems.append(f"an injected {short_exc(want)} at {site} leaves the call as {short_exc(p.value.cls)}"
                                    + (f" (converted by the handler at {handled[-1][2]})" if handled else ""))
                muts = [e for e in p.effects if e[0] == "mutate" and getattr(e[1], "uid", 1 << 60) < A.path_base]
                if muts:
                    problems.append(f"the failing call has already mutated an object that outlives it ({muts[0][2]} at {muts[0][3]})")
            if problems:
                out.append((codec, sorted(set(problems)), False))
    finally:
        A.fault = None
    return out, {"roots": len(roots), "paths": n_paths, "fault_paths": n_fault_paths}
