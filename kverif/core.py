"""Framework core: outcomes, findings, rule accounting, evidence, known findings, replay.

Exit protocol (DESIGN.md section 1.2):
  0  every armed rule instance holds (or is a listed known finding)
  1  VIOLATION property=<id> replay=<path>   (one line per distinct construct)
  2  ANALYSIS-ERROR property=<id> <what>     (never a silent pass, never a VIOLATION)
"""
from __future__ import annotations

import hashlib
import json
import os
import sys
import time
import traceback
from dataclasses import dataclass, field, asdict
from pathlib import Path

VERIF = Path(__file__).resolve().parent.parent
REPO = Path(os.environ.get("KVERIF_REPO", "/repo"))
EVIDENCE_DIR = Path(os.environ.get("KVERIF_EVIDENCE", str(VERIF / "evidence")))
REPLAY_DIR = Path(os.environ.get("KVERIF_REPLAY", str(VERIF / "replay")))
KNOWN_FINDINGS = VERIF / "known_findings.json"
CACHE_DIR = Path(os.environ.get("KVERIF_CACHE", str(VERIF / ".cache")))


class AnalysisError(Exception):
    """The analyser met something it does not model / an anchor vanished / a floor was
    missed / a positive control did not fire.  Exit 2."""


def norm_ws(text: str) -> str:
    return " ".join(text.split())


@dataclass
class Finding:
    property: str
    rule: str
    construct: str  # "module:qualname" or "module:Class.field" -- never a line number
    stmt: str  # normalised statement / term text (ast.unparse), part of the key
    message: str
    file: str = ""
    line: int = 0
    details: dict = field(default_factory=dict)

    def key(self) -> tuple:
        return (self.property, self.rule, self.construct, norm_ws(self.stmt))

    def keyhash(self) -> str:
        return hashlib.sha256("\x00".join(self.key()).encode()).hexdigest()[:12]


@dataclass
class RuleStat:
    rid: str
    desc: str
    floor: int = 0
    instances: int = 0
    violations: int = 0
    necessary_because: str = ""


class Report:
    """Per-property accumulator.  `check()` is the only way to count an obligation."""

    def __init__(self, pid: str, tier: str, seed: int):
        self.pid, self.tier, self.seed = pid, tier, seed
        self.rules: dict[str, RuleStat] = {}
        self.findings: list[Finding] = []
        self._seen_keys: set = set()
        self._instances: set = set()
        self.samples: list = []
        self.notes: list[str] = []
        self.extra: dict = {}
        self.assumptions: list[str] = []
        self.trusted_base: list[str] = []
        self.explanation = ""
        self.level = "other"
        self.exhaustive = False
        self.t0 = time.time()

    # -- rule table ------------------------------------------------------------------
    def rule(self, rid: str, desc: str, floor: int = 0, necessary_because: str = "") -> str:
        if rid not in self.rules:
            self.rules[rid] = RuleStat(rid, desc, floor, necessary_because=necessary_because)
        return rid

    def check(self, rid: str, ok: bool, *, construct: str, stmt: str = "", message: str = "",
              file: str = "", line: int = 0, details: dict | None = None, instance: str | None = None) -> bool:
        st = self.rules[rid]
        st.instances += 1
        self._instances.add((rid, instance if instance is not None else construct + "|" + norm_ws(stmt)))
        if not ok:
            f = Finding(self.pid, rid, construct, stmt, message, file, line, details or {})
            if f.key() not in self._seen_keys:
                self._seen_keys.add(f.key())
                self.findings.append(f)
                st.violations += 1
        return ok

    def count(self, rid: str, n: int = 1, instance: str | None = None) -> None:
        """n instances of rule `rid` evaluated and found to hold (bulk accounting)."""
        st = self.rules[rid]
        st.instances += n
        if instance is not None:
            self._instances.add((rid, instance))

    def sample(self, obj) -> None:
        if len(self.samples) < 12:
            self.samples.append(obj)

    def note(self, text: str) -> None:
        self.notes.append(text)

    def limit(self, text: str) -> None:
        """Something the analyser could not follow.  Never a verdict: the run ends in exit 2 unless it also has concrete findings."""
        if not hasattr(self, "limits"):
            self.limits = []
        if text not in self.limits:
            self.limits.append(text)

    # -- totals ----------------------------------------------------------------------
    @property
    def obligations(self) -> int:
        return sum(r.instances for r in self.rules.values())

    @property
    def discharged(self) -> int:
        return self.obligations - len(self.findings)

    def enforce_floors(self) -> None:
        for r in self.rules.values():
            if r.instances < r.floor:
                raise AnalysisError(
                    f"rule {r.rid} matched {r.instances} instance(s), below the confirmed floor {r.floor}: "
                    f"an anchor vanished or the rule no longer sees the code it was confirmed on")


# -- known findings -------------------------------------------------------------------

def load_known_findings() -> list[dict]:
    if not KNOWN_FINDINGS.exists():
        return []
    data = json.loads(KNOWN_FINDINGS.read_text())
    return data.get("findings", [])


def match_known(f: Finding, known: list[dict]) -> dict | None:
    for k in known:
        if k.get("status") != "known":
            continue  # "fixed" entries suppress nothing
        if k.get("property") != f.property or k.get("rule") != f.rule:
            continue
        if k.get("construct") != f.construct:
            continue
        if norm_ws(k.get("stmt", "")) != norm_ws(f.stmt):
            continue
        return k
    return None


# -- evidence / replay ----------------------------------------------------------------

def write_replay(f: Finding) -> Path:
    REPLAY_DIR.mkdir(parents=True, exist_ok=True)
    p = REPLAY_DIR / f"{f.property}-{f.rule}-{f.keyhash()}.json"
    p.write_text(json.dumps({
        "property": f.property, "rule": f.rule, "construct": f.construct, "stmt": norm_ws(f.stmt),
        "message": f.message, "file": f.file, "line": f.line, "details": f.details,
        "replay": f"./vcheck replay {p}",
    }, indent=1, default=str))
    return p


def write_evidence(rep: Report, status: str, violations: int, known_hits: list[str], cmd: str, error: str = "") -> None:
    EVIDENCE_DIR.mkdir(parents=True, exist_ok=True)
    distinct = len(rep._instances)
    rules_table = [
        {"id": r.rid, "rule": r.desc, "instances": r.instances, "floor": r.floor, "violations": r.violations,
         **({"necessary_because": r.necessary_because} if r.necessary_because else {})}
        for r in rep.rules.values()
    ]
    cov = {
        "explanation": rep.explanation or "static analysis; see rules",
        "obligations": rep.obligations,
        "discharged": rep.discharged if status != "analysis-error" else 0,
        "evaluations": max(rep.obligations, 0),
        "distinct_nontrivial": distinct,
        "rule": ("each evaluation is one instance of one rule of the table in 'rules' applied to one source "
                 "construct (class, field, function, call site, path); distinct_nontrivial counts distinct "
                 "(rule, construct) pairs whose antecedent matched real code in /repo on this run"),
        "rules": rules_table,
        "samples": rep.samples or [{"note": "no samples recorded"}],
        "checker_cmd": cmd,
        "trusted_base": rep.trusted_base,
        "exhaustive": rep.exhaustive,
        "status": status,
        "known_findings_reported": known_hits,
        "notes": rep.notes,
        **rep.extra,
    }
    if error:
        cov["analysis_error"] = error
    ev = {
        "property_id": rep.pid,
        "tier": rep.tier,
        "seed": rep.seed,
        "level": rep.level,
        "coverage": cov,
        "assumptions": rep.assumptions,
        "wall_s": round(time.time() - rep.t0, 3),
        "violations": violations,
    }
    tmp = EVIDENCE_DIR / f".{rep.pid}.json.tmp{os.getpid()}"
    tmp.write_text(json.dumps(ev, indent=1, default=str))
    os.replace(tmp, EVIDENCE_DIR / f"{rep.pid}.json")


COMMON_ASSUMPTIONS = [
    "kio is not monkey-patched at run time and names resolve as the import statements say "
    "(no exec/eval/setattr/globals()/importlib in the analysed packages; checked by rule E0-dyn)",
    "CPython semantics of the library functions listed under trusted_base are as modelled",
]
COMMON_TRUSTED = [
    "CPython's ast parser",
    "kverif's own abstract interpreter (kverif/absint.py) and term normaliser",
]


def run_property(pid: str, fn, tier: str, seed: int, only_key: tuple | None = None) -> int:
    """Run one property's checker with the exit protocol. `fn(rep)` fills the report."""
    rep = Report(pid, tier, seed)
    rep.assumptions = list(COMMON_ASSUMPTIONS)
    rep.trusted_base = list(COMMON_TRUSTED)
    cmd = f"./vcheck {pid} --tier {tier}"
    floor_error = None
    try:
        try:
            from . import grammar as _grammar
            _grammar.PENDING_LIMITS.clear()
        except Exception:  # noqa: BLE001
            _grammar = None
        try:
            fn(rep)
        except AnalysisError as e_:
            # part of the check could not be carried out; what was found before that point is concrete evidence and is reported
            known__ = load_known_findings()
            if any(match_known(f, known__) is None for f in rep.findings):
                rep.limit(str(e_))
            else:
                raise
        if _grammar is not None:
            for m_ in _grammar.PENDING_LIMITS:
                rep.limit(m_)
        lims = getattr(rep, "limits", [])
        if lims:
            known_ = load_known_findings()
            if any(match_known(f, known_) is None for f in rep.findings):
                rep.note("analysis limits (reported because the run found violations anyway): " + norm_ws("; ".join(lims))[:600])
            else:
                raise AnalysisError("; ".join(lims[:3]) + (f" (+{len(lims) - 3} more)" if len(lims) > 3 else ""))
        try:
            rep.enforce_floors()
        except AnalysisError as e:
            # a concrete finding is evidence on its own; a missed floor only matters when the run would
            # otherwise pass (a rule that lost its instances must not turn into a silent pass)
            known0 = load_known_findings()
            if any(match_known(f, known0) is None for f in rep.findings):
                floor_error = str(e)
            else:
                raise
    except AnalysisError as e:
        msg = norm_ws(str(e))
        print(f"ANALYSIS-ERROR property={pid} {msg}")
        write_evidence(rep, "analysis-error", 0, [], cmd, error=msg)
        return 2
    except Exception as e:  # a traceback must never look like a violation
        tb = traceback.format_exc()
        sys.stderr.write(tb)
        msg = norm_ws(f"internal error {type(e).__name__}: {e}")
        print(f"ANALYSIS-ERROR property={pid} {msg}")
        write_evidence(rep, "analysis-error", 0, [], cmd, error=msg + " | " + tb[-1500:])
        return 2

    known = load_known_findings()
    known_hits, violations = [], []
    for f in rep.findings:
        if only_key is not None and f.key() != only_key:
            continue
        k = match_known(f, known)
        if k is not None:
            known_hits.append(f"{f.rule} {f.construct}")
            print(f"KNOWN-FINDING: property={pid} rule={f.rule} at {f.construct}: {k.get('what', f.message)}")
        else:
            violations.append(f)
    for f in violations:
        p = write_replay(f)
        loc = f"{f.file}:{f.line}" if f.file else f.construct
        print(f"  {pid} {f.rule} {loc} [{f.construct}] {f.message}")
        if f.stmt:
            print(f"      construct: {norm_ws(f.stmt)[:300]}")
        print(f"VIOLATION property={pid} replay={p}")
    status = "violation" if violations else "pass"
    if floor_error:
        rep.note("instance floor missed (reported because the run found violations anyway): " + norm_ws(floor_error))
        print(f"  note: {norm_ws(floor_error)[:200]}")
    write_evidence(rep, status, len(violations), known_hits, cmd)
    summary = ", ".join(f"{r.rid}={r.instances}" for r in rep.rules.values())
    print(f"{pid} [{tier}] {status}: {rep.obligations} obligations over {len(rep.rules)} rules "
          f"({summary}); {len(violations)} violation(s), {len(known_hits)} known finding(s); "
          f"{time.time() - rep.t0:.1f}s")
    return 1 if violations else 0
