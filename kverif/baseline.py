"""E7 -- schema baseline: the static schema model of the pinned commit, normalised (no text,
positions, docstrings), frozen under /verif/reference, and a differ that reports at the grain
of the C04 statement."""
from __future__ import annotations

import gzip
import json
from pathlib import Path

from .core import VERIF, AnalysisError

REF = VERIF / "reference" / "schema-3.9.0.json.gz"
PINS = VERIF / "spec" / "api_pins.json"


def norm_field(f):
    return {"name": f["name"], "type": f["type"], "metadata": f["metadata"], "default": f["default"],
            "default_factory": f.get("default_factory"), "field_call_kw": f["field_kw"], "has_field_call": f["field_call"]}


def norm_class(c):
    return {"name": c["name"], "decorators": c["decorators"], "bases": c["bases"], "keywords": c["keywords"],
            "classvars": {k: {"annotation": v["ann"], "value": v["value"]} for k, v in c["classvars"].items()},
            "fields": [norm_field(f) for f in c["fields"]],
            "other_statements": [o["src"] for o in c["other"]]}


def normalise(ssm: dict) -> dict:
    return {
        "modules": {name: {"classes": [norm_class(c) for c in m["classes"]], "other_statements": [o["src"] for o in m["other"]],
                           "imports": {k: list(v) for k, v in sorted(m["imports"].items())}}
                    for name, m in sorted(ssm["modules"].items())},
        "inits": {name: {"imports": i["imports"], "all": i["all"], "other": i["other"]} for name, i in sorted(ssm["inits"].items())},
        "api_packages": ssm["api_packages"],
        "stray": ssm["stray"],
        "index": {k: v for k, v in ssm["index"].items() if not k.endswith("_line")},
        "errors": ssm["errors"],
        "types": ssm["types"],
    }


def write_reference(ssm: dict, build_tag: str):
    REF.parent.mkdir(exist_ok=True)
    data = {"build_tag": build_tag, "schema": normalise(ssm)}
    with gzip.GzipFile(REF, "wb", mtime=0) as fh:
        fh.write(json.dumps(data, sort_keys=True).encode())


def load_reference() -> dict:
    if not REF.exists():
        raise AnalysisError(f"reference {REF} is missing")
    with gzip.open(REF, "rb") as fh:
        return json.loads(fh.read().decode())


def diff(a, b, path=""):
    """Yield (path, reference, current) for every difference between reference a and current b."""
    if isinstance(a, dict) and isinstance(b, dict):
        for k in sorted(set(a) | set(b)):
            p = f"{path}/{k}"
            if k not in a:
                yield (p, "<absent>", b[k])
            elif k not in b:
                yield (p, a[k], "<absent>")
            else:
                yield from diff(a[k], b[k], p)
    elif isinstance(a, list) and isinstance(b, list):
        named = all(isinstance(x, dict) and "name" in x for x in a + b) and (a or b)
        if named:
            an, bn = [x["name"] for x in a], [x["name"] for x in b]
            if an != bn:
                yield (f"{path}/<order>", an, bn)
            bd = {x["name"]: x for x in b}
            for x in a:
                if x["name"] in bd:
                    yield from diff(x, bd[x["name"]], f"{path}/{x['name']}")
        else:
            if len(a) != len(b):
                yield (path, a if len(json.dumps(a)) < 300 else f"<{len(a)} items>", b if len(json.dumps(b)) < 300 else f"<{len(b)} items>")
            else:
                for i, (x, y) in enumerate(zip(a, b)):
                    yield from diff(x, y, f"{path}[{i}]")
    elif a != b:
        yield (path, a, b)


def compute_pins(schema) -> dict:
    fam = {}
    for mname, m in schema.modules.items():
        tops = schema.top_level(m)
        if len(tops) != 1:
            continue
        fam.setdefault(m["api"], {}).setdefault(m["type"], []).append((m["version"], schema.cv_const(tops[0], "__flexible__"),
                                                                       schema.cv_const(tops[0], "__api_key__")))
    out = {}
    for api, d in sorted(fam.items()):
        out[api] = {}
        for typ, vs in sorted(d.items()):
            vs.sort()
            flex = [v for v, f, _ in vs if f]
            keys = sorted({k for _, _, k in vs}, key=str)
            out[api][typ] = {"min": vs[0][0], "max": vs[-1][0], "first_flexible": flex[0] if flex else None,
                             "api_key": keys[0] if len(keys) == 1 else keys}
    return out
