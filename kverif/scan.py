"""AST-level scans over the hand-written packages: exception handlers (E5), module-level
state, global/nonlocal, attribute stores on shared objects (E4), dynamic features (E0)."""
from __future__ import annotations

import ast

from .core import AnalysisError
from .interp_base import Raised, Run, Limit
from .source import qualname_index
from .values import ClassV, LibClass

MUTABLE_CALLS = {"dict", "list", "set", "bytearray", "defaultdict", "deque", "OrderedDict", "Counter", "BytesIO",
                 "io.BytesIO", "collections.defaultdict", "array"}
IMMUTABLE_WRAPPERS = {"MappingProxyType", "types.MappingProxyType", "frozenset", "tuple"}
DYNAMIC = {"exec", "eval", "setattr", "globals", "__import__", "delattr", "vars", "locals"}


def enclosing(qidx, tree, node):
    best = ("<module>", None)
    for n, q in qidx.items():
        if isinstance(n, (ast.FunctionDef, ast.AsyncFunctionDef)) and n.lineno <= node.lineno <= (n.end_lineno or n.lineno):
            if best[1] is None or n.lineno >= best[1].lineno:
                best = (q, n)
    return best


def handlers(ctx, modnames):
    """Every except clause in the given modules with its resolved exception types."""
    I = ctx.interp
    out = []
    for mn in modnames:
        src = ctx.sm.get(mn)
        if src is None:
            continue
        try:
            mod = I.module(mn)
        except (Raised, Limit) as e:
            raise AnalysisError(f"cannot load {mn}: {e}")
        qidx = qualname_index(src.tree)
        for node in ast.walk(src.tree):
            if isinstance(node, ast.With):
                # `with suppress(E, ...):` is `try: ... except (E, ...): pass`
                for item in node.items:
                    ce = item.context_expr
                    if isinstance(ce, ast.Call) and ast.unparse(ce.func).split(".")[-1] == "suppress":
                        q, fn = enclosing(qidx, src.tree, node)
                        types = []
                        for a_ in ce.args:
                            try:
                                v = I.ev(a_, mod.env, Run())
                            except (Raised, Limit):
                                v = None
                            if v is not None:
                                types.append(v)
                        out.append({"module": mn, "function": q, "line": node.lineno, "file": src.rel, "types": types,
                                    "type_src": ", ".join(ast.unparse(a_) for a_ in ce.args), "reraises_same": False, "raises": False,
                                    "try_has_call": any(isinstance(s_, ast.Call) for st in node.body for s_ in ast.walk(st)),
                                    "stmt": f"with {ast.unparse(ce)}: ..."})
                continue
            if not isinstance(node, ast.Try):
                continue
            for h in node.handlers:
                q, fn = enclosing(qidx, src.tree, h)
                types = []
                if h.type is None:
                    types = [LibClass.get("BaseException")]
                else:
                    try:
                        v = I.ev(h.type, mod.env, Run())
                    except (Raised, Limit):
                        v = None
                    if isinstance(v, tuple):
                        types = list(v)
                    elif v is not None:
                        types = [v]
                body = h.body
                last = body[-1] if body else None
                reraises_same = isinstance(last, ast.Raise) and (last.exc is None or (isinstance(last.exc, ast.Name) and last.exc.id == h.name))
                raises_any = any(isinstance(s, ast.Raise) for s in ast.walk(ast.Module(body=body, type_ignores=[])))
                has_call = any(isinstance(s, ast.Call) for st in node.body for s in ast.walk(st))
                out.append({"module": mn, "function": q, "line": h.lineno, "file": src.rel, "types": types,
                            "type_src": ast.unparse(h.type) if h.type is not None else "<bare>", "reraises_same": reraises_same,
                            "raises": raises_any, "try_has_call": has_call,
                            "stmt": f"except {ast.unparse(h.type) if h.type is not None else ''}: " + "; ".join(ast.unparse(s)[:50] for s in body)[:120]})
    return out


def catches(I, handler, exc_cls) -> bool:
    return any(isinstance(t, (ClassV, LibClass)) and I.is_subclass(exc_cls, t) for t in handler["types"])


def module_state(ctx, modnames):
    """Module-level mutable bindings, global/nonlocal statements, dynamic features, attribute
    stores on names that are not function-local."""
    out = []
    for mn in modnames:
        src = ctx.sm.get(mn)
        if src is None:
            continue
        qidx = qualname_index(src.tree)

        # classes of the module whose methods (other than __init__) mutate what self holds
        stateful_classes = {}
        for cnode in [n for n in src.tree.body if isinstance(n, ast.ClassDef)]:
            for meth in [n for n in cnode.body if isinstance(n, (ast.FunctionDef, ast.AsyncFunctionDef)) and n.name not in ("__init__", "__new__", "__post_init__")]:
                selfname = meth.args.args[0].arg if meth.args.args else None
                if not selfname:
                    continue
                for n in ast.walk(meth):
                    hit = None
                    if isinstance(n, ast.Call) and isinstance(n.func, ast.Attribute) and n.func.attr in MUTATORS and \
                            isinstance(n.func.value, ast.Attribute) and isinstance(n.func.value.value, ast.Name) and n.func.value.value.id == selfname:
                        hit = f"{cnode.name}.{meth.name} calls self.{n.func.value.attr}.{n.func.attr}()"
                    elif isinstance(n, (ast.Attribute, ast.Subscript)) and isinstance(n.ctx, (ast.Store, ast.Del)):
                        root = n.value
                        while isinstance(root, (ast.Attribute, ast.Subscript)):
                            root = root.value
                        if isinstance(root, ast.Name) and root.id == selfname:
                            hit = f"{cnode.name}.{meth.name} stores to {ast.unparse(n)[:40]}"
                    if hit:
                        stateful_classes.setdefault(cnode.name, hit)
                        break

        def walk_top(stmts, guard=""):
            for st in stmts:
                if isinstance(st, (ast.Assign, ast.AnnAssign)) and getattr(st, "value", None) is not None:
                    v = st.value
                    tg = st.targets[0] if isinstance(st, ast.Assign) else st.target
                    name = ast.unparse(tg)
                    kind = None
                    if isinstance(v, (ast.Dict, ast.List, ast.Set, ast.DictComp, ast.ListComp, ast.SetComp)):
                        kind = type(v).__name__
                    elif isinstance(v, ast.Call):
                        fn = ast.unparse(v.func)
                        base = fn.split("[")[0]
                        if base in MUTABLE_CALLS or base.split(".")[-1] in MUTABLE_CALLS:
                            kind = f"{fn}()"
                    if kind is None and isinstance(v, ast.Call) and isinstance(v.func, ast.Name) and v.func.id in stateful_classes:
                        # an instance of a class of this module whose methods change what it holds: state behind an object
                        out.append({"kind": "module-mutable", "module": mn, "function": "<module>", "line": st.lineno, "file": src.rel,
                                    "stmt": ast.unparse(st)[:120], "name": name,
                                    "what": f"{v.func.id}() instance; {stateful_classes[v.func.id]}", "object": True})
                        continue
                    if kind and not name.startswith("__"):
                        out.append({"kind": "module-mutable", "module": mn, "function": "<module>", "line": st.lineno, "file": src.rel,
                                    "stmt": ast.unparse(st)[:120], "name": name, "what": kind})
                elif isinstance(st, ast.If):
                    walk_top(st.body)
                    walk_top(st.orelse)
                elif isinstance(st, ast.Try):
                    walk_top(st.body)
        walk_top(src.tree.body)
        # a module-level container is *state* only if something mutates it; a lookup table that is only read is a constant
        mutated = set()
        for node in ast.walk(src.tree):
            if isinstance(node, ast.Call) and isinstance(node.func, ast.Attribute) and node.func.attr in MUTATORS:
                mutated.add(ast.unparse(node.func.value))
            elif isinstance(node, (ast.Assign, ast.AugAssign, ast.Delete, ast.AnnAssign)):
                tg = node.targets if isinstance(node, (ast.Assign, ast.Delete)) else [node.target]
                for t in tg:
                    if isinstance(t, ast.Subscript):
                        mutated.add(ast.unparse(t.value))
                    elif isinstance(node, ast.AugAssign) and isinstance(t, ast.Name):
                        mutated.add(t.id)
        for other in ctx.sm.by_prefix("kio"):
            if other.name == mn or other.name.startswith("kio.schema."):
                continue
            short = mn.rsplit(".", 1)[-1]
            if short not in other.text:
                continue
            for node in ast.walk(other.tree):
                if isinstance(node, ast.Call) and isinstance(node.func, ast.Attribute) and node.func.attr in MUTATORS and \
                        isinstance(node.func.value, ast.Attribute):
                    mutated.add(node.func.value.attr)
                elif isinstance(node, ast.Subscript) and isinstance(node.ctx, (ast.Store, ast.Del)) and isinstance(node.value, ast.Attribute):
                    mutated.add(node.value.attr)
        for row in out:
            if row["kind"] == "module-mutable" and row["module"] == mn and row["name"] not in mutated and not row.get("object") and \
                    not any(w in row["what"] for w in ("BytesIO", "bytearray", "StringIO", "deque", "array")):
                row["kind"] = "module-container-readonly"
        for node in ast.walk(src.tree):
            if isinstance(node, (ast.Global, ast.Nonlocal)):
                q, _ = enclosing(qidx, src.tree, node)
                out.append({"kind": "global" if isinstance(node, ast.Global) else "nonlocal", "module": mn, "function": q,
                            "line": node.lineno, "file": src.rel, "stmt": ast.unparse(node), "name": ",".join(node.names), "what": ""})
            elif isinstance(node, ast.Call) and isinstance(node.func, ast.Name) and node.func.id in DYNAMIC:
                q, _ = enclosing(qidx, src.tree, node)
                out.append({"kind": "dynamic", "module": mn, "function": q, "line": node.lineno, "file": src.rel,
                            "stmt": ast.unparse(node)[:100], "name": node.func.id, "what": ""})
        # attribute / subscript stores inside functions on names that are not local to the function
        for fn, q in qidx.items():
            if not isinstance(fn, (ast.FunctionDef, ast.AsyncFunctionDef)):
                continue
            params = {a.arg for a in fn.args.args + fn.args.kwonlyargs + fn.args.posonlyargs}
            if fn.args.vararg:
                params.add(fn.args.vararg.arg)
            if fn.args.kwarg:
                params.add(fn.args.kwarg.arg)
            local = set(params)
            own = [n for n in ast.walk(fn) if n is not fn]
            nested = [n for n in own if isinstance(n, (ast.FunctionDef, ast.Lambda, ast.ClassDef))]
            nested_nodes = {id(x) for nf in nested for x in ast.walk(nf) if x is not nf}
            for n in own:
                if id(n) in nested_nodes:
                    continue
                if isinstance(n, ast.Name) and isinstance(n.ctx, ast.Store):
                    local.add(n.id)
                elif isinstance(n, (ast.FunctionDef, ast.ClassDef)):
                    local.add(n.name)
                elif isinstance(n, ast.arg):
                    local.add(n.arg)
            for n in own:
                if id(n) in nested_nodes:
                    continue
                tgt = None
                if isinstance(n, (ast.Attribute, ast.Subscript)) and isinstance(n.ctx, (ast.Store, ast.Del)):
                    root = n.value
                    while isinstance(root, (ast.Attribute, ast.Subscript)):
                        root = root.value
                    if isinstance(root, ast.Name) and root.id not in local:
                        tgt = root.id
                if tgt:
                    out.append({"kind": "nonlocal-store", "module": mn, "function": q, "line": n.lineno, "file": src.rel,
                                "stmt": ast.unparse(n)[:100], "name": tgt, "what": "store through a name that is not local"})
    return out


SUBSTITUTABLE_ANN = ("type[", "bool", "Literal[", "int", "str", "bytes", "EntityType", "i8", "i16", "i32", "i64")


def memoised_functions(ctx, modnames):
    """functools.cache / lru_cache decorated functions and whether every parameter's equality implies
    substitutability.  Memoisation is keyed by == and hash: datetime (fold), float/int/bool (1 == 1.0 == True)
    and `object` parameters collapse values that behave differently."""
    out = []
    for mn in modnames:
        src = ctx.sm.get(mn)
        if src is None:
            continue
        qidx = qualname_index(src.tree)
        for fn, q in qidx.items():
            if not isinstance(fn, ast.FunctionDef):
                continue
            decos = [ast.unparse(d) for d in fn.decorator_list]
            if not any(d.split("(")[0].split(".")[-1] in ("cache", "lru_cache", "cached_property") for d in decos):
                continue
            bad = []
            for a in fn.args.args + fn.args.kwonlyargs:
                ann = ast.unparse(a.annotation) if a.annotation is not None else ""
                if a.arg in ("self", "cls") and not ann:
                    ann = "type["
                ok = ann.startswith(("type[", "Literal[")) or ann in ("bool", "str", "bytes", "EntityType")
                if not ok:
                    bad.append(f"{a.arg}: {ann or '<unannotated>'}")
            out.append({"module": mn, "function": q, "line": fn.lineno, "file": src.rel, "decorators": decos, "bad_params": bad,
                        "stmt": f"@{decos[0]} def {fn.name}({', '.join(a.arg for a in fn.args.args)})"})
        # call form: name = lru_cache(maxsize=...)(func) / cache(func)
        defs = {fn.name: (fn, q) for fn, q in qidx.items() if isinstance(fn, ast.FunctionDef)}
        for node in ast.walk(src.tree):
            if not (isinstance(node, ast.Call) and len(node.args) == 1 and isinstance(node.args[0], ast.Name) and node.args[0].id in defs):
                continue
            callee = node.func.func if isinstance(node.func, ast.Call) else node.func
            if ast.unparse(callee).split(".")[-1] not in ("cache", "lru_cache"):
                continue
            fn, q = defs[node.args[0].id]
            if fn.args.vararg is not None and not fn.args.args:
                continue  # a generic pass-through wrapper (def guarded(*args, **kwargs)): keyed by whatever its users pass
            bad = []
            for a in fn.args.args + fn.args.kwonlyargs:
                ann = ast.unparse(a.annotation) if a.annotation is not None else ""
                if a.arg in ("self", "cls") and not ann:
                    ann = "type["
                if not (ann.startswith(("type[", "Literal[")) or ann in ("bool", "str", "bytes", "EntityType")):
                    bad.append(f"{a.arg}: {ann or '<unannotated>'}")
            out.append({"module": mn, "function": q, "line": node.lineno, "file": src.rel, "decorators": [ast.unparse(node.func)], "bad_params": bad,
                        "stmt": ast.unparse(node)[:100]})
    return out


READ_METHODS = {"read", "readinto", "read1", "readline", "readlines", "peek", "recv", "recv_into", "readexactly", "readuntil"}


def raw_read_sites(ctx, modnames):
    """Every `<x>.read(...)`-like call in the given modules: (site 'module:qualname:line', stmt, file, line)."""
    out = []
    for mn in modnames:
        src = ctx.sm.get(mn)
        if src is None:
            continue
        qidx = qualname_index(src.tree)
        for node in ast.walk(src.tree):
            if isinstance(node, ast.Call) and isinstance(node.func, ast.Attribute) and node.func.attr in READ_METHODS:
                q, fn = enclosing(qidx, src.tree, node)
                out.append({"site": f"{mn}:{q}:{node.lineno}", "function": f"{mn}:{q}", "stmt": ast.unparse(node)[:120], "file": src.rel,
                            "line": node.lineno, "method": node.func.attr, "referenced": _referenced(ctx, q.split(".")[0])})
    return out


_REF_CACHE: dict = {}


def _referenced(ctx, top_name: str) -> bool:
    """Is the top-level function `top_name` mentioned anywhere in kio besides its own definition (dead code is not on any decode path)."""
    if not _REF_CACHE:
        names: dict = {}
        for m in ctx.sm.by_prefix("kio"):
            if m.name.startswith("kio.schema."):
                continue
            for n in ast.walk(m.tree):
                if isinstance(n, ast.Name):
                    names[n.id] = names.get(n.id, 0) + 1
                elif isinstance(n, ast.Attribute):
                    names[n.attr] = names.get(n.attr, 0) + 1
                elif isinstance(n, ast.alias):
                    names[n.name] = names.get(n.name, 0) + 1
                elif isinstance(n, ast.Constant) and isinstance(n.value, str) and n.value.isidentifier():
                    names[n.value] = names.get(n.value, 0) + 1  # __all__ entries
        _REF_CACHE.update(names)
    return _REF_CACHE.get(top_name, 0) > 0


def unbounded_read_loops(ctx, modnames):
    """`while` loops that read from a stream without an end-of-stream exit: the chunk obtained by the
    read is never tested for emptiness/shortness on a branch that leaves the loop."""
    out = []
    for mn in modnames:
        src = ctx.sm.get(mn)
        if src is None:
            continue
        qidx = qualname_index(src.tree)
        for loop in ast.walk(src.tree):
            if not isinstance(loop, ast.While):
                continue
            chunks = set()
            for n in ast.walk(loop):
                if isinstance(n, (ast.Assign, ast.AnnAssign, ast.NamedExpr)) and isinstance(getattr(n, "value", None), ast.Call):
                    inner = [c for c in ast.walk(n.value) if isinstance(c, ast.Call) and isinstance(c.func, ast.Attribute) and c.func.attr in READ_METHODS]
                    if inner:
                        tgts = n.targets if isinstance(n, ast.Assign) else [n.target]
                        for t in tgts:
                            for nm in ast.walk(t):
                                if isinstance(nm, ast.Name):
                                    chunks.add(nm.id)
            reads = [c for c in ast.walk(loop) if isinstance(c, ast.Call) and isinstance(c.func, ast.Attribute) and c.func.attr in READ_METHODS]
            if not reads:
                continue
            exits = bool({x.id for x in ast.walk(loop.test) if isinstance(x, ast.Name)} & chunks) and any(
                isinstance(x, ast.NamedExpr) for x in ast.walk(loop.test))  # `while chunk := read(n):` stops on b""
            for n in ast.walk(loop):
                if isinstance(n, ast.If):
                    names = {x.id for x in ast.walk(n.test) if isinstance(x, ast.Name)}
                    leaves = any(isinstance(x, (ast.Raise, ast.Break, ast.Return)) for st in n.body + n.orelse for x in ast.walk(st))
                    if names & chunks and leaves:
                        exits = True
            if not exits:
                q, fn = enclosing(qidx, src.tree, loop)
                out.append({"function": f"{mn}:{q}", "stmt": "while " + ast.unparse(loop.test)[:80] + ": ... " + ast.unparse(reads[0])[:60],
                            "file": src.rel, "line": loop.lineno})
    return out


def silent_eof_exits(ctx, modnames):
    """Chunk-reading loops whose end-of-stream branch (`if not chunk:` / `if len(chunk) == 0:` / `if chunk == b""`) leaves the loop
    without raising, in a function that never compares the length it collected with the size it was asked for: at end of stream the
    function returns what it has -- a short value, and no underflow error.  (A `break` followed by `if len(value) != n: raise` is fine.)"""
    out = []
    for mn in modnames:
        src = ctx.sm.get(mn)
        if src is None:
            continue
        qidx = qualname_index(src.tree)
        for fn in [n for n in ast.walk(src.tree) if isinstance(n, (ast.FunctionDef, ast.AsyncFunctionDef))]:
            params = {a.arg for a in fn.args.args + fn.args.kwonlyargs + fn.args.posonlyargs}
            # an (in)equality between some len(...) / accumulated count and a parameter (or `remaining`-style local tested for != 0) after the fact
            def is_len(e):
                return isinstance(e, ast.Call) and isinstance(e.func, ast.Name) and e.func.id == "len"
            post_checks = []
            for c in ast.walk(fn):
                if isinstance(c, ast.Compare) and len(c.ops) == 1 and isinstance(c.ops[0], (ast.Eq, ast.NotEq, ast.Lt, ast.Gt)):
                    sides = [c.left, c.comparators[0]]
                    if any(is_len(x) for x in sides) and any(isinstance(x, ast.Name) and x.id in params for x in sides):
                        post_checks.append(c)
            for loop in [n for n in ast.walk(fn) if isinstance(n, (ast.While, ast.For))]:
                chunks = set()
                for n in ast.walk(loop):
                    if isinstance(n, (ast.Assign, ast.NamedExpr)) and isinstance(n.value, ast.Call) and isinstance(n.value.func, ast.Attribute) \
                            and n.value.func.attr in READ_METHODS:
                        for t in (n.targets if isinstance(n, ast.Assign) else [n.target]):
                            if isinstance(t, ast.Name):
                                chunks.add(t.id)
                if not chunks:
                    continue
                for iff in [n for n in ast.walk(loop) if isinstance(n, ast.If)]:
                    t = iff.test
                    empty = (isinstance(t, ast.UnaryOp) and isinstance(t.op, ast.Not) and isinstance(t.operand, ast.Name) and t.operand.id in chunks) or \
                            (isinstance(t, ast.Compare) and len(t.ops) == 1 and isinstance(t.ops[0], ast.Eq) and
                             ((is_len(t.left) and isinstance(t.left.args[0], ast.Name) and t.left.args[0].id in chunks and
                               isinstance(t.comparators[0], ast.Constant) and t.comparators[0].value == 0) or
                              (isinstance(t.left, ast.Name) and t.left.id in chunks and isinstance(t.comparators[0], ast.Constant) and t.comparators[0].value == b"")))
                    if not empty:
                        continue
                    raises = any(isinstance(x, ast.Raise) for st in iff.body for x in ast.walk(st))
                    leaves = any(isinstance(x, (ast.Break, ast.Return)) for st in iff.body for x in ast.walk(st))
                    later = [c for c in post_checks if c.lineno > loop.end_lineno]
                    # the function must hand the collected BYTES back (a function that folds the chunks into something else -- a running
                    # checksum -- returns no short value: there the mismatch of the result is what reports the truncation)
                    acc = set()
                    for n in ast.walk(loop):
                        if isinstance(n, ast.Call) and isinstance(n.func, ast.Attribute) and n.func.attr in ("append", "extend", "write") and \
                                isinstance(n.func.value, ast.Name) and any(isinstance(x, ast.Name) and x.id in chunks for a_ in n.args for x in ast.walk(a_)):
                            acc.add(n.func.value.id)
                        if isinstance(n, ast.AugAssign) and isinstance(n.op, ast.Add) and isinstance(n.target, ast.Name) and \
                                any(isinstance(x, ast.Name) and x.id in chunks for x in ast.walk(n.value)):
                            acc.add(n.target.id)
                    hands_back = any(isinstance(r_, ast.Return) and r_.value is not None and
                                     ({x.id for x in ast.walk(r_.value) if isinstance(x, ast.Name)} & (acc | chunks)) for r_ in ast.walk(fn))
                    if leaves and not raises and not later and hands_back:
                        q, _f = enclosing(qidx, src.tree, iff)
                        out.append({"function": f"{mn}:{q}", "stmt": "if " + ast.unparse(iff.test)[:60] + ": " + "; ".join(ast.unparse(x)[:30] for x in iff.body)[:60],
                                    "file": src.rel, "line": iff.lineno})
    return out


def mutable_buffer_returns(ctx, modnames):
    """Functions of the decode path that hand out a bytearray / memoryview: the buffer is allocated locally (or obtained
    from a function that hands one out) and returned without conversion.  Interprocedural by name within the modules
    (fixpoint); reported for public functions and closures (what readers are made of), not for private helpers whose
    callers convert the result."""
    MUT = {"bytearray", "memoryview"}
    funcs = {}
    for mn in modnames:
        src = ctx.sm.get(mn)
        if src is None:
            continue
        for fn, q in qualname_index(src.tree).items():
            if isinstance(fn, ast.FunctionDef):
                funcs[(mn, q)] = (fn, src)
    by_name = {}
    for (mn, q), (fn, src) in funcs.items():
        by_name.setdefault(fn.name, []).append((mn, q))
    returns_mut: dict = {}

    def own_nodes(fn):
        stack = list(fn.body)
        while stack:
            n = stack.pop()
            yield n
            for ch in ast.iter_child_nodes(n):
                if not isinstance(ch, (ast.FunctionDef, ast.AsyncFunctionDef, ast.Lambda, ast.ClassDef)):
                    stack.append(ch)

    def is_mut_expr(v, tainted):
        if isinstance(v, ast.Name):
            return v.id in tainted
        if isinstance(v, ast.IfExp):
            return is_mut_expr(v.body, tainted) or is_mut_expr(v.orelse, tainted)
        if isinstance(v, ast.Call):
            if isinstance(v.func, ast.Name) and v.func.id in MUT:
                return True
            if isinstance(v.func, ast.Attribute) and v.func.attr == "getbuffer":
                return True
            if isinstance(v.func, ast.Name) and any(k in returns_mut for k in by_name.get(v.func.id, [])):
                return True
        return False

    changed = True
    while changed:
        changed = False
        for key, (fn, src) in funcs.items():
            if key in returns_mut:
                continue
            tainted = set()
            for _ in range(3):
                for n in own_nodes(fn):
                    if isinstance(n, (ast.Assign, ast.AnnAssign)) and getattr(n, "value", None) is not None and is_mut_expr(n.value, tainted):
                        for t in (n.targets if isinstance(n, ast.Assign) else [n.target]):
                            if isinstance(t, ast.Name):
                                tainted.add(t.id)
            for n in own_nodes(fn):
                if isinstance(n, ast.Return) and n.value is not None and is_mut_expr(n.value, tainted):
                    returns_mut[key] = n
                    changed = True
                    break
    out = []
    for (mn, q), n in returns_mut.items():
        fn, src = funcs[(mn, q)]
        if fn.name.startswith("_") and "." not in q:
            continue
        out.append({"function": f"{mn}:{q}", "stmt": ast.unparse(n)[:100], "file": src.rel, "line": n.lineno,
                    "name": ast.unparse(n.value)[:40]})
    return out


MUTATORS = {"add", "discard", "remove", "pop", "popitem", "clear", "update", "setdefault", "append", "extend", "insert", "sort", "reverse",
            "write", "seek", "truncate", "appendleft", "popleft", "__setitem__", "__delitem__", "intersection_update", "difference_update",
            "symmetric_difference_update", "writelines"}
MUTABLE_CTORS = {"set", "dict", "list", "bytearray", "defaultdict", "deque", "OrderedDict", "Counter", "BytesIO", "StringIO", "array"}


def captured_mutations(ctx, modnames):
    """Nested functions that mutate a container created in their enclosing function: the container lives as long as the
    closure (for a cached factory or a decorator: for the life of the process) and is shared by every call and thread."""
    out = []
    for mn in modnames:
        src = ctx.sm.get(mn)
        if src is None:
            continue
        qidx = qualname_index(src.tree)

        def own(fn):
            stack = list(fn.body)
            while stack:
                n = stack.pop()
                yield n
                for ch in ast.iter_child_nodes(n):
                    if not isinstance(ch, (ast.FunctionDef, ast.AsyncFunctionDef, ast.Lambda, ast.ClassDef)):
                        stack.append(ch)
        for outer, q in qidx.items():
            if not isinstance(outer, ast.FunctionDef):
                continue
            created = {}
            for n in own(outer):
                if isinstance(n, (ast.Assign, ast.AnnAssign)) and getattr(n, "value", None) is not None:
                    v = n.value
                    mut = isinstance(v, (ast.Dict, ast.List, ast.Set, ast.DictComp, ast.ListComp, ast.SetComp)) or (
                        isinstance(v, ast.Call) and ast.unparse(v.func).split(".")[-1] in MUTABLE_CTORS)
                    if mut:
                        for t in (n.targets if isinstance(n, ast.Assign) else [n.target]):
                            if isinstance(t, ast.Name):
                                created[t.id] = n.lineno
            if not created:
                continue
            for inner in own(outer):
                pass
            for inner in [n for n in ast.walk(outer) if isinstance(n, ast.FunctionDef) and n is not outer]:
                # names rebound locally in the inner function are its own
                local = {a.arg for a in inner.args.args + inner.args.kwonlyargs + inner.args.posonlyargs}
                if inner.args.vararg:
                    local.add(inner.args.vararg.arg)
                if inner.args.kwarg:
                    local.add(inner.args.kwarg.arg)
                nonlocal_names = set()
                for n in own(inner):
                    if isinstance(n, ast.Nonlocal):
                        nonlocal_names |= set(n.names)
                for n in own(inner):
                    if isinstance(n, (ast.Assign, ast.AnnAssign, ast.AugAssign, ast.For, ast.With, ast.NamedExpr)):
                        tg = n.targets if isinstance(n, ast.Assign) else [getattr(n, "target", None)] if not isinstance(n, ast.With) else \
                            [i.optional_vars for i in n.items]
                        for t in tg:
                            if isinstance(t, ast.Name) and t.id not in nonlocal_names and not isinstance(n, ast.AugAssign):
                                local.add(t.id)
                for n in own(inner):
                    name, how = None, None
                    if isinstance(n, ast.Call) and isinstance(n.func, ast.Attribute) and isinstance(n.func.value, ast.Name) and \
                            n.func.attr in MUTATORS:
                        name, how = n.func.value.id, f".{n.func.attr}()"
                    elif isinstance(n, (ast.Assign, ast.AugAssign, ast.Delete)):
                        tg = n.targets if isinstance(n, (ast.Assign, ast.Delete)) else [n.target]
                        for t in tg:
                            if isinstance(t, ast.Subscript) and isinstance(t.value, ast.Name):
                                name, how = t.value.id, "[...] assignment"
                            elif isinstance(n, ast.AugAssign) and isinstance(t, ast.Name) and t.id in nonlocal_names:
                                name, how = t.id, "augmented assignment"
                    if name is not None and name in created and name not in local:
                        out.append({"function": f"{mn}:{qidx.get(inner, inner.name)}", "outer": f"{mn}:{q}", "name": name, "how": how,
                                    "stmt": ast.unparse(n)[:100], "file": src.rel, "line": n.lineno, "created_line": created[name]})
    return out


SLOT_TABLES = {"UUID": {"int", "is_safe"}, "uuid.UUID": {"int", "is_safe"}}


def bypassed_constructors(ctx, modnames):
    """`X.__new__(X)` / `object.__new__(X)`: an instance created without running __init__.  Every slot of X must be stored
    (object.__setattr__ / plain assignment) in the same function before the instance is used elsewhere.
    Returns rows {function, cls, missing | None (unknown class), stmt, file, line}."""
    out = []
    for mn in modnames:
        src = ctx.sm.get(mn)
        if src is None:
            continue
        qidx = qualname_index(src.tree)
        for fn, q in qidx.items():
            if not isinstance(fn, ast.FunctionDef):
                continue
            for n in ast.walk(fn):
                if not (isinstance(n, (ast.Assign, ast.AnnAssign)) and isinstance(getattr(n, "value", None), ast.Call)):
                    continue
                c = n.value
                if not (isinstance(c.func, ast.Attribute) and c.func.attr == "__new__" and c.args):
                    continue
                cls = ast.unparse(c.args[0])
                tg = n.targets[0] if isinstance(n, ast.Assign) else n.target
                if not isinstance(tg, ast.Name):
                    continue
                var = tg.id
                stored = set()
                for m in ast.walk(fn):
                    if isinstance(m, ast.Call) and ast.unparse(m.func) in ("object.__setattr__", "setattr") and len(m.args) == 3 and \
                            isinstance(m.args[0], ast.Name) and m.args[0].id == var and isinstance(m.args[1], ast.Constant):
                        stored.add(m.args[1].value)
                    elif isinstance(m, (ast.Assign, ast.AnnAssign)):
                        for t in (m.targets if isinstance(m, ast.Assign) else [m.target]):
                            if isinstance(t, ast.Attribute) and isinstance(t.value, ast.Name) and t.value.id == var:
                                stored.add(t.attr)
                slots = SLOT_TABLES.get(cls)
                out.append({"function": f"{mn}:{q}", "cls": cls, "missing": None if slots is None else sorted(slots - stored),
                            "stored": sorted(stored), "stmt": ast.unparse(n)[:100], "file": src.rel, "line": n.lineno})
    return out


def zero_size_eof_tests(ctx, modnames):
    """`x = s.read(size)` whose result is tested for emptiness (`if not x`, `x == b""`, `len(x) == 0`) on a branch that raises,
    where nothing shows size > 0: read(0) returns b"" on a perfectly good stream, so complete input is reported as truncated."""
    out = []

    def positive(expr, guards):
        if isinstance(expr, ast.Constant) and isinstance(expr.value, int):
            return expr.value > 0
        if isinstance(expr, ast.Name):
            return expr.id in guards["pos_names"]
        if isinstance(expr, ast.Call) and isinstance(expr.func, ast.Name) and expr.func.id == "min" and expr.args:
            return all(positive(a, guards) for a in expr.args)
        if isinstance(expr, ast.BinOp) and isinstance(expr.op, ast.Sub):
            return (ast.unparse(expr.right), ast.unparse(expr.left)) in guards["less"]
        return False

    def guards_of(test, g):
        # facts that hold inside `while test:` / `if test:`
        if isinstance(test, ast.Name):
            g["pos_names"].add(test.id)  # truthy int: != 0; with a decreasing counter this is the idiom `while remaining:`
        elif isinstance(test, ast.Compare) and len(test.ops) == 1:
            l, op, r = test.left, test.ops[0], test.comparators[0]
            if isinstance(op, ast.Gt) and isinstance(l, ast.Name) and isinstance(r, ast.Constant) and r.value == 0:
                g["pos_names"].add(l.id)
            elif isinstance(op, ast.Lt) and isinstance(r, ast.Name) and isinstance(l, ast.Constant) and l.value == 0:
                g["pos_names"].add(r.id)
            elif isinstance(op, ast.NotEq) and isinstance(l, ast.Name) and isinstance(r, ast.Constant) and r.value == 0:
                g["pos_names"].add(l.id)
            elif isinstance(op, ast.Lt):
                g["less"].add((ast.unparse(l), ast.unparse(r)))
            elif isinstance(op, ast.Gt):
                g["less"].add((ast.unparse(r), ast.unparse(l)))
        elif isinstance(test, ast.BoolOp) and isinstance(test.op, ast.And):
            for v in test.values:
                guards_of(v, g)

    def visit(stmts, g, fnq, src):
        for i, st in enumerate(stmts):
            if isinstance(st, (ast.While, ast.If)):
                g2 = {"pos_names": set(g["pos_names"]), "less": set(g["less"])}
                guards_of(st.test, g2)
                visit(st.body, g2, fnq, src)
                visit(st.orelse, g, fnq, src)
                continue
            if isinstance(st, (ast.For, ast.With, ast.Try)):
                for blk in ("body", "orelse", "finalbody"):
                    visit(getattr(st, blk, []) or [], g, fnq, src)
                for h in getattr(st, "handlers", []) or []:
                    visit(h.body, g, fnq, src)
                continue
            if isinstance(st, (ast.Assign, ast.AnnAssign)) and isinstance(getattr(st, "value", None), ast.Call):
                c = st.value
                tg = st.targets[0] if isinstance(st, ast.Assign) else st.target
                if isinstance(c.func, ast.Attribute) and c.func.attr in ("read", "recv", "read1") and len(c.args) == 1 and isinstance(tg, ast.Name):
                    # is the result tested for emptiness on a raising branch later in this block?
                    for later in stmts[i + 1:]:
                        if isinstance(later, ast.If) and any(isinstance(x, ast.Raise) for b in later.body for x in ast.walk(b)):
                            t = later.test
                            empt = (isinstance(t, ast.UnaryOp) and isinstance(t.op, ast.Not) and isinstance(t.operand, ast.Name) and t.operand.id == tg.id) or \
                                   (isinstance(t, ast.Compare) and len(t.ops) == 1 and isinstance(t.ops[0], ast.Eq) and
                                    ast.unparse(t.left) in (tg.id, f"len({tg.id})") and ast.unparse(t.comparators[0]) in ("b''", "0", 'b""'))
                            if empt and not positive(c.args[0], g):
                                out.append({"function": fnq, "stmt": f"{ast.unparse(st)[:80]}; if {ast.unparse(t)}: raise", "file": src.rel,
                                            "line": st.lineno, "size": ast.unparse(c.args[0])})
                            break

    for mn in modnames:
        src = ctx.sm.get(mn)
        if src is None:
            continue
        for fn, q in qualname_index(src.tree).items():
            if isinstance(fn, ast.FunctionDef):
                visit(fn.body, {"pos_names": set(), "less": set()}, f"{mn}:{q}", src)
    return out


def result_is_tested(ctx, site_row) -> bool:
    """Does the function containing the read test the value it read (len(x) compared, truthiness of x, x == b'')?"""
    mn, q = site_row["function"].split(":")
    src = ctx.sm.get(mn)
    for fn, qq in qualname_index(src.tree).items():
        if qq != q or not isinstance(fn, ast.FunctionDef):
            continue
        names = set()
        for n in ast.walk(fn):
            if isinstance(n, (ast.Assign, ast.AnnAssign)) and isinstance(getattr(n, "value", None), ast.Call) and \
                    any(isinstance(c, ast.Call) and isinstance(c.func, ast.Attribute) and c.func.attr in READ_METHODS and c.lineno == site_row["line"]
                        for c in ast.walk(n.value)):
                for t in (n.targets if isinstance(n, ast.Assign) else [n.target]):
                    if isinstance(t, ast.Name):
                        names.add(t.id)
        if not names:
            return False
        for n in ast.walk(fn):
            if isinstance(n, (ast.If, ast.While)):
                used = {x.id for x in ast.walk(n.test) if isinstance(x, ast.Name)}
                if used & names:
                    return True
    return False


def over_reads(ctx, modnames):
    """`x.read(max(a, b, ...))`: the request is the LARGER of what is still needed and something else, so the call may take
    bytes that belong to whatever follows the item (a chunked reader wants min())."""
    out = []
    for mn in modnames:
        src = ctx.sm.get(mn)
        if src is None:
            continue
        qidx = qualname_index(src.tree)
        for node in ast.walk(src.tree):
            if isinstance(node, ast.Call) and isinstance(node.func, ast.Attribute) and node.func.attr in ("read", "recv", "read1") and node.args:
                a = node.args[0]
                if isinstance(a, ast.Call) and isinstance(a.func, ast.Name) and a.func.id == "max" and len(a.args) >= 2:
                    q, fn = enclosing(qidx, src.tree, node)
                    out.append({"function": f"{mn}:{q}", "stmt": ast.unparse(node)[:100], "file": src.rel, "line": node.lineno,
                                "size": ast.unparse(a)})
    return out


def fixed_chunk_reads(ctx, modnames):
    """`x.read(K)` with K a literal or a module-level constant, inside a loop or comprehension of a function that afterwards cuts the
    collected bytes back (`[:n]`): the number of bytes taken is a multiple of K whatever is still missing, so the last chunk takes
    bytes that belong to what follows, and the cut hides it (a chunked reader asks for min(remaining, K)).  One-byte reads are exempt."""
    out = []
    for mn in modnames:
        src = ctx.sm.get(mn)
        if src is None:
            continue
        qidx = qualname_index(src.tree)
        consts = {}
        for st in src.tree.body:
            tgt = st.targets[0] if isinstance(st, ast.Assign) and len(st.targets) == 1 else st.target if isinstance(st, ast.AnnAssign) else None
            if isinstance(tgt, ast.Name) and getattr(st, "value", None) is not None:
                try:
                    v = eval(compile(ast.Expression(st.value), "<const>", "eval"), {"__builtins__": {}}, {})  # literals and arithmetic on them only
                except Exception:  # noqa: BLE001
                    continue
                if isinstance(v, int) and not isinstance(v, bool):
                    consts[tgt.id] = v

        def const_of(e):
            if isinstance(e, ast.Constant) and isinstance(e.value, int) and not isinstance(e.value, bool):
                return e.value
            if isinstance(e, ast.Name) and e.id in consts:
                return consts[e.id]
            return None

        def visit(node, in_loop):
            for ch in ast.iter_child_nodes(node):
                loop = in_loop or isinstance(ch, (ast.For, ast.While, ast.ListComp, ast.GeneratorExp, ast.SetComp, ast.DictComp))
                if isinstance(ch, (ast.FunctionDef, ast.Lambda)):
                    visit(ch, False)
                    continue
                if isinstance(ch, ast.Call) and ast.unparse(ch.func).split(".")[-1] == "partial" and len(ch.args) == 2 and \
                        isinstance(ch.args[0], ast.Attribute) and ch.args[0].attr in ("read", "recv", "read1"):
                    # iter(partial(stream.read, K), b""): K bytes per iteration
                    fake = ast.Call(func=ch.args[0], args=[ch.args[1]], keywords=[])
                    ast.copy_location(fake, ch)
                    ch, in_loop_here = fake, True
                else:
                    in_loop_here = in_loop
                if in_loop_here and isinstance(ch, ast.Call) and isinstance(ch.func, ast.Attribute) and ch.func.attr in ("read", "recv", "read1") and len(ch.args) == 1:
                    k = const_of(ch.args[0])
                    q, _fn = enclosing(qidx, src.tree, ch)
                    # whole chunks are an over-read when what was collected is cut back afterwards (`[:n]`): a loop that reads `count`
                    # items of K bytes each, and keeps them all, asks for exactly what it needs
                    trims = _fn is not None and any(isinstance(x, ast.Subscript) and isinstance(x.slice, ast.Slice) and x.slice.lower is None
                                                    and x.slice.upper is not None for x in ast.walk(_fn))
                    # ... or the loop runs "until enough": some ordering comparison involves a parameter of the function (the requested size)
                    params_ = {a_.arg for a_ in (_fn.args.args + _fn.args.kwonlyargs + _fn.args.posonlyargs)} if _fn is not None else set()
                    until = _fn is not None and any(isinstance(x, ast.Compare) and any(isinstance(o_, (ast.Lt, ast.LtE, ast.Gt, ast.GtE)) for o_ in x.ops)
                                                    and ({n_.id for n_ in ast.walk(x) if isinstance(n_, ast.Name)} & params_) for x in ast.walk(_fn))
                    trims = trims or until
                    if k is not None and k > 1 and trims:
                        out.append({"function": f"{mn}:{q}", "stmt": ast.unparse(ch)[:100], "file": src.rel, "line": ch.lineno, "size": k})
                visit(ch, loop)
        visit(src.tree, False)
    return out


def negative_size_reads(ctx, modnames):
    """Functions that pass a parameter as the size of a raw read without ever comparing the length they got with it for (in)equality and
    without rejecting a negative size: `read(-2)` returns the rest of the stream, and `len(got) < n` is false for every negative n, so a
    corrupt (negative) length prefix yields everything that follows instead of an error.  Rows: one per such function."""
    out = []
    for mn in modnames:
        src = ctx.sm.get(mn)
        if src is None:
            continue
        qidx = qualname_index(src.tree)
        for fn in [n for n in ast.walk(src.tree) if isinstance(n, (ast.FunctionDef, ast.AsyncFunctionDef))]:
            params = {a.arg for a in fn.args.args + fn.args.kwonlyargs + fn.args.posonlyargs}
            own = [n for n in ast.walk(fn)]
            sized = []
            for n in own:
                if isinstance(n, ast.Call) and isinstance(n.func, ast.Attribute) and n.func.attr in ("read", "recv", "read1") and len(n.args) == 1:
                    used = {x.id for x in ast.walk(n.args[0]) if isinstance(x, ast.Name)} & params
                    if used:
                        sized.append((n, used))
            if not sized:
                continue
            for p in sorted({p for _, us in sized for p in us}):
                def is_len(e):
                    return isinstance(e, ast.Call) and isinstance(e.func, ast.Name) and e.func.id == "len"
                eq = any(isinstance(c, ast.Compare) and len(c.ops) == 1 and isinstance(c.ops[0], (ast.Eq, ast.NotEq)) and
                         ((is_len(c.left) and isinstance(c.comparators[0], ast.Name) and c.comparators[0].id == p) or
                          (is_len(c.comparators[0]) and isinstance(c.left, ast.Name) and c.left.id == p)) for c in own)
                sign = any(isinstance(c, ast.Compare) and len(c.ops) == 1 and isinstance(c.ops[0], (ast.Lt, ast.LtE, ast.Gt, ast.GtE)) and
                           ((isinstance(c.left, ast.Name) and c.left.id == p and isinstance(c.comparators[0], ast.Constant) and c.comparators[0].value in (0, -1)) or
                            (isinstance(c.comparators[0], ast.Name) and c.comparators[0].id == p and isinstance(c.left, ast.Constant) and c.left.value in (0, -1)))
                           for c in own)
                if not eq and not sign:
                    n0 = next(n for n, us in sized if p in us)
                    q, _f = enclosing(qidx, src.tree, n0)
                    out.append({"function": f"{mn}:{q}", "stmt": ast.unparse(n0)[:100], "file": src.rel, "line": n0.lineno, "param": p})
    return out


def minus_zero_slices(ctx, modnames):
    """`x[-r:]` where r is a remainder (`a % b`, `divmod(a, b)[1]`) and the slice is not guarded by a test of r: for r == 0 the slice
    is `x[0:]`, the WHOLE sequence, not the empty tail."""
    out = []
    for mn in modnames:
        src = ctx.sm.get(mn)
        if src is None:
            continue
        qidx = qualname_index(src.tree)
        for fn in [n for n in ast.walk(src.tree) if isinstance(n, (ast.FunctionDef, ast.AsyncFunctionDef))]:
            rem = set()
            for st in ast.walk(fn):
                if isinstance(st, ast.Assign) and len(st.targets) == 1:
                    t, v = st.targets[0], st.value
                    if isinstance(t, ast.Name) and isinstance(v, ast.BinOp) and isinstance(v.op, ast.Mod):
                        rem.add(t.id)
                    if isinstance(t, ast.Tuple) and len(t.elts) == 2 and isinstance(v, ast.Call) and ast.unparse(v.func) == "divmod" \
                            and isinstance(t.elts[1], ast.Name):
                        rem.add(t.elts[1].id)
            if not rem:
                continue

            def visit(node, guarded):
                for ch in ast.iter_child_nodes(node):
                    g = set(guarded)
                    if isinstance(ch, ast.If):
                        names = {n.id for n in ast.walk(ch.test) if isinstance(n, ast.Name)} & rem
                        for sub in ch.body:
                            visit_stmt(sub, g | names)
                        for sub in ch.orelse:
                            visit_stmt(sub, g)
                        continue
                    visit_stmt(ch, g)

            def visit_stmt(ch, g):
                if isinstance(ch, ast.Subscript) and isinstance(ch.slice, ast.Slice) and ch.slice.upper is None and \
                        isinstance(ch.slice.lower, ast.UnaryOp) and isinstance(ch.slice.lower.op, ast.USub) and \
                        isinstance(ch.slice.lower.operand, ast.Name) and ch.slice.lower.operand.id in rem and ch.slice.lower.operand.id not in g:
                    q, _f = enclosing(qidx, src.tree, ch)
                    out.append({"function": f"{mn}:{q}", "stmt": ast.unparse(ch)[:100], "file": src.rel, "line": ch.lineno,
                                "name": ch.slice.lower.operand.id})
                visit(ch, g)
            visit(fn, set())
    return out


# ------------------------------------------------------------------ error discipline of the generator's driver
FS_CALLS = {"rmtree", "mkdir", "unlink", "rmdir", "makedirs", "remove", "touch"}
FS_ABSENCE = {"FileNotFoundError", "FileExistsError"}


def swallowed_errors(ctx, modnames):
    """Places in the given modules where an exception raised while the generator runs is dropped: an `except` handler that neither
    re-raises nor raises something else on every way through it, `contextlib.suppress(...)`, and `ignore_errors=True` / `onerror=` /
    `onexc=` on a filesystem call.  Accepted idiom (confirmed on the pinned tree, one instance): a handler for FileNotFoundError /
    FileExistsError only, around a try body that consists of filesystem creation / removal calls -- "already gone / already there".
    Rows: {ok, module, function, file, line, stmt, what}; one row per construct looked at (ok=True rows are the census)."""
    rows = []
    for mn in modnames:
        src = ctx.sm.get(mn)
        if src is None:
            raise AnalysisError(f"anchor vanished: module {mn}")
        qidx = qualname_index(src.tree)

        def always_raises(stmts):
            """Every way through the statement list ends in a raise (or sys.exit / exit)."""
            for st in stmts:
                if isinstance(st, ast.Raise):
                    return True
                if isinstance(st, ast.Expr) and isinstance(st.value, ast.Call) and ast.unparse(st.value.func) in ("sys.exit", "exit", "quit", "os._exit"):
                    return True
                if isinstance(st, ast.If) and st.orelse and always_raises(st.body) and always_raises(st.orelse):
                    return True
                if isinstance(st, (ast.Return, ast.Continue, ast.Break)):
                    return False
            return False
        for node in ast.walk(src.tree):
            if isinstance(node, ast.Try):
                for h in node.handlers:
                    q, _fn = enclosing(qidx, src.tree, h)
                    names = []
                    if h.type is None:
                        names = ["<bare>"]
                    elif isinstance(h.type, ast.Tuple):
                        names = [ast.unparse(e).split(".")[-1] for e in h.type.elts]
                    else:
                        names = [ast.unparse(h.type).split(".")[-1]]
                    stmt = f"except {', '.join(names)}: " + "; ".join(ast.unparse(x)[:50] for x in h.body)[:100]
                    if always_raises(h.body):
                        rows.append({"ok": True, "module": mn, "function": q, "file": src.rel, "line": h.lineno, "stmt": stmt, "what": "re-raises"})
                        continue
                    body_calls = [c for st in node.body for c in ast.walk(st) if isinstance(c, ast.Call)]
                    fs_only = bool(body_calls) and all(isinstance(st, ast.Expr) and isinstance(st.value, ast.Call) and
                                                       ast.unparse(st.value.func).split(".")[-1] in FS_CALLS for st in node.body)
                    if set(names) <= FS_ABSENCE and fs_only:
                        rows.append({"ok": True, "module": mn, "function": q, "file": src.rel, "line": h.lineno, "stmt": stmt,
                                     "what": "already gone / already there"})
                        continue
                    rows.append({"ok": False, "module": mn, "function": q, "file": src.rel, "line": h.lineno, "stmt": stmt,
                                 "what": f"the handler for {', '.join(names)} ends without raising: what was being generated when the exception "
                                         f"occurred is left half-done and the run goes on (and ends successfully)"})
            elif isinstance(node, ast.Call):
                fn_src = ast.unparse(node.func)
                q, _fn = enclosing(qidx, src.tree, node)
                if fn_src.split(".")[-1] == "suppress":
                    rows.append({"ok": False, "module": mn, "function": q, "file": src.rel, "line": node.lineno, "stmt": ast.unparse(node)[:100],
                                 "what": "contextlib.suppress drops the exception"})
                for k in node.keywords:
                    if (k.arg == "ignore_errors" and not (isinstance(k.value, ast.Constant) and k.value.value is False)) or k.arg in ("onerror", "onexc"):
                        rows.append({"ok": False, "module": mn, "function": q, "file": src.rel, "line": node.lineno, "stmt": ast.unparse(node)[:100],
                                     "what": f"{fn_src}(..., {k.arg}=...) drops deletion errors: what could not be removed stays in the tree and "
                                             f"the new output is written on top of it"})
    return rows
