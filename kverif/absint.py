"""E2 -- the abstract interpreter, composed from its parts (see interp_base for the design)."""
from __future__ import annotations

from .interp_base import *  # noqa: F401,F403
from .interp_base import Run, Path, Raised, Limit, MAX_PATHS
from .interp_core import InterpCore

from .interp_lib import LibMixin  # noqa: E402
from .interp_sym import SymMixin  # noqa: E402


class Interp(SymMixin, LibMixin, InterpCore):
    """The full interpreter; see the mixins for statements/expressions (core), the library
    model (lib) and symbolic operations (sym)."""

    def explore(self, thunk, max_paths=MAX_PATHS) -> list[Path]:
        """Enumerate all paths of `thunk(run)` by replaying decision prefixes."""
        paths, todo = [], [[]]
        while todo:
            dec = todo.pop()
            run = Run(dec)
            try:
                v = thunk(run)
                out = ("return", v)
            except Raised as r:
                out = ("raise", r.exc)
            paths.append(Path(list(run.facts), list(run.effects), out[0], out[1], run.notes))
            if len(paths) > max_paths:
                raise Limit(f"more than {max_paths} paths")
            for i in range(len(dec), len(run.decisions)):
                todo.append(run.decisions[:i] + [False])
        return paths
