"""Abstract values of the interpreter (E2) and the bit-level affine integer domain.

Concrete Python constants (int, str, bytes, bool, None, float, tuple, Ellipsis) stand for
themselves.  Everything that exists only at run time is a `Sym` carrying a term.
"""
from __future__ import annotations

import datetime as _dt
import itertools
import uuid as _uuid

_ids = itertools.count(1)


# ------------------------------------------------------------------------------ objects

class Obj:
    """Base of identity-carrying abstract objects."""
    __slots__ = ()


class MissingType(Obj):
    def __repr__(self):
        return "MISSING"


MISSING = MissingType()


class LibClass(Obj):
    """A builtin / standard-library class (int, str, KeyError, datetime.timedelta, ...)."""
    __slots__ = ("name", "bases")
    _reg: dict = {}

    def __init__(self, name, bases=()):
        self.name, self.bases = name, tuple(bases)

    @classmethod
    def get(cls, name, bases=None):
        if name not in cls._reg:
            cls._reg[name] = LibClass(name, bases if bases is not None else (() if name == "object" else (cls.get("object"),)))
        return cls._reg[name]

    @property
    def mro(self):
        out, todo = [], [self]
        while todo:
            c = todo.pop(0)
            if c not in out:
                out.append(c)
                todo.extend(c.bases)
        return out

    def __repr__(self):
        return f"<lib {self.name}>"


def _exc(name, base):
    return LibClass.get(name, (LibClass.get(base),))


OBJECT = LibClass.get("object")
TYPE = LibClass.get("type")
for _n in ("int", "str", "bytes", "float", "tuple", "list", "dict", "set", "frozenset", "bytearray",
           "NoneType", "UnionType", "EllipsisType", "function", "datetime.timedelta", "datetime.datetime",
           "datetime.tzinfo", "uuid.UUID", "io.BytesIO", "types.MappingProxyType", "types.ModuleType",
           "dataclasses.Field", "typing.Generic", "typing.Protocol", "enum.Enum", "abc.ABCMeta",
           "asyncio.StreamWriter", "typing.IO", "range", "memoryview", "typing.NamedTuple"):
    LibClass.get(_n)
LibClass.get("bool", (LibClass.get("int"),))
LibClass.get("datetime.timezone", (LibClass.get("datetime.tzinfo"),))
LibClass.get("enum.IntEnum", (LibClass.get("int"), LibClass.get("enum.Enum")))
LibClass.get("BaseException")
_exc("Exception", "BaseException")
for _n, _b in (("ArithmeticError", "Exception"), ("OverflowError", "ArithmeticError"), ("ZeroDivisionError", "ArithmeticError"),
               ("LookupError", "Exception"), ("KeyError", "LookupError"), ("IndexError", "LookupError"),
               ("ValueError", "Exception"), ("UnicodeError", "ValueError"), ("UnicodeDecodeError", "UnicodeError"),
               ("UnicodeEncodeError", "UnicodeError"), ("TypeError", "Exception"), ("AttributeError", "Exception"),
               ("AssertionError", "Exception"), ("RuntimeError", "Exception"), ("NotImplementedError", "RuntimeError"),
               ("RecursionError", "RuntimeError"), ("ImportError", "Exception"), ("ModuleNotFoundError", "ImportError"),
               ("OSError", "Exception"), ("EOFError", "Exception"), ("StopIteration", "Exception"),
               ("MemoryError", "Exception"), ("struct.error", "Exception"), ("NameError", "Exception"), ("UnboundLocalError", "NameError"),
               ("BufferError", "Exception"), ("io.UnsupportedOperation", "OSError")):
    _exc(_n, _b)
for _n in ("KeyboardInterrupt", "SystemExit", "GeneratorExit"):
    _exc(_n, "BaseException")
_exc("Warning", "Exception")
for _n in ("UserWarning", "DeprecationWarning", "RuntimeWarning", "FutureWarning", "PendingDeprecationWarning", "SyntaxWarning",
           "ImportWarning", "UnicodeWarning", "BytesWarning", "ResourceWarning", "EncodingWarning"):
    _exc(_n, "Warning")


class LibFn(Obj):
    __slots__ = ("name",)
    _reg: dict = {}

    def __init__(self, name):
        self.name = name

    @classmethod
    def get(cls, name):
        if name not in cls._reg:
            cls._reg[name] = LibFn(name)
        return cls._reg[name]

    def __repr__(self):
        return f"<libfn {self.name}>"


class LibModule(Obj):
    __slots__ = ("name",)
    _reg: dict = {}

    def __init__(self, name):
        self.name = name

    @classmethod
    def get(cls, name):
        if name not in cls._reg:
            cls._reg[name] = LibModule(name)
        return cls._reg[name]

    def __repr__(self):
        return f"<libmodule {self.name}>"


class ModuleV(Obj):
    __slots__ = ("name", "env", "src", "state")

    def __init__(self, name, env, src):
        self.name, self.env, self.src, self.state = name, env, src, "new"

    def __repr__(self):
        return f"<module {self.name}>"


class Env:
    """A scope: variables + parent.  Closures capture the Env object (by reference)."""
    __slots__ = ("vars", "parent", "kind", "owner", "nonlocals", "globals_")

    def __init__(self, parent=None, kind="function", owner=None):
        self.vars, self.parent, self.kind, self.owner = {}, parent, kind, owner
        self.nonlocals, self.globals_ = set(), set()

    def lookup(self, name):
        e = self
        while e is not None:
            if name in e.vars and (e.kind != "class" or e is self):
                return e.vars[name], e
            e = e.parent
        return None, None

    def module_env(self):
        e = self
        while e.parent is not None:
            e = e.parent
        return e


class FuncV(Obj):
    __slots__ = ("node", "env", "module", "qualname", "defaults", "kwdefaults", "defcls", "uid")

    def __init__(self, node, env, module, qualname, defaults, kwdefaults, defcls=None):
        self.node, self.env, self.module, self.qualname = node, env, module, qualname
        self.defaults, self.kwdefaults, self.defcls = defaults, kwdefaults, defcls
        self.uid = next(_ids)

    @property
    def name(self):
        return self.node.name if hasattr(self.node, "name") else "<lambda>"

    @property
    def ref(self):
        return f"{self.module}:{self.qualname}"

    def __repr__(self):
        return f"<func {self.ref}>"


class BoundV(Obj):
    __slots__ = ("func", "self_")

    def __init__(self, func, self_):
        self.func, self.self_ = func, self_

    def __repr__(self):
        return f"<bound {self.func!r} of {self.self_!r}>"


class WrapV(Obj):
    """classmethod / staticmethod / property wrappers living in a class namespace."""
    __slots__ = ("kind", "func")

    def __init__(self, kind, func):
        self.kind, self.func = kind, func


class ClassV(Obj):
    __slots__ = ("name", "module", "bases", "ns", "metaclass", "flags", "node", "_mro", "entity", "uid", "kwargs")

    def __init__(self, name, module, bases, ns, metaclass=None, node=None):
        self.name, self.module, self.bases, self.ns = name, module, tuple(bases), ns
        self.metaclass, self.node = metaclass, node
        self.flags: dict = {}
        self._mro = None
        self.entity = None  # SSM class dict for generated entities
        self.uid = next(_ids)
        self.kwargs = {}

    @property
    def ref(self):
        return f"{self.module}:{self.name}"

    @property
    def mro(self):
        if self._mro is None:
            self._mro = c3(self)
        return self._mro

    def __repr__(self):
        return f"<class {self.ref}>"


def _mro_of(c):
    return list(c.mro)


def c3(cls) -> list:
    seqs = [_mro_of(b) for b in cls.bases] + [list(cls.bases)]
    out = [cls]
    seqs = [s for s in seqs if s]
    while seqs:
        for s in seqs:
            h = s[0]
            if not any(h in t[1:] for t in seqs):
                break
        else:
            raise ValueError(f"inconsistent MRO for {cls!r}")
        out.append(h)
        seqs = [[x for x in s if x is not h] for s in seqs]
        seqs = [s for s in seqs if s]
    if OBJECT not in out:
        out.append(OBJECT)
    return out


class InstV(Obj):
    __slots__ = ("cls", "attrs", "uid", "frozen")

    def __init__(self, cls, attrs=None, frozen=False):
        self.cls, self.attrs, self.frozen = cls, attrs if attrs is not None else {}, frozen
        self.uid = next(_ids)

    def __repr__(self):
        a = ", ".join(f"{k}={v!r}" for k, v in self.attrs.items() if not k.startswith("_"))
        return f"{self.cls.name}({a})"


class EnumMemberV(Obj):
    __slots__ = ("cls", "name", "value", "attrs")

    def __init__(self, cls, name, value, attrs=None):
        self.cls, self.name, self.value, self.attrs = cls, name, value, attrs or {}

    def __repr__(self):
        return f"{self.cls.name}.{self.name}"


class FieldV(Obj):
    __slots__ = ("name", "type", "default", "default_factory", "metadata", "kw_only", "owner", "src", "uid")

    def __init__(self, name, type_, default, metadata, owner=None, src=None):
        self.name, self.type, self.default, self.metadata = name, type_, default, metadata
        self.default_factory = MISSING
        self.kw_only = True
        self.owner, self.src = owner, src
        self.uid = next(_ids)

    def __repr__(self):
        return f"<field {self.owner}.{self.name}>" if self.owner else f"<field {self.name}>"


class GenericV(Obj):
    """tuple[X, ...], type[X], ClassVar[...], Callable[...] -- a subscripted generic."""
    __slots__ = ("origin", "args")

    def __init__(self, origin, args):
        self.origin, self.args = origin, tuple(args)

    def __eq__(self, o):
        return isinstance(o, GenericV) and self.origin is o.origin and self.args == o.args

    def __hash__(self):
        return hash((id(self.origin), len(self.args)))

    def __repr__(self):
        return f"{getattr(self.origin, 'name', self.origin)}[{', '.join(map(repr, self.args))}]"


class UnionV(Obj):
    __slots__ = ("args",)

    def __init__(self, args):
        flat = []
        for a in args:
            if isinstance(a, UnionV):
                flat.extend(a.args)
            else:
                flat.append(LibClass.get("NoneType") if a is None else a)
        ded = []
        for a in flat:
            if not any(a is b or a == b for b in ded):
                ded.append(a)
        self.args = tuple(ded)

    def __eq__(self, o):
        return isinstance(o, UnionV) and len(self.args) == len(o.args) and all(any(a is b or a == b for b in o.args) for a in self.args)

    def __hash__(self):
        return hash(len(self.args))

    def __repr__(self):
        return " | ".join(map(repr, self.args))


class OpaqueV(Obj):
    """A typing construct or library object whose identity is irrelevant (TypeVar, TypeAlias...)."""
    __slots__ = ("what",)

    def __init__(self, what):
        self.what = what

    def __repr__(self):
        return f"<opaque {self.what}>"


class DictV(Obj):
    __slots__ = ("d", "frozen", "may", "uid", "site")

    def __init__(self, d=None, frozen=False, site=None):
        self.d = d if d is not None else {}
        self.frozen = frozen
        self.may = None  # key -> [values] stored under a symbolic trip count (weak updates)
        self.uid = next(_ids)
        self.site = site


class DefaultDictV(DictV):
    """collections.defaultdict: a missing key is created by calling the factory."""
    __slots__ = ("factory",)


class ListV(Obj):
    __slots__ = ("items", "may", "uid", "site")

    def __init__(self, items=None, site=None):
        self.items = items if items is not None else []
        self.may = None  # values appended under a symbolic trip count
        self.uid = next(_ids)
        self.site = site


class SetV(ListV):
    """A mutable set created empty (`set()` / `set[T]()`) and filled by the program: insertion-ordered items, no duplicates.
    (Set literals and set(iterable) stay frozensets: they are used as constants.)"""
    __slots__ = ()


class GenV(Obj):
    """A generator expression bound to a name: consumed once, `next()` advances it.  (A generator expression that is
    consumed where it is written -- tuple(...), max(...), any(...) -- is represented by the tuple of its items.)"""
    __slots__ = ("src", "taken", "exhausted", "uid")

    def __init__(self, src):
        self.src, self.taken, self.exhausted = src, 0, False
        self.uid = next(_ids)


class StreamV(Obj):
    """kind 'param': the caller's sink/source. kind 'local': io.BytesIO() allocated at `site`."""
    __slots__ = ("kind", "site", "uid", "init", "closed")

    def __init__(self, kind, site=None, init=None):
        self.kind, self.site, self.init = kind, site, init
        self.uid = next(_ids)
        self.closed = False

    def __repr__(self):
        return f"<stream {self.kind}#{self.uid}{' @' + str(self.site) if self.site else ''}>"


class SuperV(Obj):
    __slots__ = ("cls", "obj")

    def __init__(self, cls, obj):
        self.cls, self.obj = cls, obj


class CtxMgrV(Obj):
    """contextlib.closing(x) and similar."""
    __slots__ = ("kind", "inner")

    def __init__(self, kind, inner):
        self.kind, self.inner = kind, inner


class PartialV(Obj):
    __slots__ = ("fn", "args", "kwargs", "uid")

    def __init__(self, fn, args, kwargs):
        self.fn, self.args, self.kwargs = fn, args, kwargs
        self.uid = next(_ids)


def callable_target(v):
    """The repository function a callable value runs when called: itself, the function a functools.partial wraps, the __call__ of a
    callable instance.  None for anything else (library callables, classes)."""
    seen = 0
    while seen < 6:
        seen += 1
        if isinstance(v, FuncV):
            return v
        if isinstance(v, BoundV):
            v = v.func
        elif isinstance(v, PartialV):
            v = v.fn
        elif isinstance(v, InstV) and isinstance(v.cls, ClassV):
            c = None
            for k in v.cls.mro:
                if isinstance(k, ClassV) and "__call__" in k.ns:
                    c = k.ns["__call__"]
                    break
            if c is None:
                return None
            v = c
        else:
            return None
    return None


def callable_ref(v) -> str:
    t = callable_target(v)
    if t is None:
        return repr(v)
    if isinstance(v, PartialV):
        return t.ref  # the wrapped function names the code that runs
    return t.ref


def callable_line(v) -> int:
    t = callable_target(v)
    return getattr(getattr(t, "node", None), "lineno", 0) if t is not None else 0


# ------------------------------------------------------------------------------ symbols

class Sym:
    """A run-time value.  `term` is a hashable nested tuple; `kind` is a coarse sort;
    `info` carries refinements: lo/hi (ints), len (bytes/str/tuple), bv (bit vector),
    vtype (declared type of an entity attribute / parameter), cls (instance class)."""
    __slots__ = ("term", "kind", "info")

    def __init__(self, term, kind="any", **info):
        self.term, self.kind, self.info = term, kind, info

    def __repr__(self):
        return show_term(self.term)

    def __hash__(self):
        return hash(self.term)

    def __eq__(self, other):
        return isinstance(other, Sym) and self.term == other.term

    def with_info(self, **kw):
        i = dict(self.info)
        i.update(kw)
        return Sym(self.term, self.kind, **i)


def term_of(v):
    """Hashable term for any value appearing inside another term."""
    if isinstance(v, Sym):
        return v.term
    if isinstance(v, (int, str, bytes, float, bool)) or v is None or v is Ellipsis:
        return ("k", v)
    if isinstance(v, (_dt.datetime, _dt.timedelta, _dt.timezone, _uuid.UUID)):
        return ("k", v)
    if isinstance(v, tuple):
        return ("tup",) + tuple(term_of(x) for x in v)
    if isinstance(v, EnumMemberV):
        return ("enum", v.cls.ref, v.name)
    if isinstance(v, InstV):
        return ("inst", getattr(v.cls, "ref", None) or v.cls.name, tuple(sorted((k, term_of(x)) for k, x in v.attrs.items())))
    if isinstance(v, (ClassV,)):
        return ("class", v.ref)
    if isinstance(v, LibClass):
        return ("class", v.name)
    if isinstance(v, FuncV):
        return ("func", v.ref, v.uid)
    if isinstance(v, StreamV):
        return ("stream", v.uid)
    if isinstance(v, MissingType):
        return ("MISSING",)
    if isinstance(v, GenV):
        return ("gen", term_of(v.src), v.taken)
    if isinstance(v, ListV):
        return ("list", v.uid)
    if isinstance(v, DictV):
        return ("dict", v.uid)
    return ("obj", type(v).__name__, id(v))


INFIX = {"add": "+", "sub": "-", "mul": "*", "and": "&", "or": "|", "xor": "^", "shl": "<<", "shr": ">>",
         "div": "/", "floordiv": "//", "mod": "%", "eq": "==", "ne": "!=", "lt": "<", "le": "<=", "gt": ">",
         "ge": ">=", "is": "is", "isnot": "is not", "pow": "**"}


def show_term(t, depth=0) -> str:
    if depth > 12:
        return "…"
    if not isinstance(t, tuple) or not t:
        return repr(t)
    h = t[0]
    d = depth + 1
    if h == "k":
        return repr(t[1])
    if h in INFIX and len(t) == 3:
        return f"({show_term(t[1], d)} {INFIX[h]} {show_term(t[2], d)})"
    if h == "wire":
        return f"w{t[1]}"
    if h == "param":
        return str(t[1])
    if h == "attr":
        return f"{show_term(t[1], d)}.{t[2]}"
    if h == "tup":
        return "(" + ", ".join(show_term(x, d) for x in t[1:]) + ")"
    if h == "enum":
        return f"{t[1].split(':')[-1]}.{t[2]}"
    if h == "class":
        return str(t[1]).split(":")[-1]
    return f"{h}(" + ", ".join(show_term(x, d) if isinstance(x, tuple) else repr(x) for x in t[1:]) + ")"


# ------------------------------------------------------------------------------ bit vectors

class BV:
    """Integer as a vector of GF(2)-affine bits over atom bits, two's complement, unbounded:
    bits[i] for i < len(bits); every higher bit equals `ext` (sign extension).
    An affine bit is (const, frozenset(atoms)) meaning const XOR (xor of atoms);
    an atom is (name, index).  TOP (None) marks a bit the domain cannot express."""
    __slots__ = ("bits", "ext")

    ZERO = (0, frozenset())
    ONE = (1, frozenset())

    def __init__(self, bits, ext=None):
        ext = BV.ZERO if ext is None else ext
        bits = list(bits)
        while bits and bits[-1] == ext:
            bits.pop()
        self.bits, self.ext = tuple(bits), ext

    # constructors
    @staticmethod
    def const(n: int) -> "BV":
        ext = BV.ONE if n < 0 else BV.ZERO
        bits = []
        m = n
        while m not in (0, -1):
            bits.append(BV.ONE if m & 1 else BV.ZERO)
            m >>= 1
        return BV(bits, ext)

    @staticmethod
    def atom(name, width: int, signed: bool) -> "BV":
        if signed:
            return BV([(0, frozenset({(name, i)})) for i in range(width - 1)], (0, frozenset({(name, width - 1)})))
        return BV([(0, frozenset({(name, i)})) for i in range(width)], BV.ZERO)

    def bit(self, i):
        return self.bits[i] if i < len(self.bits) else self.ext

    def is_const(self):
        return all(b is not None and not b[1] for b in self.bits) and self.ext is not None and not self.ext[1]

    def const_value(self) -> int:
        v = sum((b[0] << i) for i, b in enumerate(self.bits))
        if self.ext[0]:
            v -= 1 << len(self.bits)
        return v

    def key(self):
        return (self.bits, self.ext)

    def __eq__(self, o):
        return isinstance(o, BV) and self.key() == o.key()

    def __hash__(self):
        return hash(self.key())

    # bit operations
    @staticmethod
    def _xor(a, b):
        if a is None or b is None:
            return None
        return (a[0] ^ b[0], a[1] ^ b[1])

    @staticmethod
    def _and(a, b):
        if a == BV.ZERO or b == BV.ZERO:
            return BV.ZERO
        if a == BV.ONE:
            return b
        if b == BV.ONE:
            return a
        if a is not None and a == b:
            return a
        return None

    @staticmethod
    def _or(a, b):
        if a == BV.ONE or b == BV.ONE:
            return BV.ONE
        if a == BV.ZERO:
            return b
        if b == BV.ZERO:
            return a
        if a is not None and a == b:
            return a
        return None

    def _zip(self, o, f):
        n = max(len(self.bits), len(o.bits))
        return BV([f(self.bit(i), o.bit(i)) for i in range(n)], f(self.ext, o.ext))

    def __and__(self, o):
        return self._zip(o, BV._and)

    def __or__(self, o):
        return self._zip(o, BV._or)

    def __xor__(self, o):
        return self._zip(o, BV._xor)

    def __lshift__(self, n: int):
        return BV([BV.ZERO] * n + list(self.bits), self.ext)

    def __rshift__(self, n: int):
        return BV(self.bits[n:], self.ext)

    def invert(self):
        one = BV.ONE
        return BV([BV._xor(b, one) for b in self.bits], BV._xor(self.ext, one))

    def neg(self):
        """-x, exact only when x is a single bit (0/1) or constant."""
        if self.is_const():
            return BV.const(-self.const_value())
        if len(self.bits) == 1 and self.ext == BV.ZERO:
            b = self.bits[0]
            return BV([], b)  # all bits equal b
        return None

    def add(self, o):
        """x + y, exact when no position has two possibly-set bits (no carries)."""
        if self.is_const() and o.is_const():
            return BV.const(self.const_value() + o.const_value())
        n = max(len(self.bits), len(o.bits))
        out = []
        for i in range(n):
            a, b = self.bit(i), o.bit(i)
            if a == BV.ZERO:
                out.append(b)
            elif b == BV.ZERO:
                out.append(a)
            else:
                return None
        if self.ext != BV.ZERO and o.ext != BV.ZERO:
            return None
        return BV(out, self.ext if o.ext == BV.ZERO else o.ext)

    def known_zero(self):
        return not self.bits and self.ext == BV.ZERO

    def has_top(self):
        return any(b is None for b in self.bits) or self.ext is None

    def width(self):
        return len(self.bits)

    def show(self):
        def sb(b):
            if b is None:
                return "?"
            c, atoms = b
            parts = [f"{n}[{i}]" for n, i in sorted(atoms, key=str)]
            if c or not parts:
                parts.append(str(c))
            return "^".join(parts)
        return "[" + ", ".join(sb(b) for b in self.bits) + f" | ext={sb(self.ext)}]"

    def subst(self, mapping):
        """Substitute atom bits by affine bits: mapping[(name, i)] -> affine bit."""
        def sub(b):
            if b is None:
                return None
            c, atoms = b
            out = (c, frozenset())
            for a in atoms:
                r = mapping.get(a, (0, frozenset({a})))
                if r is None:
                    return None
                out = BV._xor(out, r)
            return out
        return BV([sub(b) for b in self.bits], sub(self.ext))
