"""E0 -- source model: module discovery, lazy parsing, import resolution, digests.

Nothing here imports code from the repository; files are read and parsed with `ast`.
"""
from __future__ import annotations

import ast
import hashlib
import os
from pathlib import Path

from .core import REPO, AnalysisError

SRC_ROOTS = (("src", "kio"), ("", "codegen"))


class ModuleSrc:
    __slots__ = ("name", "path", "is_pkg", "_tree", "_text")

    def __init__(self, name: str, path: Path, is_pkg: bool):
        self.name, self.path, self.is_pkg = name, path, is_pkg
        self._tree = None
        self._text = None

    @property
    def text(self) -> str:
        if self._text is None:
            self._text = self.path.read_text()
        return self._text

    @property
    def tree(self) -> ast.Module:
        if self._tree is None:
            try:
                self._tree = ast.parse(self.text, filename=str(self.path))
            except SyntaxError as e:  # the tree must at least compile; otherwise nothing can be said
                raise AnalysisError(f"cannot parse {self.path}: {e}") from e
        return self._tree

    @property
    def rel(self) -> str:
        try:
            return str(self.path.relative_to(REPO))
        except ValueError:
            return str(self.path)

    @property
    def package(self) -> str:
        return self.name if self.is_pkg else self.name.rpartition(".")[0]


class SourceModel:
    """All python modules of /repo/src/kio and /repo/codegen, by dotted name."""

    def __init__(self, repo: Path = REPO):
        self.repo = repo
        self.modules: dict[str, ModuleSrc] = {}
        for sub, pkg in SRC_ROOTS:
            base = repo / sub if sub else repo
            root = base / pkg
            if not root.is_dir():
                raise AnalysisError(f"anchor vanished: directory {root} does not exist")
            for dirpath, dirnames, filenames in os.walk(root):
                dirnames[:] = sorted(d for d in dirnames if d != "__pycache__")
                for fn in sorted(filenames):
                    if not fn.endswith(".py"):
                        continue
                    p = Path(dirpath) / fn
                    rel = p.relative_to(base).with_suffix("")
                    parts = list(rel.parts)
                    is_pkg = parts[-1] == "__init__"
                    if is_pkg:
                        parts = parts[:-1]
                    name = ".".join(parts)
                    self.modules[name] = ModuleSrc(name, p, is_pkg)

    def get(self, name: str) -> ModuleSrc | None:
        return self.modules.get(name)

    def require(self, name: str) -> ModuleSrc:
        m = self.modules.get(name)
        if m is None:
            raise AnalysisError(f"anchor vanished: module {name} not found under {self.repo}")
        return m

    def by_prefix(self, prefix: str) -> list[ModuleSrc]:
        return [m for n, m in self.modules.items() if n == prefix or n.startswith(prefix + ".")]

    def digest(self, prefixes: tuple[str, ...] = ("kio", "codegen")) -> str:
        h = hashlib.sha256()
        for n in sorted(self.modules):
            if not any(n == p or n.startswith(p + ".") for p in prefixes):
                continue
            m = self.modules[n]
            h.update(n.encode())
            h.update(b"\0")
            h.update(m.path.read_bytes())
            h.update(b"\0")
        return h.hexdigest()

    # ---------------------------------------------------------------------------------
    def resolve_from(self, mod: ModuleSrc, node: ast.ImportFrom) -> str:
        """Absolute dotted module name an `from X import ...` statement refers to."""
        if node.level == 0:
            return node.module or ""
        pkg = mod.package.split(".") if mod.package else []
        up = node.level - 1
        if up:
            pkg = pkg[:-up]
        if node.module:
            pkg = pkg + node.module.split(".")
        return ".".join(pkg)


def import_table(sm: SourceModel, mod: ModuleSrc, body=None) -> dict[str, tuple[str, str | None]]:
    """name -> (module, attr | None) for the import statements in `body` (default: top level,
    descending into the runtime branch of `if TYPE_CHECKING` and into try bodies)."""
    out: dict[str, tuple[str, str | None]] = {}

    def walk(stmts):
        for n in stmts:
            if isinstance(n, ast.Import):
                for a in n.names:
                    if a.asname:
                        out[a.asname] = (a.name, None)
                    else:
                        out[a.name.split(".")[0]] = (a.name.split(".")[0], None)
            elif isinstance(n, ast.ImportFrom):
                src = sm.resolve_from(mod, n)
                for a in n.names:
                    out[a.asname or a.name] = (src, a.name)
            elif isinstance(n, ast.If):
                t = ast.unparse(n.test)
                if t in ("TYPE_CHECKING", "typing.TYPE_CHECKING"):
                    walk(n.orelse)
                elif t in ("not TYPE_CHECKING", "not typing.TYPE_CHECKING"):
                    walk(n.body)
                else:
                    walk(n.body)
                    walk(n.orelse)
            elif isinstance(n, ast.Try):
                walk(n.body)

    walk(mod.tree.body if body is None else body)
    return out


def qualname_index(tree: ast.Module) -> dict[ast.AST, str]:
    """Map every FunctionDef/ClassDef node to its dotted qualname (closures included)."""
    out: dict[ast.AST, str] = {}

    def walk(node, prefix):
        for ch in ast.iter_child_nodes(node):
            if isinstance(ch, (ast.FunctionDef, ast.AsyncFunctionDef, ast.ClassDef)):
                q = f"{prefix}.{ch.name}" if prefix else ch.name
                out[ch] = q
                walk(ch, q)
            else:
                walk(ch, prefix)

    walk(tree, "")
    return out


def is_overload(fn: ast.FunctionDef) -> bool:
    return any(ast.unparse(d) in ("overload", "typing.overload") for d in fn.decorator_list)


def functions_of(tree: ast.Module) -> dict[str, ast.FunctionDef]:
    """qualname -> def node (last non-overload definition wins, as at run time)."""
    out = {}
    for node, q in qualname_index(tree).items():
        if isinstance(node, (ast.FunctionDef, ast.AsyncFunctionDef)) and not is_overload(node):
            out[q] = node
    return out


def add_virtual(sm: SourceModel, name: str, text: str) -> ModuleSrc:
    """Register a synthetic module (positive controls): parsed from text, never written to /repo."""
    m = ModuleSrc(name, Path(f"<control {name}>"), False)
    m._text = text
    sm.modules[name] = m
    return m
