"""E3 -- protocol tables written from the Kafka specification (protocol guide, KIP-482,
KIP-893, the message-definition README, ApiMessageTypeGenerator).  Nothing here is derived
from kio's source: this module is the independent oracle the derived grammars are compared
against (DESIGN.md section 4).
"""
from __future__ import annotations

import builtins

# --- API keys of Apache Kafka 3.9.0 (protocol guide, "API keys" table) -----------------
API_KEYS = {
    0: "Produce", 1: "Fetch", 2: "ListOffsets", 3: "Metadata", 4: "LeaderAndIsr", 5: "StopReplica",
    6: "UpdateMetadata", 7: "ControlledShutdown", 8: "OffsetCommit", 9: "OffsetFetch", 10: "FindCoordinator",
    11: "JoinGroup", 12: "Heartbeat", 13: "LeaveGroup", 14: "SyncGroup", 15: "DescribeGroups", 16: "ListGroups",
    17: "SaslHandshake", 18: "ApiVersions", 19: "CreateTopics", 20: "DeleteTopics", 21: "DeleteRecords",
    22: "InitProducerId", 23: "OffsetForLeaderEpoch", 24: "AddPartitionsToTxn", 25: "AddOffsetsToTxn", 26: "EndTxn",
    27: "WriteTxnMarkers", 28: "TxnOffsetCommit", 29: "DescribeAcls", 30: "CreateAcls", 31: "DeleteAcls",
    32: "DescribeConfigs", 33: "AlterConfigs", 34: "AlterReplicaLogDirs", 35: "DescribeLogDirs",
    36: "SaslAuthenticate", 37: "CreatePartitions", 38: "CreateDelegationToken", 39: "RenewDelegationToken",
    40: "ExpireDelegationToken", 41: "DescribeDelegationToken", 42: "DeleteGroups", 43: "ElectLeaders",
    44: "IncrementalAlterConfigs", 45: "AlterPartitionReassignments", 46: "ListPartitionReassignments",
    47: "OffsetDelete", 48: "DescribeClientQuotas", 49: "AlterClientQuotas", 50: "DescribeUserScramCredentials",
    51: "AlterUserScramCredentials", 52: "Vote", 53: "BeginQuorumEpoch", 54: "EndQuorumEpoch", 55: "DescribeQuorum",
    56: "AlterPartition", 57: "UpdateFeatures", 58: "Envelope", 59: "FetchSnapshot", 60: "DescribeCluster",
    61: "DescribeProducers", 62: "BrokerRegistration", 63: "BrokerHeartbeat", 64: "UnregisterBroker",
    65: "DescribeTransactions", 66: "ListTransactions", 67: "AllocateProducerIds", 68: "ConsumerGroupHeartbeat",
    69: "ConsumerGroupDescribe", 70: "ControllerRegistration", 71: "GetTelemetrySubscriptions", 72: "PushTelemetry",
    73: "AssignReplicasToDirs", 74: "ListClientMetricsResources", 75: "DescribeTopicPartitions",
    76: "ShareGroupHeartbeat", 77: "ShareGroupDescribe", 78: "ShareFetch", 79: "ShareAcknowledge",
    80: "AddRaftVoter", 81: "RemoveRaftVoter", 82: "UpdateRaftVoter", 83: "InitializeShareGroupState",
    84: "ReadShareGroupState", 85: "WriteShareGroupState", 86: "DeleteShareGroupState",
    87: "ReadShareGroupStateSummary",
}

CONTROLLED_SHUTDOWN_KEY = 7
API_VERSIONS_KEY = 18


def header_module(entity_type: str, api_key: int, version: int, flexible: bool) -> str:
    """ApiMessageTypeGenerator: request header v2 iff flexible else v1, v0 only for
    ControlledShutdown v0; response header v1 iff flexible else v0, always v0 for ApiVersions."""
    if entity_type == "request":
        if api_key == CONTROLLED_SHUTDOWN_KEY and version == 0:
            return "kio.schema.request_header.v0.header"
        return "kio.schema.request_header.v2.header" if flexible else "kio.schema.request_header.v1.header"
    if entity_type == "response":
        if api_key == API_VERSIONS_KEY:
            return "kio.schema.response_header.v0.header"
        return "kio.schema.response_header.v1.header" if flexible else "kio.schema.response_header.v0.header"
    raise ValueError(entity_type)


def header_class(entity_type: str) -> str:
    return {"request": "RequestHeader", "response": "ResponseHeader"}[entity_type]


# --- naming convention (kio's documented snake-casing; re-implemented from its docstring examples)
_BUILTINS = frozenset(dir(builtins))


def snake(value: str) -> str:
    """ISRReplicas -> isr_replicas, InSyncReplicas -> in_sync_replicas, WhatIsQ -> what_is_q,
    V3AndBelow -> v3_and_below, Type -> type_, KRaftVersionRecord -> k_raft_version_record."""
    groups, cur = [], ""
    n = len(value)
    for i, ch in enumerate(value):
        if not cur:
            cur = ch
            continue
        prev = cur[-1]
        nxt = value[i + 1] if i + 1 < n else None
        if nxt is None:
            split = prev.islower() and ch.isupper()
        else:
            split = ((prev.isupper() and ch.isupper() and nxt.islower())
                     or (prev.islower() and ch.isupper())
                     or (prev.isdigit() and ch.isupper() and nxt.islower()))
        if split:
            groups.append(cur)
            cur = ch
        else:
            cur += ch
    groups.append(cur)
    out = "_".join(groups).lower()
    return out + "_" if out in _BUILTINS else out


def basic_name(schema_name: str) -> str:
    s = snake(schema_name)
    for suf in ("_response", "_request"):
        if s.endswith(suf):
            s = s[: -len(suf)]
    return s
