"""kverif -- static verification machinery for Aiven-Open/kio (see /verif/DESIGN.md).

Nothing in this package imports or executes code from /repo: every verdict is computed
from syntax trees, a resolved symbol/call model and abstract values.
"""
