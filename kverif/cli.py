"""Command line: ./vcheck <Cnn> [--tier quick|thorough] | replay <path> | all | selftest"""
from __future__ import annotations

import argparse
import json
import os
import sys

from . import core, props


def run_one(pid: str, tier: str, seed: int, only_key=None) -> int:
    from .ctx import Ctx
    try:
        mod = props.load(pid)
    except ModuleNotFoundError:
        print(f"ANALYSIS-ERROR property={pid} no checker module")
        return 2
    ctx = Ctx(tier, seed)
    rc = core.run_property(pid, lambda rep: mod.check(rep, ctx), tier, seed, only_key=only_key)
    if tier == "thorough" and rc == 0 and only_key is None and not os.environ.get("KVERIF_NO_SELFVALIDATION"):
        rc = self_validate(pid)
    return rc


def self_validate(pid: str) -> int:
    """Thorough tier: after the tree verdict, re-run this property's check on every corpus / seeded
    variant that is expected to break it (each must be reported, naming the construct) and on the
    behaviour-preserving variants listed for it (each must stay silent).  The outcome never changes
    a tree verdict into a violation; an undetected control is exit 2."""
    import time
    from concurrent.futures import ThreadPoolExecutor
    from .controls import run_controls
    from .corpus import MUTANTS, SILENT
    from .selftest import run_variant, load_seeded
    t0 = time.time()
    missed = [f"control: {m}" for m in run_controls(with_mutants=False)]
    muts = [dict(m, checks=[pid], expect={pid: m.get("expect", {}).get(pid, "")}) for m in MUTANTS + load_seeded() if pid in m["checks"]]
    from .selftest import load_refactors
    sil = [dict(m, checks=[pid]) for m in SILENT + load_refactors() if pid in m["checks"]]
    env_jobs = int(os.environ.get("KVERIF_JOBS", "8"))
    os.environ["KVERIF_NO_SELFVALIDATION"] = "1"
    with ThreadPoolExecutor(env_jobs) as ex:
        r1 = list(ex.map(lambda v: run_variant(v, "mutant"), muts))
        r2 = list(ex.map(lambda v: run_variant(v, "silent"), sil))
    missed += [f"mutant {r['id']}: {r.get('why')}" for r in r1 if not r["ok"]]
    missed += [f"silent variant {r['id']}: {r.get('why')}" for r in r2 if not r["ok"]]
    path = core.EVIDENCE_DIR / f"{pid}.json"
    try:
        ev = json.loads(path.read_text())
        ev["coverage"]["selfvalidation"] = {
            "breaking_variants_detected": [r["id"] for r in r1 if r["ok"]],
            "behaviour_preserving_variants_silent": [r["id"] for r in r2 if r["ok"]],
            "missed": missed, "wall_s": round(time.time() - t0, 1),
            "note": "each breaking variant is a single realistic edit (own corpus + independently written seeded changes) applied to a "
                    "scratch copy; this property's check must exit 1 and name the edited construct"}
        ev["wall_s"] = round(ev.get("wall_s", 0) + time.time() - t0, 3)
        path.write_text(json.dumps(ev, indent=1, default=str))
    except Exception as e:
        missed.append(f"evidence update failed: {e}")
    print(f"{pid} [thorough] self-validation: {len([r for r in r1 if r['ok']])}/{len(r1)} breaking variants detected, "
          f"{len([r for r in r2 if r['ok']])}/{len(r2)} preserving variants silent, {time.time() - t0:.0f}s")
    if missed:
        for m in missed:
            print(f"ANALYSIS-ERROR property={pid} self-validation: {m}"[:400])
        return 2
    return 0


def main(argv=None) -> int:
    argv = list(sys.argv[1:] if argv is None else argv)
    if not argv:
        print(__doc__)
        return 2
    seed = int(os.environ.get("VERIF_SEED", "0") or 0)
    if argv[0] == "replay":
        data = json.loads(open(argv[1]).read())
        key = (data["property"], data["rule"], data["construct"], core.norm_ws(data["stmt"]))
        print(f"replaying {data['rule']} at {data['construct']}: {data['message']}")
        rc = run_one(data["property"], os.environ.get("VERIF_TIER", "quick"), seed, only_key=key)
        if rc == 0:
            print("replay: the recorded violation is no longer present on the current tree")
        return rc
    if argv[0] == "selftest":
        from .selftest import main as st_main
        return st_main(argv[1:])
    ap = argparse.ArgumentParser()
    ap.add_argument("pid")
    ap.add_argument("--tier", default=os.environ.get("VERIF_TIER") or "quick", choices=["quick", "thorough"])
    a = ap.parse_args(argv)
    if a.pid == "all":
        worst = 0
        for pid in props.ALL:
            rc = run_one(pid, a.tier, seed)
            worst = max(worst, rc)
        return worst
    return run_one(a.pid.upper(), a.tier, seed)


if __name__ == "__main__":
    try:
        rc = main()
    except SystemExit:
        raise
    except BaseException as e:  # last line of defence: a traceback must not look like a violation
        import traceback
        traceback.print_exc()
        print(f"ANALYSIS-ERROR internal {type(e).__name__}: {e}")
        rc = 2
    sys.stdout.flush()
    sys.exit(rc)
