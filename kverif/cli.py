"""Command line: ./vcheck <Cnn> [--tier quick|thorough] | replay <path> | all | selftest"""
from __future__ import annotations

import argparse
import json
import os
import sys

from . import core, props


def run_one(pid: str, tier: str, seed: int, only_key=None) -> int:
    from .ctx import Ctx
    try:
        mod = props.load(pid)
    except ModuleNotFoundError:
        print(f"ANALYSIS-ERROR property={pid} no checker module")
        return 2
    ctx = Ctx(tier, seed)
    return core.run_property(pid, lambda rep: mod.check(rep, ctx), tier, seed, only_key=only_key)


def main(argv=None) -> int:
    argv = list(sys.argv[1:] if argv is None else argv)
    if not argv:
        print(__doc__)
        return 2
    seed = int(os.environ.get("VERIF_SEED", "0") or 0)
    if argv[0] == "replay":
        data = json.loads(open(argv[1]).read())
        key = (data["property"], data["rule"], data["construct"], core.norm_ws(data["stmt"]))
        print(f"replaying {data['rule']} at {data['construct']}: {data['message']}")
        rc = run_one(data["property"], os.environ.get("VERIF_TIER", "quick"), seed, only_key=key)
        if rc == 0:
            print("replay: the recorded violation is no longer present on the current tree")
        return rc
    if argv[0] == "selftest":
        from .selftest import main as st_main
        return st_main(argv[1:])
    ap = argparse.ArgumentParser()
    ap.add_argument("pid")
    ap.add_argument("--tier", default=os.environ.get("VERIF_TIER") or "quick", choices=["quick", "thorough"])
    a = ap.parse_args(argv)
    if a.pid == "all":
        worst = 0
        for pid in props.ALL:
            rc = run_one(pid, a.tier, seed)
            worst = max(worst, rc)
        return worst
    return run_one(a.pid.upper(), a.tier, seed)


if __name__ == "__main__":
    try:
        rc = main()
    except SystemExit:
        raise
    except BaseException as e:  # last line of defence: a traceback must not look like a violation
        import traceback
        traceback.print_exc()
        print(f"ANALYSIS-ERROR internal {type(e).__name__}: {e}")
        rc = 2
    sys.stdout.flush()
    sys.exit(rc)
