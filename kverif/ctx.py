"""Shared analysis context: one per process; engines are built lazily and memoised."""
from __future__ import annotations

import hashlib

from .core import REPO, AnalysisError
from .source import SourceModel
from .ssm import Schema, load_ssm


class Ctx:
    def __init__(self, tier: str = "quick", seed: int = 0):
        self.tier, self.seed = tier, seed
        self.repo = REPO
        self.sm = SourceModel(REPO)
        self._schema = None
        self._digests: dict = {}
        self._memo: dict = {}

    def digest(self, *prefixes: str) -> str:
        if prefixes not in self._digests:
            self._digests[prefixes] = self.sm.digest(prefixes)
        return self._digests[prefixes]

    @property
    def schema(self) -> Schema:
        if self._schema is None:
            import hashlib
            from pathlib import Path
            ch = hashlib.sha256((Path(__file__).parent / "ssm.py").read_bytes()).hexdigest()[:12]
            self._schema = Schema(load_ssm(self.digest("kio.schema")[:20] + ch, REPO))
        return self._schema

    def memo(self, key, build):
        if key not in self._memo:
            self._memo[key] = build()
        return self._memo[key]

    # engines (imported lazily so that table-only properties stay cheap) -----------------
    @property
    def interp(self):
        from .absint import Interp
        return self.memo("interp", lambda: Interp(self))

    @property
    def bundle(self) -> dict:
        from .plans import load_bundle
        return self.memo("bundle", lambda: load_bundle(self))

    @property
    def plans(self):
        from .plans import Plans
        return self.memo("plans", lambda: Plans(self))
