"""Path summaries of codec functions: call policy (inline / atom / higher-order codec call),
memoisation of @cache'd factories, and exploration entry points.

Call policy (DESIGN.md, E2 "summaries, not path products"):
  * first-order call (callee bound statically at module level): inlined, unless the
    callee's own summary is an *atom* (checked exact read, varint reader, varint writer) --
    then one atom effect is emitted;
  * higher-order call (callee is a value: parameter, captured variable, container element)
    that passes a stream: emitted as a `codec` effect; the callee value is summarised
    separately and composed at the descriptor level.
"""
from __future__ import annotations

from .interp_base import *  # noqa: F401,F403
from .interp_base import Limit, Raised, Run, Path, NeedInline
from .interp_core import is_concrete


def has_stream(args, kwargs):
    return any(isinstance(a, StreamV) for a in list(args) + list(kwargs.values()))


class Analyzer:
    def __init__(self, interp):
        self.I = interp
        self.memo_cached: dict = {}
        self.atoms: dict = {}  # key -> atom spec | None
        self.in_progress: set = set()
        self.summaries: dict = {}
        self.stats = {"paths": 0, "summaries": 0, "atom_calls": 0, "codec_calls": 0, "inlined": 0}
        self.log: dict = {}  # (direction, kind, stream kind, site, detail) -> count
        self.raises: dict = {}  # (direction, exception ref, site, root) -> count
        self.handled: dict = {}
        self.functions: set = set()
        self.direction = "?"
        self.root = "?"
        self.path_base = 0
        self.inline: set = set()  # call sites (node ids) of higher-order calls that must be inlined in the current exploration
        self.codec_sites: dict = {}
        self.fault = None  # None | "underflow" | "io": fork an exception at every stream operation (thorough tier)
        interp.stream_fault_hook = self.stream_fault
        interp.call_hook = self.hook
        interp.enter_hook = self.functions.add

    # ------------------------------------------------------------------ hook
    def hook(self, fn, args, kwargs, run, node, higher_order):
        I = self.I
        f = fn.func if isinstance(fn, BoundV) else fn
        if not isinstance(f, FuncV):
            # a reader/writer handed around as a value need not be a plain function: functools.partial over one, or an instance of a
            # private callable class, is the same thing to its caller -- one opaque codec call on the stream
            if higher_order and id(node) not in self.inline and isinstance(fn, (PartialV, InstV)) and callable_target(fn) is not None \
                    and has_stream(args, kwargs):
                self.stats["codec_calls"] += 1
                streams = [a for a in list(args) + list(kwargs.values()) if isinstance(a, StreamV)]
                others = [a for a in args if not isinstance(a, StreamV)] + [v for v in kwargs.values() if not isinstance(v, StreamV)]
                term = ("codec", run.fresh_wire(), fn.uid)
                self.codec_sites[term] = id(node)
                run.emit("codec", streams[0], fn, tuple(others), term, I.site(node))
                self.maybe_fault(run, "codec", term, I.site(node))
                self.codec_may_raise(run, term, I.site(node))
                return Sym(term, "any", opaque_none=True, maybe_none=True, codec=fn)
            return NotImplemented
        if f.uid in I.cached_functions and not has_stream(args, kwargs):
            try:
                key = (f.uid, tuple(self.ckey(a) for a in args), tuple(sorted((k, self.ckey(v)) for k, v in kwargs.items())))
            except TypeError:
                return NotImplemented
            if key in self.memo_cached:
                return self.memo_cached[key]
            # functools.cache stores only successful results
            saved = I.call_hook
            v = I.call_function(f, ([fn.self_] if isinstance(fn, BoundV) else []) + list(args), kwargs, run, node)
            self.memo_cached[key] = v
            return v
        if not has_stream(args, kwargs):
            return NotImplemented
        if isinstance(fn, BoundV):
            return NotImplemented
        if higher_order and id(node) in self.inline:
            higher_order = False
        if higher_order:
            self.stats["codec_calls"] += 1
            idx = len(run.effects)
            streams = [a for a in list(args) + list(kwargs.values()) if isinstance(a, StreamV)]
            others = [a for a in args if not isinstance(a, StreamV)] + [v for v in kwargs.values() if not isinstance(v, StreamV)]
            term = ("codec", run.fresh_wire(), f.uid)
            self.codec_sites[term] = id(node)
            run.emit("codec", streams[0], f, tuple(others), term, I.site(node))
            self.maybe_fault(run, "codec", term, I.site(node))
            self.codec_may_raise(run, term, I.site(node))
            return Sym(term, "any", opaque_none=True, maybe_none=True, codec=f)
        atom = self.atom_for(f, args, kwargs, node, run)
        if atom is not None:
            self.stats["atom_calls"] += 1
            return self.emit_atom(atom, f, args, kwargs, run, node)
        self.stats["inlined"] += 1
        return NotImplemented

    CODEC_RAISES = {"r": ("kio.serial.errors:BufferUnderflow", "kio.serial.errors:UnexpectedNull", "kio.serial.errors:OutOfBoundValue",
                          "UnicodeDecodeError", "ValueError", "OverflowError"),
                    "w": ("kio.serial.errors:OutOfBoundValue", "TypeError", "struct.error", "UnicodeEncodeError", "OverflowError")}

    def codec_may_raise(self, run, term, site):
        """A reader/writer passed in as a value is not followed, but it may raise what readers/writers document.  When the call sits in
        a `try` whose handler catches one of those, the raising case is a path of its own: the handler body must be explored."""
        I = self.I
        stack = getattr(I, "catch_stack", None)
        if not stack:
            return
        for ref in self.CODEC_RAISES.get(self.direction, ()):
            try:
                if ":" in ref:
                    mod, name = ref.split(":")
                    cls = I.module(mod).env.vars.get(name)
                else:
                    cls = LibClass.get(ref)
            except (Raised, Limit):
                continue
            if cls is None or not any(I.exc_matches(cls, ht) for hts in stack for ht in hts):
                continue
            if run.decide(("codec-raises", ref, term), site):
                args = ("utf-8", b"\xff", 0, 1, "invalid start byte") if ref == "UnicodeDecodeError" else \
                    ("utf-8", "\udcff", 0, 1, "surrogates not allowed") if ref == "UnicodeEncodeError" else ("raised by the field codec",)
                raise Raised(InstV(cls, {"args": args}), site=site)

    # ------------------------------------------------------------------ fault injection (E5, thorough)
    def fault_exc(self, kind):
        I = self.I
        if kind == "underflow":
            cls = I.module("kio.serial.errors").env.vars["BufferUnderflow"]
        else:
            cls = LibClass.get("OSError")
        return InstV(cls, {"args": ("injected fault",), "__injected__": True})

    def maybe_fault(self, run, what, term, site):
        """At a stream operation: one path on which the operation raises (short read / I/O error)."""
        if self.fault is None or self.in_progress:
            return
        if self.fault == "underflow" and what not in ("read", "codec"):
            return
        if run.decide(("fault", self.fault, what, term), site):
            run.emit("fault", self.fault, what, site)
            raise Raised(self.fault_exc(self.fault), site=site)

    def stream_fault(self, run, s, what, term, site):
        if what == "read" and self.fault == "underflow":
            return  # a raw read does not raise on a short result; only checked reads do
        self.maybe_fault(run, what, term, site)

    def ckey(self, v):
        if isinstance(v, (int, str, bytes, bool, float)) or v is None:
            return ("k", v)
        if isinstance(v, Obj):
            return ("o", id(v))
        if isinstance(v, tuple):
            return tuple(self.ckey(x) for x in v)
        raise TypeError("unhashable")

    # ------------------------------------------------------------------ atoms
    def abstract_args(self, f: FuncV, args, kwargs, run=None):
        """Bind and abstract arguments: streams -> a fresh param stream, symbols -> typed
        parameter symbols (so that the summary is reusable), constants stay."""
        a = f.node.args
        names = [p.arg for p in a.posonlyargs + a.args]
        if a.vararg is not None or a.kwarg is not None or len(args) > len(names):
            return None, None
        bound = dict(zip(names, args))
        bound.update(kwargs)
        nd = len(f.defaults)
        for p, d in zip(names[len(names) - nd:], f.defaults):
            bound.setdefault(p, d)
        for p, d in zip(a.kwonlyargs, list(f.kwdefaults or []) + [None] * len(a.kwonlyargs)):  # keyword-only parameters are parameters too
            names.append(p.arg)
            if p.arg not in bound and a.kw_defaults[a.kwonlyargs.index(p)] is not None:
                bound[p.arg] = d
        if set(bound) - set(names):
            return None, None
        sig, out = [], {}
        for p in names:
            if p not in bound:
                return None, None
            v = bound[p]
            if isinstance(v, StreamV):
                sig.append((p, "stream"))
                out[p] = StreamV("param")
            elif isinstance(v, Sym):
                k = self.I.kind_of(v, Run()) if False else v.kind
                _, lo, hi = self.I.int_parts(v, run)
                if k == "int":
                    term = ("param", p)
                    # summarised for any non-negative integer (70 bits = uvarlong): one summary for all
                    # widths.  Whether the actual argument is non-negative is a call-site obligation,
                    # recorded by emit_atom as a 'precondition' note when it cannot be shown.
                    sig.append((p, "int", 0, None))
                    out[p] = Sym(term, "int", lo=0, bv=BV.atom(term, 70, False), hi=(1 << 70) - 1)
                else:
                    return None, None
            elif isinstance(v, (int, str, bytes, bool)) or v is None:
                sig.append((p, "k", v))
                out[p] = v
            else:
                return None, None
        return tuple(sig), out

    def atom_for(self, f: FuncV, args, kwargs, node, run=None):
        sig, absargs = self.abstract_args(f, args, kwargs, run)
        if sig is None:
            return None
        key = (f.uid, sig)
        if key in self.atoms:
            return self.atoms[key]
        if key in self.in_progress:
            return None
        self.in_progress.add(key)
        try:
            try:
                paths = self.explore_call(f, absargs)
            except Limit:
                paths = None
            atom = self.classify_atom(f, absargs, paths) if paths is not None else None
        finally:
            self.in_progress.discard(key)
        self.atoms[key] = atom
        return atom

    def explore_call(self, f: FuncV, kwargs) -> list[Path]:
        I = self.I
        paths = I.explore(lambda run: I.call_function(f, [], dict(kwargs), run, None), max_paths=600)
        self.stats["paths"] += len(paths)
        self.stats["summaries"] += 1
        self.record(paths)
        return paths

    # ------------------------------------------------------------------ effect log (E4 / E5 input)
    def exc_ref(self, cls):
        return cls.name if isinstance(cls, LibClass) else cls.ref

    def record_effects(self, effects, facts, outcome, value):
        d = self.direction
        for e in effects:
            k = e[0]
            if k in ("read", "xread", "write", "wvarint", "varint", "seek", "tell", "getvalue", "close", "flush"):
                s = e[1]
                site = e[-1]
                detail = ""
                if k == "read":
                    n = e[2]
                    detail = "size=None" if n is None else ("size=const" if not isinstance(n, Sym) else "size=expr")
                    w = e[3]
                    checked = any(f[1] and f[0] in (("eq", ("len", w), term_of(n)), ("eq", term_of(n), ("len", w))) for f in facts)
                    used = self.term_used(w, effects, value, after=e)
                    detail += ";checked" if checked else (";unchecked-used" if used and outcome in ("return", "next") else ";unchecked-unused")
                elif k == "write":
                    b = e[2]
                    if isinstance(b, bytes):
                        detail = "bytes"
                    elif isinstance(b, Sym):
                        kd = self.I.kind_of(b, Run())
                        detail = "bytes" if kd == "bytes" else f"non-bytes:{kd}:{b.term[0]}"
                    else:
                        detail = f"non-bytes:{type(b).__name__}"
                    if self.term_used(e[3], effects, value, after=e):
                        detail += ";result-used"
                self.bump((d, k, s.kind, site, detail))
                if s.kind == "local" and s.uid < self.path_base and k in ("write", "wvarint", "seek", "read", "xread"):
                    # a scratch stream that existed before this call (captured by the closure / module level)
                    self.bump((d, "mutate", "StreamV", site, f"{k};pre-existing"))
            elif k == "stream-other":
                self.bump((d, "other:" + e[2], e[1].kind, e[-1], ""))
                if e[1].kind == "local" and e[1].uid < self.path_base:
                    self.bump((d, "mutate", "StreamV", e[-1], f"{e[2]};pre-existing"))
            elif k == "alloc":
                self.bump((d, "alloc", "local", e[2], "with-initial-bytes" if e[3] is not None else ""))
            elif k == "codec":
                self.bump((d, "codec", e[1].kind, e[-1], ""))
            elif k == "mutate":
                pre = getattr(e[1], "uid", 0) < self.path_base
                self.bump((d, "mutate", type(e[1]).__name__, e[3], f"{e[2]};{'pre-existing' if pre else 'local'}"))
            elif k in ("raise-site", "may-raise"):
                key = (d, e[1], e[2], self.root, k)
                self.raises[key] = self.raises.get(key, 0) + 1
            elif k == "repeat":
                for facts2, effs2, out2, val2 in e[2]:
                    self.record_effects(effs2, list(facts) + list(facts2), out2, val2)
                    if out2 == "raise":
                        key = (d, self.exc_ref(val2.cls), val2.attrs.get("__site__", ""), self.root, "raise")
                        self.raises[key] = self.raises.get(key, 0) + 1

    def term_used(self, w, effects, value, after) -> bool:
        def has(t):
            if t == w:
                return True
            if isinstance(t, tuple):
                return any(has(x) for x in t)
            return False
        seen = False
        for e in effects:
            if e is after:
                seen = True
                continue
            if not seen:
                continue
            for x in e[1:]:
                if isinstance(x, (Sym, tuple)) and has(term_of(x) if not isinstance(x, tuple) else x):
                    return True
        if value is not None and not isinstance(value, Obj):
            return has(term_of(value))
        if isinstance(value, InstV):
            return has(term_of(value))
        return False

    def bump(self, key):
        self.log[key] = self.log.get(key, 0) + 1

    def record(self, paths):
        for p in paths:
            self.record_effects(p.effects, p.facts, p.outcome, p.value)
            if p.outcome == "raise":
                key = (self.direction, self.exc_ref(p.value.cls), p.value.attrs.get("__site__", ""), self.root, "raise")
                self.raises[key] = self.raises.get(key, 0) + 1
            for n in p.notes:
                if n and n[0] == "handled":
                    k = (self.direction, n[1], n[2])
                    self.handled[k] = self.handled.get(k, 0) + 1

    def classify_atom(self, f, absargs, paths):
        streams = [p for p, v in absargs.items() if isinstance(v, StreamV)]
        if len(streams) != 1:
            return None
        s = absargs[streams[0]]
        # --- checked exact read: read(n) ; len(result) != n -> raise ; return result -----------
        ints = [p for p, v in absargs.items() if (isinstance(v, Sym) and v.kind == "int") or (isinstance(v, int) and not isinstance(v, bool))]
        if len(paths) == 2 and len(ints) == 1:
            n = absargs[ints[0]]
            ok_paths = [p for p in paths if p.outcome == "return"]
            bad_paths = [p for p in paths if p.outcome == "raise"]
            if len(ok_paths) == 1 and len(bad_paths) == 1:
                okp, badp = ok_paths[0], bad_paths[0]
                reads = [e for e in okp.effects if e[0] == "read"]
                stream_effs = [e for e in okp.effects if e[0] in ("read", "write", "seek", "tell", "getvalue", "stream-other", "codec")]
                nterm = term_of(n)
                if len(reads) == 1 and len(stream_effs) == 1 and reads[0][1] is s and term_of(reads[0][2]) == nterm:
                    w = reads[0][3]
                    want = ("eq", ("len", w), nterm)
                    want2 = ("eq", nterm, ("len", w))
                    if isinstance(okp.value, Sym) and okp.value.term == w and any(f[0] in (want, want2) and f[1] for f in okp.facts) \
                            and [e[:3] for e in badp.effects if e[0] == "read"] == [reads[0][:3]]:
                        return {"kind": "xread", "fn": f.ref, "stream_param": streams[0], "size_param": ints[0],
                                "exc": badp.value.cls, "line": f.node.lineno}
        # --- varint reader: k sequential exact 1-byte reads with early exits ---------------------
        if not [p for p in ints if isinstance(absargs[p], Sym)] and len(absargs) >= 1:
            spec = self.classify_varint_reader(f, s, paths)
            if spec is not None:
                return spec
        # --- varint writer -----------------------------------------------------------------------
        if len(ints) == 1 and isinstance(absargs[ints[0]], Sym):
            spec = self.classify_varint_writer(f, s, absargs[ints[0]], ints[0], streams[0], paths)
            if spec is not None:
                return spec
        return None

    def classify_varint_reader(self, f, s, paths):
        rets = [p for p in paths if p.outcome == "return"]
        raises = [p for p in paths if p.outcome == "raise"]
        if len(rets) < 2:
            return None
        by_len = {}
        for p in rets:
            effs = [e for e in p.effects if e[0] in ("xread", "read", "write", "codec", "varint", "seek", "tell", "stream-other")]
            if not effs or any(e[0] != "xread" or e[2] != 1 or e[1] is not s for e in effs):
                return None
            if not isinstance(p.value, Sym) and not isinstance(p.value, int):
                return None
            by_len[len(effs)] = p
        if sorted(by_len) != list(range(1, len(rets) + 1)):
            return None
        out = []
        for k in range(1, len(rets) + 1):
            p = by_len[k]
            wires = [e[3] for e in p.effects if e[0] == "xread"]
            bv = p.value.info.get("bv") if isinstance(p.value, Sym) else BV.const(p.value)
            conds = [(f[0], f[1]) for f in p.facts]
            out.append({"wires": wires, "bv": bv, "conds": conds})
        overflow = [p for p in raises if len([e for e in p.effects if e[0] == "xread"]) == len(rets)]
        return {"kind": "varint", "fn": f.ref, "max_bytes": len(rets), "paths": out,
                "overflow_exc": [short_exc(p.value.cls) for p in overflow], "line": f.node.lineno}

    def classify_varint_writer(self, f, s, v, vparam, sparam, paths):
        """A function whose every path writes the (non-negative) value as a run of single bytes -- in a loop,
        through unrolled fast paths, several bytes per write() or one -- is a varint writer.  Whether the
        bytes are the canonical LEB128 ones is checked separately (varint.check_varint_writer)."""
        rets = [p for p in paths if p.outcome == "return"]
        if len(rets) < 2 or len(rets) != len(paths):
            return None
        if not any(e[0] == "write" for p in rets for e in p.effects):
            return None  # a pure wrapper around another varint writer is inlined, not an atom of its own
        out = []
        for p in rets:
            effs = [e for e in p.effects if e[0] in ("write", "read", "xread", "codec", "seek", "tell", "stream-other", "getvalue", "wvarint")]
            if len(effs) == 1 and effs[0][0] == "wvarint" and effs[0][1] is s and isinstance(effs[0][2], Sym) and effs[0][2].term == v.term:
                # the general case is delegated to another varint writer with the same value: splice its paths in
                inner = effs[0][3]
                it = inner["value_term"]
                V = BV.atom(v.term, 70, False)
                mapping = {(it, i): V.bit(i) for i in range(71)}

                def ren(t):
                    if t == it:
                        return v.term
                    if isinstance(t, tuple):
                        return tuple(ren(x) for x in t)
                    return t
                for ip in inner["paths"]:
                    out.append({"bytes": [b.subst(mapping) if b is not None and it != v.term else b for b in ip["bytes"]],
                                "conds": [(f_[0], f_[1]) for f_ in p.facts] + [(ren(c), pol) for c, pol in ip["conds"]]})
                continue
            if not effs or any(e[0] != "write" or e[1] is not s for e in effs):
                return None
            bvs = []
            for e in effs:
                b = e[2]
                if isinstance(b, Sym) and b.term[0] == "to_bytes" and b.info.get("len") == 1:
                    iv = b.info["intval"]
                    bvs.append(BV.const(iv) if isinstance(iv, int) else iv.info.get("bv"))
                elif isinstance(b, Sym) and b.term[0] == "bytes-of":
                    for iv in b.info["byte_values"]:
                        bvs.append(BV.const(iv) if isinstance(iv, int) else (iv.info.get("bv") if isinstance(iv, Sym) else None))
                elif isinstance(b, bytes):
                    bvs.extend(BV.const(x) for x in b)
                else:
                    return None
            out.append({"bytes": bvs, "conds": [(f_[0], f_[1]) for f_ in p.facts]})
        out.sort(key=lambda d: len(d["bytes"]))
        atom = {"kind": "wvarint", "fn": f.ref, "paths": out, "value_param": vparam, "stream_param": sparam,
                "value_term": v.term, "line": f.node.lineno, "max_bytes": max(len(d["bytes"]) for d in out)}
        from . import varint
        atom["problems"] = varint.check_varint_writer(atom)
        return atom

    def emit_atom(self, atom, f, args, kwargs, run, node):
        I = self.I
        a = f.node.args
        names = [p.arg for p in a.posonlyargs + a.args]
        bound = dict(zip(names, args))
        bound.update(kwargs)
        site = I.site(node)
        for pname in (atom.get("size_param"), atom.get("value_param")):
            v = bound.get(pname) if pname else None
            if isinstance(v, Sym):
                bv, lo, _ = I.int_parts(v, run)
                if not ((lo is not None and lo >= 0) or (bv is not None and bv.ext == BV.ZERO)):
                    run.emit("note", "precondition", site, f"{atom['kind']} argument {pname} is not shown to be non-negative")
        if atom["kind"] == "xread":
            s, n = bound[atom["stream_param"]], bound[atom["size_param"]]
            term = ("wire", run.fresh_wire(), s.uid)
            run.emit("xread", s, n, term, atom, site)
            self.maybe_fault(run, "read", term, site)
            return Sym(term, "bytes", len=n, stream=s)
        if atom["kind"] == "varint":
            s = next(v for v in bound.values() if isinstance(v, StreamV))
            term = ("varint", run.fresh_wire(), s.uid)
            run.emit("varint", s, atom, term, site)
            self.maybe_fault(run, "read", term, site)
            w = 7 * atom["max_bytes"]
            return Sym(term, "int", lo=0, hi=(1 << w) - 1, bv=BV.atom(term, w, False), varint=atom)
        if atom["kind"] == "wvarint":
            s, v = bound[atom["stream_param"]], bound[atom["value_param"]]
            run.emit("wvarint", s, v, atom, site)
            self.maybe_fault(run, "write", ("wvarint", len(run.effects), s.uid), site)
            return None
        raise Limit(f"unknown atom {atom['kind']}")

    # ------------------------------------------------------------------ entry points
    def paths(self, fn, args, kwargs=None, direction=None) -> list[Path]:
        I = self.I
        from .values import callable_target, PartialV, _ids
        self.path_base = next(_ids)
        prev = (self.direction, self.root)
        self.direction = direction or ("r" if len(args) == 1 else "w")
        self.root = getattr(fn, "ref", repr(fn))
        saved_inline = set(self.inline)
        try:
            for attempt in range(8):
                try:
                    ps = I.explore(lambda run: I.call(fn, list(args), dict(kwargs or {}), run, None))
                    break
                except NeedInline as ni:
                    # the caller inspects the result of a function value it was handed: summarise that callee in place
                    site = self.codec_sites.get(ni.uid)
                    if site is None or site in self.inline:
                        raise Limit(f"decision depends on an opaque codec result {ni.uid!r} that cannot be inlined")
                    self.inline.add(site)
            else:
                raise Limit("too many nested higher-order callees to inline")
            self.stats["paths"] += len(ps)
            self.stats["summaries"] += 1
            self.record(ps)
        finally:
            self.direction, self.root = prev
            self.inline = saved_inline
        return ps
