"""E1 -- static schema model (SSM): everything the generated package says, read from
syntax trees only.  The model is plain JSON-able data so that it can be cached by digest,
diffed against the frozen reference (E7) and fed to the abstract interpreter (E2).
"""
from __future__ import annotations

import ast
import json
import multiprocessing
import os
import re
from pathlib import Path

from .core import REPO, CACHE_DIR, AnalysisError

BUILTIN_NAMES = {"str", "bytes", "bool", "int", "float", "tuple", "list", "dict", "set", "frozenset",
                 "bytearray", "object", "type", "None", "True", "False"}


# ------------------------------------------------------------------ expression normaliser

def _qual(mod: str, attr: str | None) -> str:
    return f"{mod}:{attr}" if attr else f"{mod}:"


class Norm:
    """Normalise expressions to JSON trees with names resolved through the import table.
    Text, positions, quoting style and formatting do not survive -- only meaning does."""

    def __init__(self, modname: str, imports: dict, local_classes: set[str]):
        self.modname, self.imports, self.local = modname, imports, local_classes

    def name(self, ident: str):
        if ident in self.local:
            return {"n": f"{self.modname}:{ident}"}
        if ident in self.imports:
            m, a = self.imports[ident]
            return {"n": _qual(m, a)}
        if ident in BUILTIN_NAMES:
            return {"n": f"builtins:{ident}"}
        return {"n": f"?:{ident}"}

    def __call__(self, e):
        if e is None:
            return None
        if isinstance(e, ast.Constant):
            v = e.value
            if v is Ellipsis:
                return {"c": "..."}
            if isinstance(v, bytes):
                return {"b": v.hex()}
            if isinstance(v, (int, float, str, bool)) or v is None:
                return {"c": v}
            return {"src": ast.unparse(e)}
        if isinstance(e, ast.Name):
            return self.name(e.id)
        if isinstance(e, ast.Attribute):
            b = self(e.value)
            if isinstance(b, dict) and "n" in b and b["n"].endswith(":"):
                return {"n": b["n"] + e.attr}  # attribute of a module
            if isinstance(b, dict) and "n" in b:
                return {"n": b["n"] + "." + e.attr}
            return {"a": [b, e.attr]}
        if isinstance(e, ast.UnaryOp) and isinstance(e.op, ast.USub):
            v = self(e.operand)
            if isinstance(v, dict) and "c" in v and isinstance(v["c"], (int, float)) and not isinstance(v["c"], bool):
                return {"c": -v["c"]}
            return {"neg": v}
        if isinstance(e, ast.Call):
            kw = {}
            for k in e.keywords:
                kw[k.arg if k.arg is not None else "**"] = self(k.value)
            return {"call": self(e.func), "args": [self(a) for a in e.args], "kw": kw}
        if isinstance(e, ast.BinOp) and isinstance(e.op, ast.BitOr):
            return {"or": [self(e.left), self(e.right)]}
        if isinstance(e, ast.BinOp):
            l, r = self(e.left), self(e.right)
            if all(isinstance(x, dict) and "c" in x and isinstance(x["c"], int) for x in (l, r)):
                try:
                    op = {ast.Add: lambda a, b: a + b, ast.Sub: lambda a, b: a - b, ast.Mult: lambda a, b: a * b,
                          ast.Pow: lambda a, b: a ** b if 0 <= b < 200 else None}.get(type(e.op))
                    if op is not None:
                        v = op(l["c"], r["c"])
                        if v is not None:
                            return {"c": v}
                except Exception:
                    pass
            return {"bin": [type(e.op).__name__, l, r]}
        if isinstance(e, ast.Subscript):
            return {"sub": [self(e.value), self(e.slice)]}
        if isinstance(e, ast.Tuple):
            return {"t": [self(x) for x in e.elts]}
        if isinstance(e, ast.List):
            return {"l": [self(x) for x in e.elts]}
        if isinstance(e, ast.Dict):
            return {"d": [[self(k), self(v)] for k, v in zip(e.keys, e.values)]}
        return {"src": ast.unparse(e)}


def type_term(n):
    """Normalised annotation -> type term.
       {"opt": T} | {"tuple": T} | {"n": qualified-name} | {"bad": ...}"""
    if n is None:
        return {"bad": None}
    if "or" in n:
        l, r = n["or"]
        none = {"c": None}
        if r == none:
            return {"opt": type_term(l)}
        if l == none:
            return {"opt": type_term(r)}
        return {"bad": n}
    if "sub" in n:
        base, sl = n["sub"]
        if base == {"n": "builtins:tuple"} and isinstance(sl, dict) and "t" in sl and len(sl["t"]) == 2 \
                and sl["t"][1] == {"c": "..."}:
            return {"tuple": type_term(sl["t"][0])}
        return {"bad": n}
    if "n" in n:
        return {"n": n["n"]}
    return {"bad": n}


def show_type(t) -> str:
    if "opt" in t:
        return f"{show_type(t['opt'])} | None"
    if "tuple" in t:
        return f"tuple[{show_type(t['tuple'])}, ...]"
    if "n" in t:
        return t["n"].split(":")[-1]
    return f"<bad {t.get('bad')}>"


def show_norm(n) -> str:
    if n is None:
        return "MISSING"
    if "c" in n:
        return repr(n["c"])
    if "n" in n:
        return n["n"].split(":")[-1] if not n["n"].endswith(":") else n["n"]
    if "call" in n:
        args = [show_norm(a) for a in n["args"]] + [f"{k}={show_norm(v)}" for k, v in n["kw"].items()]
        return f"{show_norm(n['call'])}({', '.join(args)})"
    if "t" in n:
        return "(" + ", ".join(show_norm(x) for x in n["t"]) + ")"
    return json.dumps(n, sort_keys=True)


# ------------------------------------------------------------------ module extraction

def _imports_of(tree: ast.Module, modname: str, is_pkg: bool) -> dict:
    out = {}
    pkg = modname if is_pkg else modname.rpartition(".")[0]
    for n in tree.body:
        if isinstance(n, ast.Import):
            for a in n.names:
                if a.asname:
                    out[a.asname] = (a.name, None)
                else:
                    out[a.name.split(".")[0]] = (a.name.split(".")[0], None)
        elif isinstance(n, ast.ImportFrom):
            if n.level:
                parts = pkg.split(".")
                if n.level > 1:
                    parts = parts[: -(n.level - 1)]
                src = ".".join(parts + (n.module.split(".") if n.module else []))
            else:
                src = n.module or ""
            for a in n.names:
                out[a.asname or a.name] = (src, a.name)
    return out


def extract_version_module(path: str, modname: str) -> dict:
    """One generated `kio.schema.<api>.v<N>.<type>` module -> model."""
    text = Path(path).read_text()
    tree = ast.parse(text, filename=path)
    imports = _imports_of(tree, modname, False)
    local = {n.name for n in tree.body if isinstance(n, ast.ClassDef)}
    nx = Norm(modname, imports, local)
    mod = {"name": modname, "path": path, "doc": ast.get_docstring(tree), "imports": {k: list(v) for k, v in imports.items()},
           "classes": [], "other": [], "future": False}
    for i, st in enumerate(tree.body):
        if isinstance(st, ast.Expr) and isinstance(st.value, ast.Constant) and isinstance(st.value.value, str):
            continue
        if isinstance(st, (ast.Import, ast.ImportFrom)):
            continue
        if isinstance(st, ast.ClassDef):
            mod["classes"].append(_extract_class(st, nx, modname))
            continue
        mod["other"].append({"line": st.lineno, "src": ast.unparse(st)[:200]})
    return mod


def _extract_class(c: ast.ClassDef, nx: Norm, modname: str) -> dict:
    cls = {"name": c.name, "line": c.lineno, "decorators": [nx(d) for d in c.decorator_list],
           "bases": [nx(b) for b in c.bases], "keywords": {k.arg or "**": nx(k.value) for k in c.keywords},
           "classvars": {}, "classvar_order": [], "fields": [], "other": []}
    for st in c.body:
        if isinstance(st, ast.Expr) and isinstance(st.value, ast.Constant) and isinstance(st.value.value, str):
            continue  # docstring / field documentation string
        if isinstance(st, ast.AnnAssign) and isinstance(st.target, ast.Name):
            ann = nx(st.annotation)
            is_cv = _is_classvar(ann)
            name = st.target.id
            if is_cv:
                cls["classvars"][name] = {"ann": ann, "value": nx(st.value), "line": st.lineno,
                                         "src": ast.unparse(st.value) if st.value is not None else None,
                                         "ann_src": ast.unparse(st.annotation)}
                cls["classvar_order"].append(name)
                continue
            cls["fields"].append(_extract_field(st, nx, ann))
            continue
        cls["other"].append({"line": st.lineno, "kind": type(st).__name__, "src": ast.unparse(st)[:200],
                             "name": getattr(st, "name", None)})
    return cls


def _is_classvar(ann) -> bool:
    if ann is None:
        return False
    if ann.get("n") == "typing:ClassVar":
        return True
    if "sub" in ann and isinstance(ann["sub"][0], dict) and ann["sub"][0].get("n") == "typing:ClassVar":
        return True
    return False


def _extract_field(st: ast.AnnAssign, nx: Norm, ann) -> dict:
    f = {"name": st.target.id, "line": st.lineno, "ann": ann, "type": type_term(ann),
         "ann_src": ast.unparse(st.annotation), "has_value": st.value is not None, "field_call": False,
         "metadata": None, "metadata_norm": None, "default": None, "default_src": None, "field_kw": [],
         "default_factory": None}
    v = st.value
    if v is None:
        return f
    nv = nx(v)
    if isinstance(v, ast.Call) and isinstance(nv.get("call"), dict) and nv["call"].get("n") == "dataclasses:field":
        f["field_call"] = True
        f["field_kw"] = sorted(k.arg or "**" for k in v.keywords)
        if v.args:
            f["field_kw"].append("*positional*")
        for k in v.keywords:
            if k.arg == "metadata":
                f["metadata_norm"] = nx(k.value)
                try:
                    md = ast.literal_eval(k.value)
                    f["metadata"] = md if isinstance(md, dict) else {"<non-dict>": ast.unparse(k.value)}
                except Exception:
                    f["metadata"] = {"<non-literal>": ast.unparse(k.value)}
            elif k.arg == "default":
                f["default"] = nx(k.value)
                f["default_src"] = ast.unparse(k.value)
            elif k.arg == "default_factory":
                f["default_factory"] = ast.unparse(k.value)
    else:
        f["default"] = nv
        f["default_src"] = ast.unparse(v)
    return f


def extract_init_module(path: str, modname: str) -> dict:
    tree = ast.parse(Path(path).read_text(), filename=path)
    imports = _imports_of(tree, modname, True)
    all_names = None
    other = []
    for st in tree.body:
        if isinstance(st, (ast.Import, ast.ImportFrom)):
            continue
        if isinstance(st, ast.Assign) and len(st.targets) == 1 and isinstance(st.targets[0], ast.Name) \
                and st.targets[0].id == "__all__":
            try:
                all_names = list(ast.literal_eval(st.value))
            except Exception:
                all_names = ["<non-literal>"]
            continue
        if isinstance(st, ast.Expr) and isinstance(st.value, ast.Constant):
            continue
        other.append(ast.unparse(st)[:200])
    return {"name": modname, "imports": {k: list(v) for k, v in imports.items()}, "all": all_names, "other": other}


def _work(item):
    kind, path, modname = item
    try:
        if kind == "version":
            return (kind, modname, extract_version_module(path, modname))
        return (kind, modname, extract_init_module(path, modname))
    except SyntaxError as e:
        return ("error", modname, f"cannot parse {path}: {e}")


# ------------------------------------------------------------------ package-level tables

def _lit_index(node):
    """Evaluate the index literal: MappingProxyType(x) -> x, EntityType.x -> 'x'."""
    if isinstance(node, ast.Call) and ast.unparse(node.func).split(".")[-1] == "MappingProxyType" and len(node.args) == 1:
        return _lit_index(node.args[0])
    if isinstance(node, ast.Dict):
        out = {}
        for k, v in zip(node.keys, node.values):
            kk = _lit_index(k)
            if kk in out:
                raise AnalysisError(f"duplicate key {kk!r} in index literal at line {k.lineno}")
            out[kk] = _lit_index(v)
        return out
    if isinstance(node, ast.Attribute) and isinstance(node.value, ast.Name) and node.value.id == "EntityType":
        return "EntityType." + node.attr
    if isinstance(node, ast.Constant):
        return node.value
    if isinstance(node, ast.UnaryOp) and isinstance(node.op, ast.USub) and isinstance(node.operand, ast.Constant):
        return -node.operand.value
    raise AnalysisError(f"index literal: unsupported node {ast.dump(node)[:80]} at line {getattr(node, 'lineno', '?')}")


def extract_index(path: Path) -> dict:
    tree = ast.parse(path.read_text(), filename=str(path))
    out = {}
    for st in tree.body:
        tgt = None
        if isinstance(st, ast.AnnAssign) and isinstance(st.target, ast.Name):
            tgt, val = st.target.id, st.value
        elif isinstance(st, ast.Assign) and len(st.targets) == 1 and isinstance(st.targets[0], ast.Name):
            tgt, val = st.targets[0].id, st.value
        if tgt in ("api_key_map", "schema_name_map") and val is not None:
            out[tgt] = _lit_index(val)
            out[tgt + "_wrapped"] = isinstance(val, ast.Call) and ast.unparse(val.func).split(".")[-1] == "MappingProxyType"
            out[tgt + "_line"] = st.lineno
    for k in ("api_key_map", "schema_name_map"):
        if k not in out:
            raise AnalysisError(f"anchor vanished: {k} not found in {path}")
    # JSON keys must be strings
    out["api_key_map"] = {str(k): v for k, v in out["api_key_map"].items()}
    out["schema_name_map"] = {a: {str(v): {t: p for t, p in tm.items()} for v, tm in vm.items()}
                              for a, vm in out["schema_name_map"].items()}
    return out


def extract_errors(path: Path) -> list:
    tree = ast.parse(path.read_text(), filename=str(path))
    out = []
    for c in tree.body:
        if isinstance(c, ast.ClassDef) and c.name == "ErrorCode":
            for st in c.body:
                if isinstance(st, ast.Assign) and len(st.targets) == 1 and isinstance(st.targets[0], ast.Name):
                    try:
                        v = ast.literal_eval(st.value)
                    except Exception:
                        v = ("<non-literal>", ast.unparse(st.value))
                    out.append([st.targets[0].id, list(v) if isinstance(v, tuple) else v])
            return out
    raise AnalysisError(f"anchor vanished: class ErrorCode not found in {path}")


def extract_types(path: Path, modname="kio.schema.types") -> dict:
    tree = ast.parse(path.read_text(), filename=str(path))
    imports = _imports_of(tree, modname, False)
    nx = Norm(modname, imports, set())
    out = {}
    for c in tree.body:
        if isinstance(c, ast.ClassDef):
            out[c.name] = {"bases": [nx(b) for b in c.bases],
                           "body": [ast.unparse(s) for s in c.body if not (isinstance(s, ast.Expr) and isinstance(s.value, ast.Constant))]}
        elif isinstance(c, ast.Assign) and isinstance(c.value, ast.Call) and ast.unparse(c.value.func) == "NewType":
            out[c.targets[0].id] = {"newtype": nx(c.value.args[1]) if len(c.value.args) > 1 else None}
    return out


# ------------------------------------------------------------------ the model

VERSION_DIR = re.compile(r"^v(\d+)$")


def build_ssm(repo: Path = REPO, jobs: int | None = None) -> dict:
    root = repo / "src" / "kio" / "schema"
    if not root.is_dir():
        raise AnalysisError(f"anchor vanished: {root}")
    work = []
    api_pkgs = []
    stray = []
    for api_dir in sorted(root.iterdir()):
        if api_dir.name == "__pycache__":
            continue
        if not api_dir.is_dir():
            if api_dir.suffix == ".py" and api_dir.name not in ("__init__.py", "index.py", "errors.py", "types.py"):
                stray.append(str(api_dir.relative_to(repo)))
            continue
        api = api_dir.name
        api_pkgs.append({"api": api, "has_init": (api_dir / "__init__.py").exists()})
        for vdir in sorted(api_dir.iterdir()):
            if vdir.name == "__pycache__" or vdir.name == "__init__.py":
                continue
            if not vdir.is_dir() or not VERSION_DIR.match(vdir.name):
                stray.append(str(vdir.relative_to(repo)))
                continue
            for f in sorted(vdir.iterdir()):
                if f.name == "__pycache__":
                    continue
                if f.suffix != ".py":
                    stray.append(str(f.relative_to(repo)))
                    continue
                modbase = f"kio.schema.{api}.{vdir.name}"
                if f.name == "__init__.py":
                    work.append(("init", str(f), modbase))
                else:
                    work.append(("version", str(f), f"{modbase}.{f.stem}"))
    jobs = jobs or 1  # measured: sequential 1.8 s, a 16-process pool 5.8 s (fork cost dominates)
    if jobs > 1 and len(work) > 64:
        with multiprocessing.Pool(jobs) as pool:
            results = pool.map(_work, work, chunksize=32)
    else:
        results = [_work(w) for w in work]
    modules, inits = {}, {}
    for kind, modname, data in results:
        if kind == "error":
            raise AnalysisError(data)
        if kind == "version":
            data["path"] = str(Path(data["path"]).relative_to(repo))
            modules[modname] = data
        else:
            inits[modname] = data
    return {
        "modules": modules,
        "inits": inits,
        "api_packages": api_pkgs,
        "stray": stray,
        "index": extract_index(root / "index.py"),
        "errors": extract_errors(root / "errors.py"),
        "types": extract_types(root / "types.py"),
    }


def load_ssm(digest: str | None = None, repo: Path = REPO) -> dict:
    """Build the SSM, cached by content digest of the schema package."""
    if digest:
        p = CACHE_DIR / f"ssm-{digest[:32]}.json"
        if p.exists():
            try:
                return json.loads(p.read_text())
            except Exception:
                pass
    ssm = build_ssm(repo)
    if digest:
        try:
            CACHE_DIR.mkdir(exist_ok=True)
            tmp = CACHE_DIR / f".ssm-{os.getpid()}.tmp"
            tmp.write_text(json.dumps(ssm))
            os.replace(tmp, CACHE_DIR / f"ssm-{digest[:32]}.json")
        except OSError:
            pass
    return ssm


# ------------------------------------------------------------------ convenient views

class Schema:
    """Typed convenience view over the JSON SSM."""

    def __init__(self, ssm: dict):
        self.raw = ssm
        self.modules = ssm["modules"]
        self.classes: dict[str, dict] = {}
        for mname, m in self.modules.items():
            parts = mname.split(".")
            m["api"], m["version"], m["type"] = parts[2], int(parts[3][1:]), parts[4]
            for c in m["classes"]:
                c["module"] = mname
                c["key"] = f"{mname}:{c['name']}"
                self.classes[c["key"]] = c
        self.custom_types = {}
        for name, t in ssm["types"].items():
            b = t.get("bases")
            if b and len(b) == 1 and "n" in b[0]:
                self.custom_types[f"kio.schema.types:{name}"] = b[0]["n"]
        self.error_codes = {row[1][0]: row[0] for row in ssm["errors"]
                            if isinstance(row[1], list) and len(row[1]) == 2 and isinstance(row[1][0], int)}

    # class variable accessors -----------------------------------------------------
    @staticmethod
    def cv(cls: dict, name: str):
        v = cls["classvars"].get(name)
        return None if v is None else v["value"]

    @staticmethod
    def cv_const(cls: dict, name: str):
        """__flexible__ -> bool, __version__/__api_key__ -> int (through i16(...)), __type__ -> str."""
        v = Schema.cv(cls, name)
        if v is None:
            return None
        if "c" in v:
            return v["c"]
        if "call" in v and v["call"].get("n") == "kio.static.primitive:i16" and len(v["args"]) == 1 and not v["kw"] \
                and "c" in v["args"][0]:
            return v["args"][0]["c"]
        if "n" in v and v["n"].startswith("kio.static.constants:EntityType."):
            return v["n"].rsplit(".", 1)[1]
        if "n" in v:
            return v["n"]
        return {"unrecognised": v}

    def top_level(self, m: dict) -> list[dict]:
        return [c for c in m["classes"] if self.cv_const(c, "__type__") != "nested"]

    def is_entity_ref(self, t) -> bool:
        return "n" in t and t["n"] in self.classes

    def base_of(self, t):
        """strip opt/tuple: returns (base type term, is_array, outer_opt, inner_opt)."""
        outer = inner = arr = False
        if "opt" in t:
            outer, t = True, t["opt"]
        if "tuple" in t:
            arr, t = True, t["tuple"]
            if "opt" in t:
                inner, t = True, t["opt"]
        return t, arr, outer, inner
