"""Record batch v2 (kio.records): layouts, slot provenance, framing arithmetic, checksum
coverage and the flow of unchecked reads, derived from path summaries of
read_batch / read_record / read_header and write_new_batch / write_record / write_header."""
from __future__ import annotations

import struct as _struct

from .core import AnalysisError
from .descr import Canon, contains, linear
from .interp_base import *  # noqa: F401,F403
from .interp_base import Limit, Raised, Run

# --- specification (Kafka documentation, "Record Batch" / KIP-98) -----------------------------------
BATCH_SPEC = [("base_offset", ">q"), ("batch_length", ">i"), ("partition_leader_epoch", ">i"), ("magic", ">b"),
              ("crc", ">I"), ("attributes", ">h"), ("last_offset_delta", ">i"), ("base_timestamp", ">q"),
              ("max_timestamp", ">q"), ("producer_id", ">q"), ("producer_epoch", ">h"), ("base_sequence", ">i"),
              ("count", ">i")]
LENGTH_COUNTS_FROM = "partition_leader_epoch"   # batchLength counts from here to the end
CRC_COVERS_FROM = "attributes"                  # CRC-32C covers from here to the end
RECORD_SPEC = ["length:svarint", "attributes:>b", "timestamp_delta:svarlong", "offset_delta:svarint",
               "key:svarint-len,-1=null", "value:svarint-len,-1=null", "header_count:svarint", "headers*"]
MAGIC = 2

ZIGZAG_DEC = lambda x: ("xor", ("shr", x, ("k", 1)), ("neg", ("and", x, ("k", 1))))


def zigzag_enc(x, bits):
    return ("xor", ("shl", x, ("k", 1)), ("shr", x, ("k", bits - 1)))


class RecordsAnalysis:
    def __init__(self, ctx):
        self.ctx = ctx
        self.P = ctx.plans
        self.I, self.A = self.P.I, self.P.A
        try:
            self.rr = self.I.module("kio.records.readers")
            self.rw = self.I.module("kio.records.writers")
            self.rs = self.I.module("kio.records.schema")
        except (Raised, Limit) as e:
            raise AnalysisError(f"kio.records not understood: {e}")

    def fn(self, mod, name):
        f = mod.env.vars.get(name)
        if not isinstance(f, FuncV):
            raise AnalysisError(f"anchor vanished: {mod.name}.{name}")
        return f

    def cls(self, name):
        c = self.rs.env.vars.get(name)
        if not isinstance(c, ClassV):
            raise AnalysisError(f"anchor vanished: kio.records.schema.{name}")
        return c

    # ------------------------------------------------------------------ reading
    def read_paths(self, name, extra=()):
        f = self.fn(self.rr, name)
        try:
            return self.A.paths(f, [StreamV("param")] + list(extra), direction="r"), f
        except Limit as e:
            raise AnalysisError(f"kio.records.readers.{name} not understood: {e}")

    def raw_reads(self, paths, fn_ref):
        """Every unchecked raw read on every path with where its bytes go."""
        out = []

        def scan(effects, facts, outcome, value, depth=0):
            allocs = {id(e[1]): e for e in effects if e[0] == "alloc"}
            for i, e in enumerate(effects):
                if e[0] == "repeat":
                    for f2, e2, o2, v2 in e[2]:
                        scan(e2, list(facts) + list(f2), o2, v2, depth + 1)
                if e[0] != "read":
                    continue
                s, n, w, site = e[1], e[2], e[3], e[-1]
                checked = any(f[1] and f[0] in (("eq", ("len", w), term_of(n)), ("eq", term_of(n), ("len", w))) for f in facts)
                uses = set()
                for e2 in effects[i + 1:]:
                    if e2[0] == "alloc" and isinstance(e2[3], Sym) and e2[3].term == w:
                        uses.add("local-buffer")
                    elif any(isinstance(x, (Sym,)) and contains(x.term, w) for x in e2[1:] if not isinstance(x, (list, dict, str))):
                        uses.add("effect:" + e2[0])
                for f in facts:
                    if contains(f[0], w):
                        if contains(f[0], ("crc32c", w)):
                            uses.add("checksum")
                        elif f[0][0] in ("eq",) and ("k", b"") in (f[0][1], f[0][2]):
                            uses.add("compared-with-empty")
                        elif f[0][0] == "eq" and f[0][1][0] == "len" or (len(f[0]) > 2 and isinstance(f[0][2], tuple) and f[0][2][:1] == ("len",)):
                            uses.add("length-check")
                        else:
                            uses.add("condition")
                if outcome in ("return", "next") and value is not None:
                    vt = term_of(value)
                    if contains(vt, w):
                        stripped = strip(vt, ("crc32c", w))
                        if contains(stripped, w):
                            uses.add("returned-value")
                out.append({"site": site, "size": n, "checked": checked, "uses": sorted(uses), "outcome": outcome,
                            "stream": s.kind})
        for p in paths:
            scan(p.effects, p.facts, p.outcome, p.value)
        return out

    def batch_reader(self):
        paths, f = self.read_paths("read_batch")
        rets = [p for p in paths if p.outcome == "return"]
        if not rets:
            raise AnalysisError("read_batch has no returning path")
        if len(rets) > 1:
            # several accepting paths (e.g. a redundant re-check that forks on emptiness) are fine when they read and
            # return the same thing; the first one is then representative
            sums = {self._batch_summary(q) for q in rets}
            if len(sums) != 1:
                raise AnalysisError(f"read_batch has {len(rets)} returning paths that read or return different things")
        p = rets[0]
        cn = Canon()
        layout = []  # (stream label, size, wire term)
        crc_read, count_repeat, seeks, tells = None, None, [], []
        pos = {}
        for e in p.effects:
            if e[0] == "xread":
                lab = cn.stream(e[1])
                layout.append((lab, e[2], e[3], pos.get(lab, 0)))
                if isinstance(e[2], int):
                    pos[lab] = pos.get(lab, 0) + e[2]
            elif e[0] == "read":
                lab = cn.stream(e[1])
                layout.append((lab, ("raw", term_of(e[2])), e[3], pos.get(lab, 0)))
            elif e[0] == "seek":
                lab = cn.stream(e[1])
                seeks.append((lab, e[2]))
                if isinstance(e[2], int):
                    pos[lab] = e[2]
            elif e[0] == "repeat":
                if any(x[0] in ("xread", "read", "seek", "varint", "codec", "alloc") for b in e[2] for x in b[1]) and count_repeat is None:
                    count_repeat = e  # the loop that reads the records (later stream-free loops over them are not it)
            elif e[0] == "alloc":
                cn.stream(e[1])
        res = p.value
        fields = {}
        multi = {}  # wire term of one exact read -> the several-field format its bytes are unpacked with
        if isinstance(res, InstV):
            for name, v in res.attrs.items():
                t = term_of(v)
                if isinstance(t, tuple) and t[0] == "unpack":
                    codes = [c for c in t[1] if c.isalpha() or c == "?"]
                    if len(codes) > 1 and isinstance(t[3], int) and t[3] < len(codes):
                        # one read decoded by a several-field format: the field is code t[3] of it, at its offset in that read
                        order = t[1][0] if t[1][:1] in "<>!=@" else ""
                        multi.setdefault(t[2], t[1])
                        fields[name] = (order + codes[t[3]], ("part", t[2], t[3]))
                    else:
                        fields[name] = (t[1], t[2])
        if multi:
            import struct as _st
            split = []
            for lab, size, w, at in layout:
                fmt = multi.get(w)
                if fmt is None or not isinstance(size, int) or fmt[:1] not in "<>!" or _st.calcsize(fmt) != size:
                    split.append((lab, size, w, at))
                    continue
                order, off = fmt[0], 0
                for i, c in enumerate(ch for ch in fmt if ch.isalpha() or ch == "?"):
                    n = _st.calcsize(order + c)
                    split.append((lab, n, ("part", w, i), at + off))
                    off += n
            layout = split
        return {"fn": f, "path": p, "paths": paths, "layout": layout, "fields": fields, "seeks": seeks, "repeat": count_repeat,
                "result": res, "multi": multi}

    def _batch_summary(self, p):
        from .descr import event_of
        cn = Canon()
        evs = []
        for e in p.effects:
            if e[0] == "repeat" and not any(x[0] in ("xread", "read", "seek", "varint", "codec", "write", "wvarint", "alloc")
                                            for b in e[2] for x in b[1]):
                continue  # a loop that touches no stream (a comprehension over the records already read)
            if e[0] in ("xread", "read", "seek", "alloc", "repeat", "varint"):
                try:
                    evs.append(repr(event_of(e, cn))[:400] if e[0] != "repeat" else ("repeat", repr(cn.term(e[1]))))
                except Exception:  # noqa: BLE001
                    evs.append(e[0])
        res = p.value
        import re
        anon = lambda t: re.sub(r"\('list', \d+\)", "('list',)", t)  # identity of a local list is not part of what is returned
        flds = tuple(sorted((n, anon(repr(cn.term(term_of(v))))[:300]) for n, v in res.attrs.items())) if isinstance(res, InstV) else repr(res)
        return (tuple(map(str, evs)), flds)

    # ------------------------------------------------------------------ writing
    def write_paths(self, name, args):
        f = self.fn(self.rw, name)
        try:
            return self.A.paths(f, [StreamV("param")] + list(args), direction="w"), f
        except Limit as e:
            raise AnalysisError(f"kio.records.writers.{name} not understood: {e}")

    def new_batch_writer(self):
        nb = self.I.sym_of_type(("param", "new_batch"), self.cls("NewRecordBatch"))
        paths, f = self.write_paths("write_new_batch", [nb])
        return {"fn": f, "paths": paths, "param": nb}

    def record_writer(self):
        rec = self.I.sym_of_type(("param", "record"), self.cls("Record"))
        bt = Sym(("param", "base_timestamp"), "int", lo=-(2 ** 63), hi=2 ** 63 - 1)
        bo = Sym(("param", "base_offset"), "int", lo=-(2 ** 63), hi=2 ** 63 - 1)
        paths, f = self.write_paths("write_record", [rec, bt, bo])
        return {"fn": f, "paths": paths, "rec": rec, "bt": bt, "bo": bo}

    def record_reader(self):
        bt = Sym(("param", "base_timestamp"), "int", lo=-(2 ** 63), hi=2 ** 63 - 1)
        bo = Sym(("param", "base_offset"), "int", lo=-(2 ** 63), hi=2 ** 63 - 1)
        paths, f = self.read_paths("read_record", [bt, bo])
        return {"fn": f, "paths": paths, "bt": bt, "bo": bo}


def strip(t, sub):
    """Replace every occurrence of subterm `sub` by a marker."""
    if t == sub:
        return ("<stripped>",)
    if isinstance(t, tuple):
        return tuple(strip(x, sub) for x in t)
    return t


def sink_writes(path, stream_kind="param"):
    return [e for e in path.effects if e[0] in ("write", "wvarint") and e[1].kind == stream_kind]


def fmt_of_write(e):
    """(fmt | 'const:<hex>' | 'raw', value term) of a write effect."""
    if e[0] == "wvarint":
        return "varint", term_of(e[2])
    b = e[2]
    if isinstance(b, bytes):
        return "const:" + b.hex(), ("k", b)
    if isinstance(b, Sym):
        if b.term[0] == "pack" and len(b.term) == 3:
            return b.term[1], b.term[2]
        return "raw", b.term
    return "?", term_of(b)


def concrete_record_length_rows(RA):
    """write_record evaluated (E2) on concrete records whose timestamp / offset deltas sit on the boundaries where a varint grows by one
    byte (+-2**k, +-2**k +- 1): the zig-zag varint written first must equal the number of bytes written after it.  A finite set of
    cases, each a concrete counterexample when it fails.  Rows: {ok, case, message}; ok None = not decidable here (limit)."""
    import datetime as _dt
    I = RA.I
    f = RA.fn(RA.rw, "write_record")
    Rec, Hdr = RA.cls("Record"), RA.cls("RecordHeader")
    epoch = _dt.datetime(1970, 1, 1, tzinfo=_dt.timezone.utc)
    base_ts, base_off = 1_700_000_000_000, 1 << 40
    bounds = sorted({s * (1 << k) + d for k in range(0, 31) for s in (1, -1) for d in (-1, 0, 1)})
    cases = [(d, 0, b"k", b"v", ()) for d in bounds] + [(0, d, None, b"", ()) for d in bounds] + \
            [(-64, -8192, b"", None, ((b"h", b"x"), (b"", None))), (63, 64, b"x" * 63, b"y" * 64, ()), (0, 0, b"x" * 8191, b"y" * 8192, ())]

    def leb(u):
        out = bytearray()
        while True:
            b = u & 0x7F
            u >>= 7
            if u:
                out.append(b | 0x80)
            else:
                out.append(b)
                return bytes(out)
    rows = []
    for td, od, key, value, headers in cases:
        case = f"write_record(timestamp delta {td} ms, offset delta {od}, key {None if key is None else len(key)} B, value {None if value is None else len(value)} B, {len(headers)} header(s))"
        try:
            hs = tuple(I.call(Hdr, [], {"key": hk, "value": hv}, Run(), None) for hk, hv in headers)
            rec = I.call(Rec, [], {"attributes": 0, "timestamp": epoch + _dt.timedelta(milliseconds=base_ts + td), "offset": base_off + od,
                                   "key": key, "value": value, "headers": hs}, Run(), None)
            run = Run()
            sink = StreamV("param")
            I.call(f, [sink, rec, base_ts, base_off], {}, run, None)
        except Raised as r:
            rows.append({"ok": False, "case": case, "message": f"{case} raises {short_exc(r.cls)} at {r.site}"})
            continue
        except Limit as e:
            rows.append({"ok": None, "case": case, "message": f"not evaluated: {e}"})
            break

        def flatten(uid, upto):
            out = b""
            for i, e in enumerate(run.effects[:upto]):
                if e[0] in ("write", "wvarint") and getattr(e[1], "uid", None) == uid:
                    d = e[2]
                    if e[0] == "wvarint":
                        if isinstance(d, Sym):
                            # a value computed from the position / size of a local buffer: resolved from what was written to it so far
                            def resolve(t):
                                if isinstance(t, tuple) and len(t) == 3 and t[0] == "tell" and isinstance(t[2], int):
                                    inner_ = flatten(t[1], t[2])
                                    return ("k", len(inner_)) if inner_ is not None else t
                                if isinstance(t, tuple) and len(t) == 2 and t[0] == "len" and isinstance(t[1], tuple) and t[1][:1] == ("contents",):
                                    inner_ = flatten(t[1][1], t[1][2] if len(t[1]) > 2 and isinstance(t[1][2], int) else i)
                                    return ("k", len(inner_)) if inner_ is not None else t
                                if isinstance(t, tuple):
                                    return tuple(resolve(x) for x in t)
                                return t
                            from .grammar import eval_int_term
                            d = eval_int_term(resolve(d.term), 0)
                        if not (isinstance(d, int) and not isinstance(d, bool) and d >= 0):
                            return None
                        out += leb(d)
                    elif isinstance(d, bytes):
                        out += d
                    elif isinstance(d, Sym) and isinstance(d.term, tuple) and d.term[:1] == ("contents",):
                        inner = flatten(d.term[1], d.term[2] if len(d.term) > 2 and isinstance(d.term[2], int) else i)
                        if inner is None:
                            return None
                        out += inner
                    else:
                        return None
            return out
        data = flatten(sink.uid, len(run.effects))
        if data is None:
            rows.append({"ok": None, "case": case, "message": "the bytes written for a concrete record are not constant"})
            break
        u, shift, n = 0, 0, 0
        for b in data[:10]:
            u |= (b & 0x7F) << shift
            shift += 7
            n += 1
            if not b & 0x80:
                break
        length = (u >> 1) ^ -(u & 1)
        rows.append({"ok": length == len(data) - n, "case": case,
                     "message": f"{case}: the length prefix says {length}, {len(data) - n} bytes follow -- a conforming decoder takes the record's end "
                                f"at the wrong place and misreads the next record"})
    return rows
