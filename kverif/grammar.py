"""Neutral wire-grammar form shared by reader descriptors, writer descriptors and the
specification (E3), and the comparisons W = S, R >= S, W ~ R."""
from __future__ import annotations

import struct as _struct

from . import timeflow
from .descr import leb128

# ------------------------------------------------------------------ E3: the specification

SPEC_FIXED = {"bool": ">?", "int8": ">b", "int16": ">h", "int32": ">i", "int64": ">q", "uint8": ">B", "uint16": ">H",
              "uint32": ">I", "uint64": ">Q", "float64": ">d", "error_code": ">h", "timedelta_i32": ">i",
              "timedelta_i64": ">q", "datetime_i64": ">q"}
SPEC_CONV = {"error_code": "enum:kio.schema.errors:ErrorCode", "timedelta_i32": "timedelta_ms",
             "timedelta_i64": "timedelta_ms", "datetime_i64": "datetime_ms"}
SPEC_LEN = {"string": (">h", "text"), "bytes": (">i", "bytes"), "records": (">i", "bytes")}
KAFKA_TYPES = set(SPEC_FIXED) | set(SPEC_LEN) | {"uuid"}
# kafka type -> python annotation base the generator/spec assigns (through custom types)
SPEC_PYTYPE = {"bool": "builtins:bool", "int8": "kio.static.primitive:i8", "int16": "kio.static.primitive:i16",
               "int32": "kio.static.primitive:i32", "int64": "kio.static.primitive:i64",
               "uint8": "kio.static.primitive:u8", "uint16": "kio.static.primitive:u16",
               "uint32": "kio.static.primitive:u32", "uint64": "kio.static.primitive:u64",
               "float64": "kio.static.primitive:f64", "string": "builtins:str", "bytes": "builtins:bytes",
               "records": "kio.static.primitive:Records", "uuid": "uuid:UUID",
               "error_code": "kio.schema.errors:ErrorCode", "timedelta_i32": "kio.static.primitive:i32Timedelta",
               "timedelta_i64": "kio.static.primitive:i64Timedelta", "datetime_i64": "kio.static.primitive:TZAware"}
# types with a wire-level null (protocol guide): strings, bytes, records, arrays, structs (KIP-893);
# kio additionally models the all-zero UUID and datetime -1 as None.
NULLABLE_KAFKA = {"string", "bytes", "records", "uuid", "datetime_i64"}


def null_bytes(prefix, value: int) -> str:
    if prefix["k"] == "fixed":
        return _struct.pack(prefix["fmt"], value).hex()
    return leb128(value).hex()


def spec_prefix(flexible: bool, legacy_fmt: str):
    return {"k": "varint", "max": 5} if flexible else {"k": "fixed", "fmt": legacy_fmt}


def spec_primitive(kafka_type: str, flexible: bool, nullable: bool):
    """Grammar the protocol prescribes for one primitive value."""
    if kafka_type in SPEC_FIXED:
        d = {"k": "scalar", "prefix": {"k": "fixed", "fmt": SPEC_FIXED[kafka_type]}, "conv": SPEC_CONV.get(kafka_type, "identity"),
             "null": None}
        if nullable:
            if kafka_type == "datetime_i64":
                d["null"] = _struct.pack(">q", -1).hex()
            else:
                return {"k": "invalid", "why": f"{kafka_type} has no wire-level null"}
        return d
    if kafka_type in SPEC_LEN:
        fmt, payload = SPEC_LEN[kafka_type]
        prefix = spec_prefix(flexible, fmt)
        bias = 1 if flexible else 0
        return {"k": "lenpref", "prefix": prefix, "bias": bias, "payload": "text:utf-8" if payload == "text" else "bytes",
                "null": null_bytes(prefix, 0 if flexible else -1) if nullable else None}
    if kafka_type == "uuid":
        return {"k": "uuid", "null": "00" * 16}
    return {"k": "invalid", "why": f"unknown kafka type {kafka_type!r}"}


def spec_array(flexible: bool, nullable: bool, item):
    prefix = spec_prefix(flexible, ">i")
    return {"k": "array", "prefix": prefix, "bias": 1 if flexible else 0,
            "null": null_bytes(prefix, 0 if flexible else -1) if nullable else None, "item": item}


def spec_struct(class_key: str, nullable: bool):
    if nullable:
        return {"k": "marked", "prefix": {"k": "fixed", "fmt": ">b"}, "null": "ff", "present": "01",
                "inner": {"k": "struct", "class": class_key}}
    return {"k": "struct", "class": class_key}


def spec_field(schema, cls: dict, f: dict, flexible_override=None, is_request_header_client_id=False):
    """Spec grammar of one field of one class, from the static schema model."""
    flexible = bool(schema.cv_const(cls, "__flexible__")) if flexible_override is None else flexible_override
    base, arr, outer, inner = schema.base_of(f["type"])
    md = f.get("metadata") or {}
    tagged = "tag" in md
    if "bad" in base:
        return {"k": "invalid", "why": "unsupported annotation"}
    if schema.is_entity_ref(base):
        item = spec_struct(base["n"], nullable=(outer and not arr and not tagged) or (inner and arr))
        if arr:
            return spec_array(flexible, outer, spec_struct(base["n"], inner))
        # a tagged struct is never marker-prefixed by the spec: absence is expressed by the tag
        return item
    kt = md.get("kafka_type")
    if kt is None:
        return {"k": "invalid", "why": "primitive field without kafka_type"}
    if is_request_header_client_id:
        # RequestHeader.client_id: always the legacy nullable string, in every header version
        return spec_primitive("string", False, True)
    if arr:
        return spec_array(flexible, outer, spec_primitive(kt, flexible, inner or kt == "uuid"))
    nullable = (outer and not tagged) or kt == "uuid"
    return spec_primitive(kt, flexible, nullable)


# ------------------------------------------------------------------ neutralisation
PENDING_LIMITS: list = []   # conversions the comparison could not name; drained into the report as analysis limits


def _unnamed(conv):
    """Name of a conversion the tables do not know.  Integer arithmetic is compared by its normal form ("conv:(X - 1)"); a conversion
    through datetime/timedelta operations that timeflow cannot classify is *unknown*: comparing it with anything is not a verdict."""
    rc = repr(conv)
    timey = any(w in rc for w in ("timedelta", "datetime", "'timestamp'", "'total_seconds'", "'microsecond'", "'fromtimestamp'", "'replace'"))
    return ("unknown:" if timey else "conv:") + timeflow.show(conv)


def _conv_differs(a, b, where):
    """True when two conversion names differ in a way that is a verdict.  An unknown (time) conversion is recorded as a limit instead."""
    if a == b:
        return False
    for x in (a, b):
        if isinstance(x, str) and x.startswith("unknown:"):
            msg = f"{where}: time conversion not understood: {x[8:][:160]}"
            if msg not in PENDING_LIMITS:
                PENDING_LIMITS.append(msg)
            return False
    return True


def conv_name_reader(conv, prefix):
    if conv == ["X"]:
        return "identity"
    if isinstance(conv, list) and conv and conv[0] == "enum-lookup":
        return f"enum:{conv[1]}"
    bits = {">i": 32, ">q": 64}.get(prefix.get("fmt"), 64)
    q = timeflow.analyse(conv, timeflow.Q("int", unit="ms", gran="1ms"))
    if q is not None:
        if q.carrier == "timedelta" and q.unit == "ms":
            return "timedelta_ms"
        if q.carrier == "datetime":
            # the chain must interpret the integer as milliseconds since the epoch
            ok = any(o.startswith("/ 1000") for o in q.ops) and any(o.startswith("fromtimestamp(float)") for o in q.ops) \
                or any(o == "epoch + timedelta" for o in q.ops) and any(o == "timedelta(milliseconds=int)" for o in q.ops)
            if ok:
                return "datetime_ms"
    return _unnamed(conv)


def conv_name_writer(conv, prefix):
    if conv == ["X"]:
        return "identity"
    if conv == ["attr", ["X"], "value"]:
        return "enum"
    order = (("duration", "timedelta_ms"), ("timestamp", "datetime_ms"))
    rc = repr(conv)
    if "datetime.datetime(" in rc or "'timestamp'" in rc or "'microsecond'" in rc or "'astimezone'" in rc or "'utcoffset'" in rc:
        # operations only a point in time has (an epoch constant, timestamp(), wall-clock fields): the value is a datetime, not a duration
        order = order[1:]
    elif "'total_seconds'" in rc or "'days'" in rc or "'seconds'" in rc:
        order = order[:1]
    for kind, name in order:
        carrier = "timedelta" if kind == "duration" else "datetime"
        q = timeflow.analyse(conv, timeflow.Q(carrier, gran="1us"))
        if q is not None and q.carrier == "int" and q.unit == "ms":
            uses = " ".join(q.ops)
            if kind == "duration" and ("total_seconds" in uses or "// (integer floor)" in uses or "timedelta / timedelta" in uses):
                return name
            if kind == "timestamp" and ("timestamp()" in uses or "datetime - epoch" in uses):
                return name
    if isinstance(conv, list) and conv and conv[0] == "cases":
        names = {conv_name_writer(c[1], prefix) for c in conv[1]}
        if len(names) == 1:
            return names.pop()
    return _unnamed(conv)


def neutral_prefix(p):
    if p["k"] == "varint":
        out = {"k": "varint", "max": p.get("max", 5)}
        if p.get("noncanonical"):
            out["noncanonical"] = p["noncanonical"]
        return out
    if p["k"] == "single-byte":
        return {"k": "single-byte", "max_value": p.get("max_value"), "why": p.get("why")}
    return {"k": "fixed", "fmt": p["fmt"]}


def neutral_r(d):
    """Reader descriptor -> neutral grammar (+ 'null_result' for the reader's treatment of null)."""
    if d is None:
        return {"k": "missing"}
    k = d.get("k")
    if k == "opaque":
        return {"k": "opaque", "reason": d.get("reason")}
    if k == "struct":
        return {"k": "struct", "class": d.get("class")}
    if k == "scalar":
        p = neutral_prefix(d["prefix"])
        out = {"k": "scalar", "prefix": p, "conv": conv_name_reader(d["conv"], d["prefix"]), "null": None}
        if d.get("null"):
            out["null"] = null_bytes(p, d["null"]["wire"])
            out["null_result"] = d["null"]["then"]
        return out
    if k == "lenpref":
        p = neutral_prefix(d["prefix"])
        pay = d.get("payload") or {}
        out = {"k": "lenpref", "prefix": p, "bias": d["bias"],
               "payload": "bytes" if pay.get("k") == "bytes" else f"text:{pay.get('codec', ['?'])[0]}" + ("" if pay.get("codec", [0, "strict"])[1] == "strict" else f":{pay['codec'][1]}"),
               "null": None, "exact": d.get("exact")}
        if d.get("null"):
            out["null"] = null_bytes(p, d["null"]["wire"])
            out["null_result"] = d["null"]["then"]
        return out
    if k == "array":
        p = neutral_prefix(d["prefix"])
        out = {"k": "array", "prefix": p, "bias": d["bias"], "null": None, "item": neutral_r(d["item"])}
        if d.get("null"):
            out["null"] = null_bytes(p, d["null"]["wire"])
            out["null_result"] = d["null"]["then"]
        return out
    if k == "rawfixed":
        if d["size"] == 16 and d.get("conv") == ["UUID", [["bytes", ["X"]]]]:
            n = d.get("null")
            out = {"k": "uuid", "null": n["wire"] if n and n.get("then") == "none" else None}
            if n and n.get("also"):
                out["null"] = "|".join([n["wire"]] + sorted(n["also"]))  # several wire values decode to None
            return out
        return {"k": "rawfixed", "size": d["size"], "conv": timeflow.show(d.get("conv"))}
    if k == "marked":
        arms = d["arms"]
        nulls = [c for c, v in arms.items() if v == "null"]
        pres = [c for c, v in arms.items() if v == "present"]
        p = neutral_prefix(d["prefix"])
        return {"k": "marked", "prefix": p, "null": null_bytes(p, int(nulls[0])) if len(nulls) == 1 else None,
                "present": null_bytes(p, int(pres[0])) if len(pres) == 1 else None, "miss": d.get("miss"),
                "inner": neutral_r(d["inner"]), "arms": arms}
    return {"k": "other", "what": k}


def neutral_w(d):
    if d is None:
        return {"k": "missing"}
    k = d.get("k")
    if k == "opaque":
        return {"k": "opaque", "reason": d.get("reason")}
    if k == "struct":
        return {"k": "struct", "class": d.get("class")}
    nb = (d.get("null") or {}).get("wire_bytes") if isinstance(d.get("null"), dict) else None
    if k == "scalar":
        p = dict(d["prefix"])
        if p["k"] == "varint":
            p["max"] = 5
        return {"k": "scalar", "prefix": neutral_prefix(p), "conv": conv_name_writer(d["conv"], d["prefix"]), "null": nb}
    if k == "lenpref":
        p = dict(d["prefix"])
        if p["k"] == "varint":
            p["max"] = 5
        pay = d.get("payload") or {}
        return {"k": "lenpref", "prefix": neutral_prefix(p), "bias": d["bias"],
                "payload": "bytes" if pay.get("k") == "bytes" else f"text:{pay.get('codec', ['?'])[0]}" + ("" if pay.get("codec", [0, "strict"])[1] == "strict" else f":{pay['codec'][1]}"),
                "null": nb, "limit_guard": [g for g in d.get("guards", [])]}
    if k == "array":
        p = dict(d["prefix"])
        if p["k"] == "varint":
            p["max"] = 5
        return {"k": "array", "prefix": neutral_prefix(p), "bias": d["bias"], "null": nb, "item": neutral_w(d["item"])}
    if k == "rawbytes":
        if d.get("conv") == ["attr", ["X"], "bytes"]:
            return {"k": "uuid", "null": nb}
        return {"k": "rawbytes", "conv": timeflow.show(d.get("conv")), "null": nb}
    if k == "marked":
        return {"k": "marked", "prefix": {"k": "fixed", "fmt": ">b"}, "null": nb, "present": d.get("present_bytes"),
                "inner": neutral_w(d["inner"])}
    return {"k": "other", "what": k}


# ------------------------------------------------------------------ comparisons

def _cmp_prefix(a, b, where, out):
    if a["k"] == "single-byte":
        out.append(f"{where}: {a.get('why')}")
    elif a.get("noncanonical"):
        out.append(f"{where}: the varint is not written canonically -- {a['noncanonical']}")
    elif a["k"] != b["k"]:
        out.append(f"{where}: length/value prefix is {a} but {b} is prescribed")
    elif a["k"] == "fixed" and a["fmt"] != b["fmt"]:
        out.append(f"{where}: struct format {a['fmt']!r} but {b['fmt']!r} is prescribed")
    elif a["k"] == "varint" and a.get("max") != b.get("max"):
        out.append(f"{where}: varint of at most {a.get('max')} bytes but {b.get('max')} is prescribed")


def cmp_writer(w, s, where="field") -> list[str]:
    """W = S on the well-typed restriction: every arm of the spec is produced exactly."""
    out = []
    if s["k"] == "invalid":
        return [f"{where}: the specification has no encoding here: {s['why']}"]
    if w["k"] == "opaque":
        return []  # an analysis limit, recorded by the caller; never a verdict
    if w["k"] in ("missing", "other"):
        return [f"{where}: writer not understood: {w}"]
    if w["k"] != s["k"]:
        return [f"{where}: writer emits a {w['k']} but the specification prescribes a {s['k']}"]
    k = s["k"]
    if k in ("scalar", "lenpref", "array", "marked"):
        _cmp_prefix(w["prefix"], s["prefix"], where, out)
    if k == "scalar" and _conv_differs(w["conv"], s["conv"], where) and not (s["conv"].startswith("enum:") and w["conv"] == "enum"):
        out.append(f"{where}: value conversion {w['conv']} but {s['conv']} is prescribed")
    if k in ("lenpref", "array") and w["bias"] != s["bias"]:
        out.append(f"{where}: length is written with bias {w['bias']} but {s['bias']} is prescribed")
    if k == "lenpref" and w["payload"] != s["payload"]:
        out.append(f"{where}: payload is {w['payload']} but {s['payload']} is prescribed")
    if s.get("null") is not None and w.get("null") != s["null"]:
        out.append(f"{where}: null is written as {w.get('null')} but {s['null']} is prescribed")
    if k == "array":
        out += cmp_writer(w["item"], s["item"], where + "[]")
    if k == "marked":
        if w.get("present") != s["present"]:
            out.append(f"{where}: presence marker {w.get('present')} but {s['present']} is prescribed")
        out += cmp_writer(w["inner"], s["inner"], where + ".inner")
    if k == "struct" and w.get("class") != s.get("class"):
        out.append(f"{where}: nested struct {w.get('class')} but {s.get('class')} is prescribed")
    return out


def cmp_reader(r, s, where="field") -> list[str]:
    """R >= S: the reader accepts every form the spec allows (it may accept more)."""
    out = []
    if s["k"] == "invalid":
        return [f"{where}: the specification has no encoding here: {s['why']}"]
    if r["k"] == "opaque":
        return []
    if r["k"] in ("missing", "other"):
        return [f"{where}: reader not understood: {r}"]
    if r["k"] != s["k"]:
        return [f"{where}: reader accepts a {r['k']} but the specification prescribes a {s['k']}"]
    k = s["k"]
    if k in ("scalar", "lenpref", "array", "marked"):
        _cmp_prefix(r["prefix"], s["prefix"], where, out)
    if k == "scalar" and _conv_differs(r["conv"], s["conv"], where):
        out.append(f"{where}: value conversion {r['conv']} but {s['conv']} is prescribed")
    if k in ("lenpref", "array") and r["bias"] != s["bias"]:
        out.append(f"{where}: length is read with bias {r['bias']} but {s['bias']} is prescribed")
    if k == "lenpref" and r["payload"] != s["payload"]:
        out.append(f"{where}: payload is decoded as {r['payload']} but {s['payload']} is prescribed")
    if s.get("null") is not None:
        if r.get("null") != s["null"]:
            out.append(f"{where}: null sentinel {r.get('null')} is recognised but {s['null']} is prescribed")
        elif r.get("null_result", "none") != "none" and k != "uuid":
            out.append(f"{where}: the field is nullable but the reader answers null with {r.get('null_result')}")
    if k == "array":
        out += cmp_reader(r["item"], s["item"], where + "[]")
    if k == "marked":
        if r.get("present") != s["present"]:
            out.append(f"{where}: presence marker {r.get('present')} but {s['present']} is prescribed")
        out += cmp_reader(r["inner"], s["inner"], where + ".inner")
    if k == "struct" and r.get("class") != s.get("class"):
        out.append(f"{where}: nested struct {r.get('class')} but {s.get('class')} is prescribed")
    return out


def cmp_rw(r, w, where="field", nullable=True) -> list[str]:
    """Sibling agreement: the reader accepts exactly what the writer of a well-typed value emits."""
    out = []
    for side, d in (("reader", r), ("writer", w)):
        if d["k"] == "opaque":
            return []
        if d["k"] in ("missing", "other"):
            return [f"{where}: {side} not understood: {d}"]
    if r["k"] != w["k"]:
        return [f"{where}: writer emits a {w['k']} but the reader expects a {r['k']}"]
    k = r["k"]
    if k in ("scalar", "lenpref", "array", "marked"):
        a, b = r["prefix"], w["prefix"]
        if b["k"] == "single-byte":
            out.append(f"{where}: {b.get('why')}; the reader takes the set continuation bit as the start of a longer varint")
        elif b.get("noncanonical"):
            out.append(f"{where}: the varint the writer emits is not the one the reader decodes -- {b['noncanonical']}")
        elif a["k"] != b["k"] or a.get("fmt") != b.get("fmt"):
            out.append(f"{where}: writer prefix {b} vs reader prefix {a}")
    if k == "scalar":
        rc, wc = r["conv"], w["conv"]
        if _conv_differs(rc, wc, where) and not (rc.startswith("enum:") and wc == "enum"):
            out.append(f"{where}: writer conversion {wc} vs reader conversion {rc}")
    if k in ("lenpref", "array") and r["bias"] != w["bias"]:
        out.append(f"{where}: writer bias {w['bias']} vs reader bias {r['bias']}")
    if k == "lenpref" and r["payload"] != w["payload"]:
        out.append(f"{where}: writer payload {w['payload']} vs reader payload {r['payload']}")
    if w.get("null") is not None:
        if r.get("null") != w["null"]:
            out.append(f"{where}: writer encodes null as {w['null']} but the reader's null sentinel is {r.get('null')}")
        elif r.get("null_result", "none") != "none" and k != "uuid":
            out.append(f"{where}: writer can emit null but the reader answers it with {r.get('null_result')}")
    if k == "array":
        out += cmp_rw(r["item"], w["item"], where + "[]")
    if k == "marked":
        if r.get("present") != w.get("present"):
            out.append(f"{where}: writer presence marker {w.get('present')} vs reader {r.get('present')}")
        out += cmp_rw(r["inner"], w["inner"], where + ".inner")
    if k == "struct" and r.get("class") != w.get("class"):
        out.append(f"{where}: writer nested struct {w.get('class')} vs reader {r.get('class')}")
    return out


# ------------------------------------------------------------------ length guards

def _len_bound(cond, holds):
    """Upper bound on len(payload) implied by one writer guard (JSON cond over the hole), or None."""
    if not isinstance(cond, (list, tuple)) or len(cond) != 3 or cond[0] not in ("le", "lt", "ge", "gt"):
        return None
    op, a, b = cond

    def const(t):
        return t[1] if isinstance(t, (list, tuple)) and len(t) == 2 and t[0] == "k" and isinstance(t[1], int) else None

    def len_plus(t):
        if isinstance(t, (list, tuple)) and len(t) == 2 and t[0] == "len":
            return 0
        if isinstance(t, (list, tuple)) and len(t) == 3 and t[0] == "add" and isinstance(t[1], (list, tuple)) and t[1][:1] in (["len"], ("len",)) \
                and const(t[2]) is not None:
            return const(t[2])
        return None
    if const(b) is not None and len_plus(a) is not None:
        c, off = const(b), len_plus(a)
    elif const(a) is not None and len_plus(b) is not None:
        c, off = const(a), len_plus(b)
        op = {"le": "ge", "lt": "gt", "ge": "le", "gt": "lt"}[op]
    else:
        return None
    if not holds:
        op = {"le": "gt", "lt": "ge", "ge": "lt", "gt": "le"}[op]
    if op == "le":
        return c - off
    if op == "lt":
        return c - 1 - off
    return None  # a lower bound


def max_len_accepted(guards):
    bounds = [b for b in (_len_bound(g.get("cond"), g.get("holds")) for g in guards or []) if b is not None]
    return min(bounds) if bounds else None


def length_capacity(prefix, bias):
    if prefix.get("k") != "fixed":
        return None
    bits = {"b": 7, "h": 15, "i": 31, "q": 63, "B": 8, "H": 16, "I": 32, "Q": 64}.get(prefix["fmt"][-1])
    return None if bits is None else (1 << bits) - 1 - bias


def eval_int_term(t, x):
    """Value of an integer/boolean term at the concrete point X = x (None when the term uses something else).
    Used to decide whether a range guard admits the boundary values of a documented domain."""
    if isinstance(t, list):
        t = tuple(t)
    if not isinstance(t, tuple) or not t:
        return None
    h = t[0]
    if h == "X" and len(t) == 1:
        return x
    if h == "k":
        c = t[1]
        if isinstance(c, (int, bool)):
            return c
        import datetime as _dt
        if isinstance(c, _dt.timedelta):
            return c
        if isinstance(c, str) and c.startswith("datetime.timedelta(") and c.endswith(")") and all(ch.isalnum() or ch in "=,.() -_" for ch in c):
            try:
                return eval(c, {"__builtins__": {}}, {"datetime": _dt})  # the repr of a timedelta constant exported to JSON
            except Exception:  # noqa: BLE001
                return None
        return None
    args = [eval_int_term(a, x) for a in t[1:]]
    if any(a is None for a in args):
        return None
    try:
        if len(args) == 2:
            a, b = args
            if h in ("shl", "shr") and not (0 <= b <= 4096):
                return None
            f = {"add": lambda: a + b, "sub": lambda: a - b, "mul": lambda: a * b, "shl": lambda: a << b, "shr": lambda: a >> b,
                 "and": lambda: a & b, "or": lambda: a | b, "xor": lambda: a ^ b, "floordiv": lambda: a // b, "mod": lambda: a % b,
                 "lt": lambda: a < b, "le": lambda: a <= b, "gt": lambda: a > b, "ge": lambda: a >= b, "eq": lambda: a == b,
                 "ne": lambda: a != b, "min": lambda: min(a, b), "max": lambda: max(a, b)}.get(h)
            return None if f is None else f()
        if len(args) == 1:
            a = args[0]
            f = {"abs": lambda: abs(a), "neg": lambda: -a, "invert": lambda: ~a, "nonzero": lambda: a != 0, "not": lambda: not a,
                 "int": lambda: int(a), "bit_length": lambda: a.bit_length()}.get(h)
            return None if f is None else f()
    except (ZeroDivisionError, OverflowError, ValueError, TypeError):
        return None
    return None


def domain_points(lo, hi):
    pts = {lo, lo + 1, hi - 1, hi, -1, 0, 1}
    for k in (7, 8, 14, 15, 16, 21, 28, 31, 32, 35, 63, 64):
        pts |= {(1 << k) - 1, 1 << k, -(1 << k), -(1 << k) - 1}
    return sorted(p for p in pts if lo <= p <= hi)


# ------------------------------------------------------------------ concrete evaluation of value terms (floats, durations, instants)
class _Unknown:
    def __repr__(self):
        return "UNKNOWN"


UNKNOWN = _Unknown()


class TermRaised(Exception):
    """The library operation the term stands for raises at this point (the value is not representable)."""


def eval_value_term(t, x):
    """Value of a descriptor term at the concrete point X = x, for the vocabulary the scalar readers use (integers, floats,
    datetime.timedelta / datetime.datetime construction and arithmetic, attribute reads, comparisons).  UNKNOWN when the term uses
    anything else; TermRaised when the standard library raises for that point (timedelta / datetime out of range).  This folds
    constants of the analysed term with the standard library; nothing of the repository is executed."""
    import datetime as _dt
    import math as _math
    if isinstance(t, list):
        t = tuple(t)
    if not isinstance(t, tuple) or not t:
        return UNKNOWN
    h = t[0]
    if h == "X" and len(t) == 1:
        return x
    if h == "k" and len(t) == 2:
        c = t[1]
        if c is None or isinstance(c, (int, bool, float, _dt.timedelta, _dt.datetime)):
            return c
        if isinstance(c, str) and c.startswith(("datetime.timedelta(", "datetime.datetime(")) and c.endswith(")") \
                and all(ch.isalnum() or ch in "=,.() -_" for ch in c):
            try:
                return eval(c, {"__builtins__": {}}, {"datetime": _dt})  # the repr of a constant exported to JSON
            except Exception:  # noqa: BLE001
                return UNKNOWN
        return UNKNOWN
    if h == "may-raise":
        return UNKNOWN
    try:
        if h == "timedelta" and len(t) == 2:
            kw = {}
            for name, term in t[1]:
                v = eval_value_term(term, x)
                if v is UNKNOWN or name not in ("days", "seconds", "microseconds", "milliseconds", "minutes", "hours", "weeks"):
                    return UNKNOWN
                kw[name] = v
            return _dt.timedelta(**kw)
        if h == "replace" and len(t) == 3:
            o = eval_value_term(t[1], x)
            if not isinstance(o, _dt.datetime):
                return UNKNOWN
            kw = {}
            for name, term in t[2]:
                v = eval_value_term(term, x)
                if v is UNKNOWN or name not in ("microsecond", "second", "tzinfo"):
                    return UNKNOWN
                kw[name] = v
            return o.replace(**kw)
        if h == "attr" and len(t) == 3:
            o = eval_value_term(t[1], x)
            if isinstance(o, (_dt.datetime, _dt.timedelta)) and t[2] in ("microsecond", "second", "tzinfo", "days", "seconds", "microseconds", "year"):
                return getattr(o, t[2])
            return UNKNOWN
        if h == "utcoffset" and len(t) == 3:
            arg = t[2]
            if isinstance(arg, (list, tuple)) and len(arg) == 1 and isinstance(arg[0], (list, tuple)):
                arg = arg[0]  # argument list of one
            tz, o = eval_value_term(t[1], x), eval_value_term(arg, x)
            if isinstance(tz, _dt.timezone) and isinstance(o, _dt.datetime):
                return tz.utcoffset(o)
            return UNKNOWN
        if h == "timestamp" and len(t) == 2:
            o = eval_value_term(t[1], x)
            if isinstance(o, _dt.datetime) and o.tzinfo is not None:
                return o.timestamp()
            return UNKNOWN
        args = [eval_value_term(a, x) for a in t[1:]]
        if any(a is UNKNOWN for a in args):
            return UNKNOWN
        if len(args) == 2:
            a, b = args
            if h == "is":
                return (a is b) if (a is None or b is None) else UNKNOWN
            if h in ("shl", "shr") and not (isinstance(b, int) and 0 <= b <= 4096):
                return UNKNOWN
            f = {"add": lambda: a + b, "sub": lambda: a - b, "mul": lambda: a * b, "shl": lambda: a << b, "shr": lambda: a >> b,
                 "and": lambda: a & b, "or": lambda: a | b, "xor": lambda: a ^ b, "floordiv": lambda: a // b, "mod": lambda: a % b,
                 "truediv": lambda: a / b, "lt": lambda: a < b, "le": lambda: a <= b, "gt": lambda: a > b, "ge": lambda: a >= b,
                 "eq": lambda: a == b, "ne": lambda: a != b}.get(h)
            return UNKNOWN if f is None else f()
        if len(args) == 1:
            a = args[0]
            f = {"abs": lambda: abs(a), "neg": lambda: -a, "invert": lambda: ~a, "nonzero": lambda: a != 0, "not": lambda: not a,
                 "int": lambda: int(a), "isfinite": lambda: _math.isfinite(a), "isnan": lambda: _math.isnan(a), "isinf": lambda: _math.isinf(a),
                 "float": lambda: float(a)}.get(h)
            return UNKNOWN if f is None else f()
    except (OverflowError, ValueError) as e:
        raise TermRaised(type(e).__name__) from e
    except (ZeroDivisionError, TypeError):
        return UNKNOWN
    return UNKNOWN
