"""E2 core: statements, expressions, calls, classes, modules."""
from __future__ import annotations

import ast

from .interp_base import *  # noqa: F401,F403
from .interp_base import Limit, Raised, _Return, _Break, _Continue, Run, MAX_STEPS
from .source import is_overload

NONETYPE = LibClass.get("NoneType")
BINOPS = {ast.Add: "add", ast.Sub: "sub", ast.Mult: "mul", ast.BitAnd: "and", ast.BitOr: "or", ast.BitXor: "xor",
          ast.LShift: "shl", ast.RShift: "shr", ast.Div: "div", ast.FloorDiv: "floordiv", ast.Mod: "mod",
          ast.Pow: "pow"}
CMPOPS = {ast.Eq: "eq", ast.NotEq: "ne", ast.Lt: "lt", ast.LtE: "le", ast.Gt: "gt", ast.GtE: "ge",
          ast.Is: "is", ast.IsNot: "isnot", ast.In: "in", ast.NotIn: "notin"}


def is_concrete(v) -> bool:
    if isinstance(v, Sym):
        return False
    if isinstance(v, tuple):
        return all(is_concrete(x) for x in v)
    if isinstance(v, ListV):
        return all(is_concrete(x) for x in v.items) and not v.may
    return True


class Frame:
    __slots__ = ("fn", "module", "node")

    def __init__(self, fn, module):
        self.fn, self.module, self.node = fn, module, None


class InterpCore:
    def __init__(self, ctx):
        self.ctx = ctx
        self.sm = ctx.sm
        self.modules: dict = {}
        self.frames: list[Frame] = []
        self._ann_cache: dict = {}
        self._scan_cache: dict = {}
        self.entity_classes: dict = {}
        self.enter_hook = None
        self.stream_fault_hook = None
        self.call_hook = None  # set by analyses: (fn, args, kwargs, run, node, higher_order) -> NotImplemented | value
        self.trace_calls = None
        self.init_lib()

    # ------------------------------------------------------------------ sites / errors
    def site(self, node=None) -> str:
        fr = self.frames[-1] if self.frames else None
        mod = fr.module if fr else "?"
        fn = fr.fn.qualname if fr and fr.fn is not None else "<module>"
        ln = getattr(node, "lineno", 0) if node is not None else 0
        return f"{mod}:{fn}:{ln}"

    def limit(self, what, node=None):
        raise Limit(f"{what} at {self.site(node)}" + (f": {ast.unparse(node)[:80]}" if node is not None else ""))

    def throw(self, clsname_or_cls, msg="", node=None):
        cls = clsname_or_cls if not isinstance(clsname_or_cls, str) else LibClass.get(clsname_or_cls)
        raise Raised(InstV(cls, {"args": (msg,)}), site=self.site(node))

    def may_raise(self, run, exc_name, site, why=""):
        """A library call that may raise `exc_name` for some run-time values.  When an enclosing `try` (in this frame or a
        caller's) has a handler for it, the raising case is a path of its own (the handler body must be explored);
        otherwise it is recorded as a note on the path."""
        cls = LibClass.get(exc_name)
        for handlers in reversed(getattr(self, "catch_stack", [])):
            if any(self.exc_matches(cls, ht) for ht in handlers):
                if run.decide(("may-raise", exc_name, site), site):
                    run.emit("raise-site", exc_name, site, why)
                    raise Raised(InstV(cls, {"args": (why,)}), site=site)
                return
        run.emit("may-raise", exc_name, site, why)

    def throw_key(self, key, node=None):
        """KeyError as a mapping raises it: args is the missing key itself, not its repr."""
        raise Raised(InstV(LibClass.get("KeyError"), {"args": (key,)}), site=self.site(node))

    # ------------------------------------------------------------------ modules
    def module(self, name: str):
        if name in self.modules:
            return self.modules[name]
        src = self.sm.get(name)
        if src is None:
            m = LibModule.get(name)
            self.modules[name] = m
            return m
        if name.startswith("kio.schema.") and name in self.ctx.schema.modules:
            m = self.schema_module(name)
            self.modules[name] = m
            return m
        parent = name.rpartition(".")[0]
        if parent and self.sm.get(parent) is not None and parent not in self.modules:
            self.module(parent)  # Python imports parent packages first
            if name in self.modules:
                return self.modules[name]
        env = Env(None, "module", name)
        m = ModuleV(name, env, src)
        env.vars["__name__"] = name
        env.vars["__file__"] = str(src.path)
        self.modules[name] = m
        m.state = "running"
        self.frames.append(Frame(None, name))
        try:
            run = Run()
            self.exec_block(src.tree.body, env, run)
            if run.facts:
                raise Limit(f"module {name} top level depends on a symbolic condition")
        finally:
            self.frames.pop()
        m.state = "done"
        return m

    def import_attr(self, modname: str, attr: str, node=None):
        m = self.module(modname)
        if isinstance(m, ModuleV):
            if attr in m.env.vars:
                return m.env.vars[attr]
            sub = f"{modname}.{attr}"
            if self.sm.get(sub) is not None:
                return self.module(sub)
            if m.state == "running":
                self.limit(f"circular import: {attr} not yet defined in {modname}", node)
            raise Raised(InstV(LibClass.get("ImportError"), {"args": (f"cannot import {attr} from {modname}",)}))
        return self.lib_attr(m, attr, node)

    # ------------------------------------------------------------------ statements
    def exec_block(self, stmts, env, run):
        for s in stmts:
            self.exec_stmt(s, env, run)

    def exec_stmt(self, s, env, run):
        run.steps += 1
        if run.steps > MAX_STEPS:
            raise Limit("step budget exhausted")
        if self.frames:
            self.frames[-1].node = s
        k = type(s)
        if k is ast.Expr:
            if not isinstance(s.value, ast.Constant):
                self.ev(s.value, env, run)
        elif k is ast.Return:
            raise _Return(self.ev(s.value, env, run) if s.value is not None else None)
        elif k is ast.Assign:
            v = self.ev(s.value, env, run)
            if isinstance(s.value, ast.GeneratorExp) and isinstance(v, (tuple, Sym)):
                v = GenV(v)  # a generator bound to a name has state: next() advances it, a second consumer finds it empty
            for t in s.targets:
                self.assign(t, v, env, run)
        elif k is ast.AnnAssign:
            if env.kind == "class":
                anns = env.vars.setdefault("__annotations__", DictV())
                if isinstance(s.target, ast.Name):
                    anns.d[s.target.id] = self.ev_annotation(s.annotation, env, run)
            if s.value is not None:
                self.assign(s.target, self.ev(s.value, env, run), env, run)
        elif k is ast.AugAssign:
            cur = self.ev(_load(s.target), env, run)
            v = self.binop(BINOPS[type(s.op)], cur, self.ev(s.value, env, run), run, s)
            self.assign(s.target, v, env, run)
        elif k is ast.If:
            if self.truth(self.ev(s.test, env, run), run, s.test):
                self.exec_block(s.body, env, run)
            else:
                self.exec_block(s.orelse, env, run)
        elif k is ast.For:
            self.exec_for(s, env, run)
        elif k is ast.While:
            self.exec_while(s, env, run)
        elif k is ast.Raise:
            self.exec_raise(s, env, run)
        elif k is ast.Try:
            self.exec_try(s, env, run)
        elif k is ast.With:
            self.exec_with(s, env, run)
        elif k is ast.Match:
            self.exec_match(s, env, run)
        elif k is ast.FunctionDef:
            fn = self.make_function(s, env)
            if fn is not None:
                self.bind_name(s.name, fn, env)
        elif k is ast.ClassDef:
            self.bind_name(s.name, self.make_class(s, env, run), env)
        elif k is ast.Import:
            for a in s.names:
                if a.asname:
                    self.bind_name(a.asname, self.module(a.name), env)
                else:
                    top = a.name.split(".")[0]
                    self.module(a.name)
                    self.bind_name(top, self.module(top), env)
        elif k is ast.ImportFrom:
            fr_mod = self.frames[-1].module if self.frames else None
            src = self.sm.get(fr_mod) if fr_mod else None
            modname = self.sm.resolve_from(src, s) if (src is not None and s.level) else (s.module or "")
            for a in s.names:
                if a.name == "*":
                    self.limit("star import", s)
                self.bind_name(a.asname or a.name, self.import_attr(modname, a.name, s), env)
        elif k is ast.Pass:
            pass
        elif k is ast.Continue:
            raise _Continue()
        elif k is ast.Break:
            raise _Break()
        elif k is ast.Assert:
            if not self.truth(self.ev(s.test, env, run), run, s.test):
                self.throw("AssertionError", "assert", s)
        elif k is ast.Global:
            env.globals_.update(s.names)
        elif k is ast.Nonlocal:
            env.nonlocals.update(s.names)
        elif k is ast.Delete:
            for t in s.targets:
                if isinstance(t, ast.Name):
                    env.vars.pop(t.id, None)
                else:
                    self.limit("del of non-name", s)
        elif k is ast.AsyncFunctionDef:
            self.bind_name(s.name, OpaqueV(f"async def {s.name}"), env)
        else:
            self.limit(f"statement {k.__name__}", s)

    def bind_name(self, name, v, env):
        if name in env.globals_:
            env.module_env().vars[name] = v
        elif name in env.nonlocals:
            e = env.parent
            while e is not None:
                if e.kind == "function" and name in e.vars:
                    e.vars[name] = v
                    return
                e = e.parent
            raise Limit(f"nonlocal {name} not found")
        else:
            env.vars[name] = v

    def assign(self, t, v, env, run):
        if isinstance(t, ast.Name):
            self.bind_name(t.id, v, env)
        elif isinstance(t, (ast.Tuple, ast.List)):
            vals = self.unpack(v, len(t.elts), run, t, starred=[i for i, e in enumerate(t.elts) if isinstance(e, ast.Starred)])
            for e, x in zip(t.elts, vals):
                self.assign(e.value if isinstance(e, ast.Starred) else e, x, env, run)
        elif isinstance(t, ast.Subscript):
            self.setitem(self.ev(t.value, env, run), self.ev(t.slice, env, run), v, run, t)
        elif isinstance(t, ast.Attribute):
            self.setattr_(self.ev(t.value, env, run), t.attr, v, run, t)
        else:
            self.limit("assignment target", t)

    def unpack(self, v, n, run, node, starred=()):
        if isinstance(v, ListV):
            v = tuple(v.items)
        if isinstance(v, InstV) and isinstance(v.cls, ClassV) and v.cls.flags.get("namedtuple"):
            v = tuple(v.attrs[k] for k in v.cls.flags["namedtuple"])  # a NamedTuple unpacks like the tuple of its fields
        if isinstance(v, tuple):
            if starred:
                i = starred[0]
                if len(v) < n - 1:
                    self.throw("ValueError", "not enough values to unpack", node)
                tail = n - 1 - i
                return list(v[:i]) + [ListV(list(v[i:len(v) - tail]))] + list(v[len(v) - tail:])
            if len(v) != n:
                self.throw("ValueError", f"unpack: expected {n}, got {len(v)}", node)
            return list(v)
        if isinstance(v, Sym):
            return self.sym_unpack(v, n, run, node)
        self.limit(f"unpack of {v!r}", node)

    def gen_rest(self, g, consume=True):
        """What a named generator still has to give (and, when consumed, nothing afterwards)."""
        if g.exhausted:
            return ()
        src = g.src
        if isinstance(src, tuple):
            rest = src[g.taken:]
        elif g.taken == 0:
            rest = src
        else:
            info = {k: v for k, v in src.info.items() if k in ("elem_values", "elem")}
            rest = Sym(("rest", src.term, g.taken), "tuple", gen_rest=g.taken, whole=src, **info)
        if consume:
            g.exhausted = True
        return rest

    def exec_for(self, s, env, run):
        it = self.ev(s.iter, env, run)
        seq = self.iterate(it, run, s)
        if seq is None:  # symbolic iteration: analysed once, summarised as Repeat
            self.sym_for(s, it, env, run)
            return
        broke = False
        for item in seq:
            self.assign(s.target, item, env, run)
            try:
                self.exec_block(s.body, env, run)
            except _Continue:
                continue
            except _Break:
                broke = True
                break
        if not broke:
            if isinstance(seq, range) and len(seq) >= 100_000:
                raise Limit(f"loop over an unbounded counter not left after {len(seq)} iterations at {self.site(s)}")
            self.exec_block(s.orelse, env, run)

    def countdown_var(self, s, env):
        """`while v > 0:` / `while v:` / `while v != 0:` whose body decrements v by one, once, at its top level and rebinds it nowhere
        else: the loop runs v times (for v >= 0), like `for _ in range(v)`.  Returns the name, or None."""
        t = s.test
        name = None
        if isinstance(t, ast.Name):
            name = t.id
        elif isinstance(t, ast.Compare) and len(t.ops) == 1 and isinstance(t.left, ast.Name) and isinstance(t.comparators[0], ast.Constant) \
                and t.comparators[0].value == 0 and isinstance(t.ops[0], (ast.Gt, ast.NotEq)):
            name = t.left.id
        elif isinstance(t, ast.Compare) and len(t.ops) == 1 and isinstance(t.comparators[0], ast.Name) and isinstance(t.left, ast.Constant) \
                and t.left.value == 0 and isinstance(t.ops[0], (ast.Lt, ast.NotEq)):
            name = t.comparators[0].id
        if name is None:
            return None
        decs = [st for st in s.body if isinstance(st, ast.AugAssign) and isinstance(st.target, ast.Name) and st.target.id == name
                and isinstance(st.op, ast.Sub) and isinstance(st.value, ast.Constant) and st.value.value == 1]
        if len(decs) != 1 or s.orelse:
            return None
        for n_ in ast.walk(ast.Module(body=list(s.body), type_ignores=[])):
            if n_ is decs[0]:
                continue
            tg = []
            if isinstance(n_, ast.Assign):
                tg = n_.targets
            elif isinstance(n_, (ast.AugAssign, ast.AnnAssign, ast.NamedExpr)):
                tg = [n_.target]
            elif isinstance(n_, (ast.For, ast.comprehension)):
                tg = [n_.target]
            if any(isinstance(x, ast.Name) and x.id == name for t_ in tg for x in ast.walk(t_)):
                return None
            if isinstance(n_, (ast.Break, ast.Continue)):
                return None  # a continue would skip the decrement
        return name

    def exec_while(self, s, env, run):
        cd = self.countdown_var(s, env)
        if cd is not None:
            v0, e0 = env.lookup(cd)
            if isinstance(v0, Sym) and self.kind_of(v0, run) == "int" and e0 is not None and e0.kind == "function":
                # a symbolic number of iterations, known by name: summarised like `for _ in range(v0)` (the decrement is dropped from
                # the body; after the loop the counter is 0 -- for a negative start the loop does not run and the counter keeps its value,
                # which no code in reach reads)
                rng = Sym(("range", v0.term), "range", count=v0)
                fake = ast.For(target=ast.Name(id="__kverif_countdown__", ctx=ast.Store()), iter=s.test,
                               body=[st for st in s.body if not (isinstance(st, ast.AugAssign) and isinstance(st.target, ast.Name) and st.target.id == cd)] or [ast.Pass()],
                               orelse=[], lineno=s.lineno, col_offset=s.col_offset)
                ast.copy_location(fake, s)
                ast.fix_missing_locations(fake)
                self.sym_for(fake, rng, env, run)
                env.vars[cd] = 0
                env.vars.pop("__kverif_countdown__", None)
                return
        n = 0
        while True:
            if not self.truth(self.ev(s.test, env, run), run, s.test):
                break
            n += 1
            if n > 200:
                raise Limit(f"while loop not bounded after 200 unrollings at {self.site(s)}")
            try:
                self.exec_block(s.body, env, run)
            except _Continue:
                continue
            except _Break:
                return
        self.exec_block(s.orelse, env, run)

    def exec_raise(self, s, env, run):
        if s.exc is None:
            cur = env.lookup("__current_exception__")[0]
            if cur is None:
                self.limit("bare raise outside handler", s)
            raise Raised(cur, site=self.site(s))
        e = self.ev(s.exc, env, run)
        if isinstance(e, (ClassV, LibClass)):
            e = self.call(e, [], {}, run, s)
        if not isinstance(e, InstV):
            self.limit(f"raise of {e!r}", s)
        if s.cause is not None:
            c = self.ev(s.cause, env, run)
            e.attrs["__cause__"] = c
        raise Raised(e, site=self.site(s))

    def exc_matches(self, exc_cls, handler_type) -> bool:
        if isinstance(handler_type, tuple):
            return any(self.exc_matches(exc_cls, h) for h in handler_type)
        return self.is_subclass(exc_cls, handler_type)

    def exec_try(self, s, env, run):
        n_eff = len(run.effects)
        if not hasattr(self, "catch_stack"):
            self.catch_stack = []
        hts = []
        for h in s.handlers:
            try:
                hts.append(self.ev(h.type, env, run) if h.type is not None else LibClass.get("BaseException"))
            except (Raised, Limit):
                pass
        try:
            try:
                self.catch_stack.append(hts)
                try:
                    self.exec_block(s.body, env, run)
                finally:
                    self.catch_stack.pop()
            except Raised as r:
                for h in s.handlers:
                    ht = self.ev(h.type, env, run) if h.type is not None else LibClass.get("BaseException")
                    if self.exc_matches(r.cls, ht):
                        run.notes.append(("handled", short_exc(r.cls), self.site(h)))
                        # the raise was intercepted: its raise-site note does not leave the function
                        for i in range(len(run.effects) - 1, n_eff - 1, -1):
                            e = run.effects[i]
                            if e[0] == "raise-site" and e[1] == short_exc(r.cls):
                                del run.effects[i]
                                break
                        if h.name:
                            env.vars[h.name] = r.exc
                        prev = env.vars.get("__current_exception__")
                        env.vars["__current_exception__"] = r.exc
                        try:
                            self.exec_block(h.body, env, run)
                        finally:
                            if prev is None:
                                env.vars.pop("__current_exception__", None)
                            else:
                                env.vars["__current_exception__"] = prev
                        break
                else:
                    raise
            else:
                self.exec_block(s.orelse, env, run)
        finally:
            if s.finalbody:
                self.exec_block(s.finalbody, env, run)

    def exec_with(self, s, env, run):
        mgrs = []
        for item in s.items:
            m = self.ev(item.context_expr, env, run)
            entered = self.ctx_enter(m, run, item.context_expr)
            mgrs.append(m)
            if item.optional_vars is not None:
                self.assign(item.optional_vars, entered, env, run)
        sup = [m for m in mgrs if isinstance(m, CtxMgrV) and m.kind == "suppress"]
        n_eff_with = len(run.effects)
        if sup:
            # contextlib.suppress(E...): like try/except E: pass around the body (library may-raise notes fork into a raise inside it too)
            if not hasattr(self, "catch_stack"):
                self.catch_stack = []
            self.catch_stack.append([t for m in sup for t in m.inner])
        try:
            try:
                self.exec_block(s.body, env, run)
            finally:
                if sup:
                    self.catch_stack.pop()
        except Raised as r:
            if not any(self.exc_matches(r.cls, t) for m in sup for t in m.inner):
                raise
            run.notes.append(("handled", short_exc(r.cls), self.site(s)))
            for i in range(len(run.effects) - 1, n_eff_with - 1, -1):
                e = run.effects[i]
                if e[0] == "raise-site" and e[1] == short_exc(r.cls):
                    del run.effects[i]
        finally:
            for m in reversed(mgrs):
                self.ctx_exit(m, run, s)

    # ------------------------------------------------------------------ match
    def exec_match(self, s, env, run):
        subj = self.ev(s.subject, env, run)
        for case in s.cases:
            if self.match_pattern(case.pattern, subj, env, run) and (
                    case.guard is None or self.truth(self.ev(case.guard, env, run), run, case.guard)):
                self.exec_block(case.body, env, run)
                return

    def match_pattern(self, pat, v, env, run) -> bool:
        if isinstance(pat, ast.MatchValue):
            return self.truth(self.compare("eq", v, self.ev(pat.value, env, run), run, pat), run, pat)
        if isinstance(pat, ast.MatchSingleton):
            return self.truth(self.compare("is", v, pat.value, run, pat), run, pat)
        if isinstance(pat, ast.MatchAs):
            if pat.pattern is not None and not self.match_pattern(pat.pattern, v, env, run):
                return False
            if pat.name:
                env.vars[pat.name] = v
            return True
        if isinstance(pat, ast.MatchOr):
            return any(self.match_pattern(p, v, env, run) for p in pat.patterns)
        if isinstance(pat, ast.MatchSequence):
            if isinstance(v, ListV):
                v = tuple(v.items)
            if isinstance(v, Sym):
                return self.sym_match_sequence(pat, v, env, run)
            if not isinstance(v, tuple):
                return False
            stars = [i for i, p in enumerate(pat.patterns) if isinstance(p, ast.MatchStar)]
            if stars:
                i = stars[0]
                tail = len(pat.patterns) - 1 - i
                if len(v) < len(pat.patterns) - 1:
                    return False
                parts = list(v[:i]) + [ListV(list(v[i:len(v) - tail]))] + list(v[len(v) - tail:])
            else:
                if len(v) != len(pat.patterns):
                    return False
                parts = list(v)
            for p, x in zip(pat.patterns, parts):
                if isinstance(p, ast.MatchStar):
                    if p.name:
                        env.vars[p.name] = x
                elif not self.match_pattern(p, x, env, run):
                    return False
            return True
        if isinstance(pat, ast.MatchClass):
            cls = self.ev(pat.cls, env, run)
            if not self.truth(self.isinstance_(v, cls, run, pat), run, pat):
                return False
            if pat.patterns:
                if isinstance(cls, LibClass) and cls.name in ("str", "int", "bytes", "float", "bool", "tuple", "list", "dict"):
                    if len(pat.patterns) != 1:
                        self.throw("TypeError", "too many positional sub-patterns", pat)
                    if not self.match_pattern(pat.patterns[0], v, env, run):
                        return False
                else:
                    ma = self.getattr_(cls, "__match_args__", run, pat)
                    for p, key in zip(pat.patterns, ma):
                        if not self.match_pattern(p, self.getattr_(v, key, run, pat), env, run):
                            return False
            for key, p in zip(pat.kwd_attrs, pat.kwd_patterns):
                if not self.match_pattern(p, self.getattr_(v, key, run, pat), env, run):
                    return False
            return True
        self.limit(f"pattern {type(pat).__name__}", pat)

    # ------------------------------------------------------------------ functions
    def scan_scope(self, node):
        return None

    def make_function(self, node, env, defcls=None):
        decos = [self.ev(d, env, Run()) for d in node.decorator_list]
        if any(d is LibFn.get("typing.overload") for d in decos):
            return None
        run = Run()
        defaults = [self.ev(d, env, run) for d in node.args.defaults]
        kwdefaults = [None if d is None else self.ev(d, env, run) for d in node.args.kw_defaults]
        owner = env
        qual = node.name
        fr = self.frames[-1] if self.frames else None
        if env.kind == "class":
            qual = f"{env.owner}.{node.name}"
        elif env.kind == "function" and fr is not None and fr.fn is not None:
            qual = f"{fr.fn.qualname}.{node.name}"
        module = fr.module if fr else "?"
        fn = FuncV(node, owner, module, qual, defaults, kwdefaults, defcls)
        v = fn
        for d in reversed(decos):
            v = self.apply_decorator(d, v, run, node)
        return v

    def apply_decorator(self, d, v, run, node):
        if isinstance(d, LibFn):
            n = d.name
            if n in ("classmethod", "staticmethod", "property"):
                return WrapV(n, v)
            if n in ("functools.cache", "functools.lru_cache"):
                if isinstance(v, FuncV):
                    self.cached_functions.add(v.uid)
                    self.cached_funcs[v.uid] = v
                return v
            if n in ("typing.final", "typing.runtime_checkable", "typing.overload", "abc.abstractmethod",
                     "typing.no_type_check"):
                if n == "typing.runtime_checkable" and isinstance(v, ClassV):
                    v.flags["runtime_checkable"] = True
                return v
        return self.call(d, [v], {}, run, node)

    def bind_args(self, fn: FuncV, args, kwargs, run, node):
        a = fn.node.args
        params = [p.arg for p in a.posonlyargs + a.args]
        env = Env(fn.env, "function", fn)
        bound = env.vars
        args = list(args)
        if len(args) > len(params):
            if a.vararg is None:
                self.throw("TypeError", f"{fn.name}() takes {len(params)} positional arguments but {len(args)} were given", node)
            bound[a.vararg.arg] = tuple(args[len(params):])
            args = args[:len(params)]
        elif a.vararg is not None:
            bound[a.vararg.arg] = ()
        for p, v in zip(params, args):
            bound[p] = v
        kwonly = [p.arg for p in a.kwonlyargs]
        extra = {}
        for k, v in kwargs.items():
            if k in params or k in kwonly:
                if k in bound:
                    self.throw("TypeError", f"{fn.name}() got multiple values for argument {k!r}", node)
                bound[k] = v
            else:
                extra[k] = v
        if extra:
            if a.kwarg is None:
                self.throw("TypeError", f"{fn.name}() got an unexpected keyword argument {sorted(extra)[0]!r}", node)
            bound[a.kwarg.arg] = DictV(dict(extra))
        elif a.kwarg is not None:
            bound[a.kwarg.arg] = DictV({})
        nd = len(fn.defaults)
        for p, d in zip(params[len(params) - nd:], fn.defaults):
            if p not in bound:
                bound[p] = d
        for p, d in zip(kwonly, fn.kwdefaults):
            if p not in bound and d is not None:
                bound[p] = d
            elif p not in bound and d is None and a.kw_defaults[kwonly.index(p)] is not None:
                bound[p] = None
        missing = [p for p in params + kwonly if p not in bound]
        if missing:
            self.throw("TypeError", f"{fn.name}() missing required argument(s) {missing}", node)
        return env

    def call_function(self, fn: FuncV, args, kwargs, run, node):
        if len(self.frames) > 60:
            raise Limit(f"interpreter recursion deeper than 60 frames calling {fn.ref}")
        env = self.bind_args(fn, args, kwargs, run, node)
        if self.enter_hook is not None:
            self.enter_hook(fn.ref)
        if fn.defcls is not None:
            env.vars["__class__"] = fn.defcls
        self.frames.append(Frame(fn, fn.module))
        try:
            if isinstance(fn.node, ast.Lambda):
                return self.ev(fn.node.body, env, run)
            if self.is_generator(fn.node):
                # a generator function is run eagerly; its yields are collected (sufficient for the
                # simple validators/iterators of codegen; laziness is not modelled)
                ys = ListV([])
                env.vars["__yields__"] = ys
                try:
                    self.exec_block(fn.node.body, env, run)
                except _Return:
                    pass
                return ys
            try:
                self.exec_block(fn.node.body, env, run)
            except _Return as r:
                return r.v
            return None
        finally:
            self.frames.pop()

    def is_generator(self, node) -> bool:
        k = id(node)
        if k not in self._scan_cache:
            found = False
            todo = list(node.body)
            while todo:
                n = todo.pop()
                if isinstance(n, (ast.Yield, ast.YieldFrom)):
                    found = True
                    break
                if isinstance(n, (ast.FunctionDef, ast.Lambda, ast.ClassDef, ast.AsyncFunctionDef)):
                    continue
                todo.extend(ast.iter_child_nodes(n))
            self._scan_cache[k] = found
        return self._scan_cache[k]

    def is_higher_order(self, func_expr, env) -> bool:
        """True when the callee expression is a *value* (local, parameter, captured variable,
        container element) rather than a statically bound module-level function."""
        if isinstance(func_expr, ast.Name):
            v, e = env.lookup(func_expr.id)
            return e is not None and e.kind == "function"
        if isinstance(func_expr, ast.Attribute):
            # `self._item_writer(...)`: a callable stored in an instance attribute is a value too (a method found on the class is not)
            if isinstance(func_expr.value, ast.Name):
                v, e = env.lookup(func_expr.value.id)
                if isinstance(v, InstV) and e is not None and e.kind == "function" and func_expr.attr in v.attrs \
                        and callable_target(v.attrs[func_expr.attr]) is not None:
                    return True
            return False
        return True

    def call(self, fn, args, kwargs, run, node, higher_order=False):
        if self.call_hook is not None:
            r = self.call_hook(fn, args, kwargs, run, node, higher_order)
            if r is not NotImplemented:
                return r
        if isinstance(fn, FuncV):
            return self.call_function(fn, args, kwargs, run, node)
        if isinstance(fn, WrapV) and fn.kind == "contextmanager":
            return self.call_contextmanager(fn.func, args, kwargs, run, node)
        if isinstance(fn, BoundV):
            return self.call(fn.func, [fn.self_] + list(args), kwargs, run, node, higher_order)
        if isinstance(fn, (LibFn, LibClass)) and any(isinstance(a, GenV) for a in list(args) + list(kwargs.values())) and \
                not (isinstance(fn, LibFn) and fn.name in ("next", "iter", "id", "isinstance", "callable")):
            # a library consumer drains the generator
            args = [self.gen_rest(a) if isinstance(a, GenV) else a for a in args]
            kwargs = {k: (self.gen_rest(a) if isinstance(a, GenV) else a) for k, a in kwargs.items()}
        if isinstance(fn, LibFn):
            return self.call_lib(fn.name, args, kwargs, run, node)
        if isinstance(fn, ClassV):
            return self.call_class(fn, args, kwargs, run, node)
        if isinstance(fn, LibClass):
            return self.call_libclass(fn, args, kwargs, run, node)
        if isinstance(fn, PartialV):
            kw = dict(fn.kwargs)
            kw.update(kwargs)
            return self.call(fn.fn, list(fn.args) + list(args), kw, run, node)
        if isinstance(fn, GenericV):
            return self.call(fn.origin, args, kwargs, run, node)
        if isinstance(fn, InstV):
            c = self.class_lookup(fn.cls, "__call__")
            if c is not None:
                return self.call(self.bind_descr(c, fn, fn.cls), args, kwargs, run, node)
        if isinstance(fn, Sym):
            return self.sym_call(fn, args, kwargs, run, node)
        if isinstance(fn, OpaqueV):
            return OpaqueV(f"{fn.what}(...)")
        self.limit(f"call of {fn!r}", node)

    # ------------------------------------------------------------------ classes
    def make_class(self, node: ast.ClassDef, env, run):
        bases = [self.ev(b, env, run) for b in node.bases]
        kwargs = {k.arg: self.ev(k.value, env, run) for k in node.keywords}
        metaclass = kwargs.pop("metaclass", None)
        rbases = []
        for b in bases:
            if isinstance(b, GenericV):  # Generic[T], Protocol[T]
                b = b.origin
            if isinstance(b, (ClassV, LibClass)):
                rbases.append(b)
            elif isinstance(b, OpaqueV):
                continue
            else:
                self.limit(f"base class {b!r}", node)
        if metaclass is None:
            for b in rbases:
                if isinstance(b, ClassV) and b.metaclass is not None:
                    metaclass = b.metaclass
                    break
        fr = self.frames[-1] if self.frames else None
        module = fr.module if fr else "?"
        name = node.name if env.kind != "class" else f"{env.owner}.{node.name}"
        cenv = Env(env, "class", name)
        cls = ClassV(name, module, rbases, cenv.vars, metaclass, node)
        cls.kwargs = kwargs
        cenv.vars["__qualname__"] = name
        cenv.vars["__module__"] = module
        # body: functions defined here know their defining class (zero-argument super())
        for s in node.body:
            if isinstance(s, ast.FunctionDef):
                self.frames and setattr(self.frames[-1], "node", s)
                f = self.make_function(s, cenv, defcls=cls)
                if f is not None:
                    cenv.vars[s.name] = f
            else:
                self.exec_stmt(s, cenv, run)
        cls.ns.setdefault("__name__", node.name)
        lib_names = {b.name for c in cls.mro for b in [c] if isinstance(b, LibClass)}
        if "enum.Enum" in lib_names:
            self.finish_enum(cls, run, node)
        if "BaseException" in lib_names:
            cls.flags["exception"] = True
        if any(isinstance(b, LibClass) and b.name == "typing.Protocol" for b in rbases):
            cls.flags["protocol"] = True
        if any(isinstance(b, LibClass) and b.name == "typing.NamedTuple" for b in rbases):
            self.finish_namedtuple(cls, run, node)
        # __init_subclass__ of the nearest base that defines one
        for b in cls.mro[1:]:
            if isinstance(b, ClassV) and "__init_subclass__" in b.ns:
                f = b.ns["__init_subclass__"]
                f = f.func if isinstance(f, WrapV) else f
                self.call(f, [cls], kwargs, run, node)
                break
        else:
            if kwargs and not cls.flags.get("namedtuple") and not any(
                    isinstance(c, LibClass) and c.name == "pydantic.BaseModel" for c in cls.mro):
                self.throw("TypeError", f"{name}.__init_subclass__() takes no keyword arguments", node)
        v = cls
        for d in reversed(node.decorator_list):
            v = self.apply_decorator(self.ev(d, env, run), v, run, node)
        return v

    def finish_enum(self, cls, run, node):
        members = {}
        anns = cls.ns.get("__annotations__")
        new = cls.ns.get("__new__")
        for k, v in list(cls.ns.items()):
            if k.startswith("_") or isinstance(v, (FuncV, WrapV)):
                continue
            if isinstance(v, Obj) and not isinstance(v, (InstV,)) and not is_concrete(v):
                continue
            if isinstance(v, (ClassV, LibClass, LibFn, DictV)):
                continue
            if new is not None:
                f = new.func if isinstance(new, WrapV) else new
                argv = list(v) if isinstance(v, tuple) else [v]
                obj = self.call(f, [cls] + argv, {}, run, node)
                if not isinstance(obj, InstV):
                    self.limit("enum __new__ did not return an instance", node)
                value = obj.attrs.get("_value_", argv[0])
                attrs = {a: x for a, x in obj.attrs.items() if a not in ("_value_", "_int_")}
                m = EnumMemberV(cls, k, value, attrs)
            else:
                m = EnumMemberV(cls, k, v, {})
            members[k] = m
            cls.ns[k] = m
        cls.flags["enum"] = members

    def finish_namedtuple(self, cls, run, node):
        anns = cls.ns.get("__annotations__")
        names = list(anns.d) if anns else []
        cls.flags["namedtuple"] = names
        cls.ns["__match_args__"] = tuple(names)

    def class_lookup(self, cls, name):
        for c in cls.mro:
            if isinstance(c, ClassV) and name in c.ns:
                return c.ns[name]
        return None

    def class_lookup_after(self, start_cls, after_cls, name):
        mro = start_cls.mro
        i = mro.index(after_cls) + 1 if after_cls in mro else 0
        for c in mro[i:]:
            if isinstance(c, ClassV) and name in c.ns:
                return c.ns[name]
        return None

    def bind_descr(self, v, obj, cls):
        """Descriptor protocol for values found in a class namespace."""
        if isinstance(v, WrapV):
            if v.kind == "classmethod":
                return BoundV(v.func, cls)
            if v.kind == "staticmethod":
                return v.func
            if v.kind == "property":
                if obj is None:
                    return v
                return self.call(v.func, [obj], {}, Run(), None)
        if isinstance(v, FuncV) and obj is not None:
            return BoundV(v, obj)
        return v

    def dataclass_fields(self, cls) -> list:
        """FieldV list of a dataclass ClassV (own + inherited), as dataclasses.fields()."""
        if "fields" in cls.flags:
            return cls.flags["fields"]
        out = {}
        for c in reversed(cls.mro):
            if not isinstance(c, ClassV) or "dataclass" not in c.flags:
                continue
            anns = c.ns.get("__annotations__")
            if anns is None:
                continue
            for name, t in anns.d.items():
                if isinstance(t, GenericV) and t.origin is LibFn.get("typing.ClassVar") or t is LibFn.get("typing.ClassVar"):
                    continue
                default = MISSING
                fv = None
                if name in c.ns:
                    dv = c.ns[name]
                    if isinstance(dv, FieldV):
                        fv = dv
                    else:
                        default = dv
                if fv is None:
                    fv = FieldV(name, t, default, DictV({}, frozen=True), owner=c.ref)
                else:
                    fv.name, fv.type, fv.owner = name, t, c.ref
                fv.kw_only = bool(c.flags["dataclass"].get("kw_only"))
                out[name] = fv
        cls.flags["fields"] = list(out.values())
        return cls.flags["fields"]

    def call_class(self, cls: ClassV, args, kwargs, run, node):
        if cls.metaclass is not None and isinstance(cls.metaclass, ClassV):
            mc = self.class_lookup(cls.metaclass, "__call__")
            if mc is not None:
                return self.call(mc, [cls] + list(args), kwargs, run, node)
        if "enum" in cls.flags:
            return self.enum_lookup(cls, args, run, node)
        if cls.entity is not None or "dataclass" in cls.flags:
            return self.dataclass_new(cls, args, kwargs, run, node)
        if cls.flags.get("namedtuple"):
            names = cls.flags["namedtuple"]
            vals = dict(zip(names, args))
            vals.update(kwargs)
            if set(vals) != set(names):
                self.throw("TypeError", f"{cls.name}() arguments {sorted(vals)} != fields {names}", node)
            inst = InstV(cls, {n: vals[n] for n in names}, frozen=True)
            return inst
        if cls.flags.get("exception"):
            inst = InstV(cls, {"args": tuple(args)})
            init = self.class_lookup(cls, "__init__")
            if init is not None:
                self.call(init, [inst] + list(args), kwargs, run, node)
            return inst
        inst = InstV(cls, {})
        init = self.class_lookup(cls, "__init__")
        if init is not None:
            self.call(init, [inst] + list(args), kwargs, run, node)
        elif args or kwargs:
            lib_bases = [c.name for c in cls.mro if isinstance(c, LibClass) and c.name not in ("object", "typing.Generic", "typing.Protocol")]
            if lib_bases:
                inst.attrs["_base_value_"] = self.call_libclass(LibClass.get(lib_bases[0]), args, kwargs, run, node)
            else:
                self.throw("TypeError", f"{cls.name}() takes no arguments", node)
        return inst

    def dataclass_new(self, cls, args, kwargs, run, node):
        fields = self.fields_of(cls)
        params = cls.flags.get("dataclass") or {}
        vals = {}
        pos = [f for f in fields if not f.kw_only]
        if len(args) > len(pos):
            self.throw("TypeError", f"{cls.name}() takes {len(pos)} positional arguments but {len(args)} were given", node)
        for f, a in zip(pos, args):
            vals[f.name] = a
        names = {f.name for f in fields}
        for k, v in kwargs.items():
            if k not in names:
                self.throw("TypeError", f"{cls.name}.__init__() got an unexpected keyword argument {k!r}", node)
            if k in vals:
                self.throw("TypeError", f"{cls.name}.__init__() got multiple values for argument {k!r}", node)
            vals[k] = v
        for f in fields:
            v = vals.get(f.name)
            if isinstance(v, Sym) and v.info.get("maybe_absent"):
                stored = v.info["alts"][:-1]
                if f.default is not MISSING:
                    dv = self.field_default(f)
                    vals[f.name] = Sym(("maybe", tuple(term_of(x) for x in stored), term_of(dv)), "any", alts=list(stored) + [dv])
                else:
                    run.emit("raise-site", "TypeError", self.site(node),
                             f"{cls.name}.__init__() misses required argument {f.name!r} on the path where it was not stored")
                    vals[f.name] = stored[0] if len(stored) == 1 else Sym(("maybe", tuple(term_of(x) for x in stored)), "any", alts=list(stored))
        for f in fields:
            if f.name not in vals:
                if f.default is not MISSING:
                    vals[f.name] = self.field_default(f)
                elif f.default_factory is not MISSING:
                    vals[f.name] = self.call(f.default_factory, [], {}, run, node)
                else:
                    self.throw("TypeError", f"{cls.name}.__init__() missing required keyword argument {f.name!r}", node)
        inst = InstV(cls, {f.name: vals[f.name] for f in fields}, frozen=bool(params.get("frozen", True)))
        post = self.class_lookup(cls, "__post_init__")
        if post is not None:
            self.call(post, [inst], {}, run, node)
        return inst

    def enum_lookup(self, cls, args, run, node):
        if len(args) != 1:
            self.throw("TypeError", "enum lookup takes one argument", node)
        v = args[0]
        members = cls.flags["enum"]
        if isinstance(v, EnumMemberV) and v.cls is cls:
            return v
        if isinstance(v, Sym):
            return self.sym_enum_lookup(cls, v, run, node)
        for m in members.values():
            if m.value == v and type(m.value) is type(v) or (isinstance(v, int) and isinstance(m.value, int) and m.value == v):
                return m
        self.throw("ValueError", f"{v!r} is not a valid {cls.name}", node)

    # ------------------------------------------------------------------ attribute access
    def getattr_(self, o, name, run, node):
        if isinstance(o, Sym):
            return self.sym_getattr(o, name, run, node)
        if isinstance(o, ModuleV):
            if name in o.env.vars:
                return o.env.vars[name]
            sub = f"{o.name}.{name}"
            if self.sm.get(sub) is not None:
                return self.module(sub)
            self.throw("AttributeError", f"module {o.name} has no attribute {name}", node)
        if isinstance(o, LibModule):
            return self.lib_attr(o, name, node)
        if isinstance(o, InstV) and isinstance(o.cls, LibClass) and o.cls.name == "struct.Struct" and name in ("pack", "unpack"):
            return BoundV(LibFn.get("struct.Struct." + name), o)
        if isinstance(o, InstV):
            if name in o.attrs:
                return o.attrs[name]
            if name == "__class__":
                return o.cls
            if isinstance(o.cls, LibClass) and o.cls.name in ("struct.Struct", "sys.float_info"):
                # a partially modelled library object: what is not modelled is a limit, never an AttributeError of the program
                self.limit(f"attribute {name!r} of a {o.cls.name} object is not modelled", node)
            v = self.class_lookup(o.cls, name)
            if v is not None:
                return self.bind_descr(v, o, o.cls)
            if isinstance(o.cls, ClassV) and o.cls.flags.get("exception") and name == "add_note":
                return LibFn.get("noop")
            if "_base_value_" in o.attrs:
                return self.getattr_(o.attrs["_base_value_"], name, run, node)
            if isinstance(o.cls, LibClass) and not any(c.name == "BaseException" for c in o.cls.mro):
                self.limit(f"attribute {name!r} of a library object ({o.cls.name}) is not modelled", node)
            self.throw("AttributeError", f"{o.cls.name!r} object has no attribute {name!r}", node)
        if isinstance(o, ClassV):
            return self.class_getattr(o, name, run, node)
        if isinstance(o, EnumMemberV):
            if name == "value" or name == "_value_":
                return o.value
            if name == "name":
                return o.name
            if name in o.attrs:
                return o.attrs[name]
            v = self.class_lookup(o.cls, name)
            if v is not None:
                return self.bind_descr(v, o, o.cls)
            if isinstance(o.value, int):
                return self.lib_value_attr(o.value, name, run, node)
            self.throw("AttributeError", f"enum member has no attribute {name}", node)
        if isinstance(o, FieldV):
            if name == "default":
                return self.field_default(o)
            if name in ("name", "type", "default_factory", "metadata", "kw_only"):
                return getattr(o, name)
            self.throw("AttributeError", f"Field has no attribute {name}", node)
        if isinstance(o, SuperV):
            v = self.class_lookup_after(o.obj if isinstance(o.obj, ClassV) else o.obj.cls, o.cls, name)
            if v is None:
                if name == "__init_subclass__":
                    return LibFn.get("object.__init_subclass__")
                if name in ("__init__", "__new__", "__setattr__", "__eq__", "__hash__"):
                    return BoundV(LibFn.get(f"object.{name}"), o.obj)
                self.throw("AttributeError", f"super object has no attribute {name}", node)
            if isinstance(v, WrapV) and v.kind == "classmethod":
                return BoundV(v.func, o.obj if isinstance(o.obj, ClassV) else o.obj.cls)
            if isinstance(v, FuncV):
                # __init_subclass__ is an implicit classmethod
                return BoundV(v, o.obj)
            return v
        if isinstance(o, BoundV) or isinstance(o, FuncV):
            if name == "__name__":
                f = o.func if isinstance(o, BoundV) else o
                return f.name
            if name == "__qualname__":
                f = o.func if isinstance(o, BoundV) else o
                return f.qualname
            if name == "__module__":
                return (o.func if isinstance(o, BoundV) else o).module
            if name == "__wrapped__":
                return o
            if name in ("cache_clear", "cache_info"):
                return LibFn.get("noop")
        return self.lib_value_attr(o, name, run, node)

    def class_getattr(self, cls: ClassV, name, run, node):
        if name == "__name__":
            return cls.ns.get("__name__", cls.name)
        if name == "__qualname__":
            return cls.name
        if name == "__module__":
            return cls.module
        if name == "__mro__":
            return tuple(cls.mro)
        if name == "__bases__":
            return tuple(cls.bases)
        if name == "__dict__":
            return DictV(dict(cls.ns), frozen=True)
        if name == "__match_args__" and ("dataclass" in cls.flags or cls.entity is not None) and "__match_args__" not in cls.ns:
            return tuple(f.name for f in self.fields_of(cls) if not f.kw_only)
        if name == "__dataclass_fields__" and ("dataclass" in cls.flags or cls.entity is not None):
            return DictV({f.name: f for f in self.fields_of(cls)})
        v = self.class_lookup(cls, name)
        if v is not None:
            if isinstance(v, FieldV):  # slots dataclass: the class attribute is the default or absent
                if v.default is MISSING:
                    self.throw("AttributeError", f"type object {cls.name!r} has no attribute {name!r}", node)
                return self.field_default(v)
            return self.bind_descr(v, None, cls)
        if cls.metaclass is not None and isinstance(cls.metaclass, ClassV):
            mv = self.class_lookup(cls.metaclass, name)
            if mv is not None:
                return self.bind_descr(mv, cls, cls.metaclass)
        for c in cls.mro:
            if isinstance(c, LibClass) and c.name not in ("object",):
                r = self.libclass_attr(c, name, node, probe=True)
                if r is not NotImplemented:
                    if isinstance(r, LibFn) and r.name.endswith((".parse",)):
                        return r
                    return r
        if cls.entity is not None and name in {f["name"] for f in cls.entity["fields"]}:
            self.throw("AttributeError", f"type object {cls.name!r} has no attribute {name!r} (slots dataclass)", node)
        if name == "__hash__":
            opts = cls.flags.get("dataclass")
            if cls.entity is not None:
                return LibFn.get("object.__hash__")  # generated entities: dataclass(frozen=True, ...) (C15 checks the decorator)
            if opts is not None and opts.get("eq", True) and not opts.get("frozen", False) and not opts.get("unsafe_hash", False):
                return None  # eq without frozen: __hash__ is set to None
            if opts is not None or not any(isinstance(c, ClassV) and "__eq__" in c.ns for c in cls.mro):
                return LibFn.get("object.__hash__")
        if name in ("__eq__", "__ne__", "__lt__", "__le__", "__gt__", "__ge__", "__init__", "__new__", "__repr__", "__str__", "__format__",
                    "__dict__", "__doc__", "__mro__", "__bases__", "__setattr__", "__delattr__", "__getattribute__", "__reduce__",
                    "__reduce_ex__", "__sizeof__", "__subclasshook__", "__dir__", "__getstate__", "__weakref__", "__subclasses__",
                    "__call__", "__basicsize__", "__flags__", "__text_signature__", "__type_params__"):
            # special attributes every class inherits from object / gets from decorators: not modelled one by one
            self.limit(f"special attribute {name} of class {cls.name} is not modelled", node)
        self.throw("AttributeError", f"type object {cls.name!r} has no attribute {name!r}", node)

    def setattr_(self, o, name, v, run, node):
        if isinstance(o, (ClassV, ModuleV)) or (isinstance(o, InstV) and not o.frozen):
            run.emit("mutate", o, f"setattr:{name}", self.site(node))
        if isinstance(o, ClassV):
            o.ns[name] = v
            return
        if isinstance(o, InstV):
            if o.frozen:
                self.throw(LibClass.get("AttributeError"), f"cannot assign to field {name!r} (frozen)", node)
            o.attrs[name] = v
            return
        if isinstance(o, ModuleV):
            o.env.vars[name] = v
            return
        self.limit(f"attribute store on {o!r}", node)

    # ------------------------------------------------------------------ expressions
    def ev_annotation(self, e, env, run):
        try:
            return self.ev(e, env, run)
        except (Limit, Raised):
            return OpaqueV(f"annotation {ast.unparse(e)[:40]}")

    _LOCALS_CACHE: dict = {}

    def function_locals(self, fnode):
        """Names bound somewhere in the function body (Python decides 'local' at compile time)."""
        got = self._LOCALS_CACHE.get(id(fnode))
        if got is None:
            names, declared = set(), set()
            stack = list(getattr(fnode, "body", []))
            while stack:
                n = stack.pop()
                if isinstance(n, (ast.FunctionDef, ast.AsyncFunctionDef, ast.ClassDef)):
                    names.add(n.name)
                    continue
                if isinstance(n, ast.Lambda):
                    continue
                if isinstance(n, (ast.Global, ast.Nonlocal)):
                    declared |= set(n.names)
                if isinstance(n, ast.Name) and isinstance(n.ctx, (ast.Store, ast.Del)):
                    names.add(n.id)
                if isinstance(n, ast.ExceptHandler) and n.name:
                    names.add(n.name)
                if isinstance(n, (ast.Import, ast.ImportFrom)):
                    names |= {(a.asname or a.name).split(".")[0] for a in n.names}
                if isinstance(n, (ast.ListComp, ast.SetComp, ast.DictComp, ast.GeneratorExp)):
                    # comprehension targets are local to the comprehension; only its outermost iterable belongs to us
                    stack.append(n.generators[0].iter)
                    continue
                stack.extend(ast.iter_child_nodes(n))
            got = self._LOCALS_CACHE[id(fnode)] = (frozenset(names - declared), fnode)
        return got[0]

    def lookup_name(self, name, env, node):
        v, e = env.lookup(name)
        fr = self.frames[-1] if self.frames else None
        fn = getattr(fr, "fn", None)
        if fn is not None and isinstance(getattr(fn, "node", None), (ast.FunctionDef, ast.AsyncFunctionDef)) and e is not None and \
                e.kind != "function" and e is not env and name in self.function_locals(fn.node) and self._env_of_frame(env, fn):
            # the name is local to the running function but not bound yet: Python does not fall back to the enclosing scope
            raise Raised(InstV(LibClass.get("UnboundLocalError"), {"args": (f"cannot access local variable {name!r} where it is not "
                                                                           f"associated with a value",)}), site=self.site(node))
        if e is not None:
            return v
        if fn is not None and isinstance(getattr(fn, "node", None), (ast.FunctionDef, ast.AsyncFunctionDef)) and \
                name in self.function_locals(fn.node):
            raise Raised(InstV(LibClass.get("UnboundLocalError"), {"args": (f"cannot access local variable {name!r} where it is not "
                                                                           f"associated with a value",)}), site=self.site(node))
        if name in self.builtins:
            return self.builtins[name]
        raise Raised(InstV(LibClass.get("NameError"), {"args": (f"name {name!r} is not defined",)}), site=self.site(node))

    def _env_of_frame(self, env, fn):
        """True when `env` is the running function's own scope (not a comprehension / class body nested in it)."""
        return env.kind == "function" and env.owner is fn

    def ev(self, e, env, run):
        run.steps += 1
        k = type(e)
        if k is ast.Constant:
            return e.value
        if k is ast.Name:
            return self.lookup_name(e.id, env, e)
        if k is ast.Attribute:
            return self.getattr_(self.ev(e.value, env, run), e.attr, run, e)
        if k is ast.Call:
            return self.ev_call(e, env, run)
        if k is ast.BinOp:
            return self.binop(BINOPS[type(e.op)], self.ev(e.left, env, run), self.ev(e.right, env, run), run, e)
        if k is ast.UnaryOp:
            v = self.ev(e.operand, env, run)
            if isinstance(e.op, ast.Not):
                return not self.truth(v, run, e)
            return self.unop(type(e.op).__name__, v, run, e)
        if k is ast.BoolOp:
            v = None
            for x in e.values:
                v = self.ev(x, env, run)
                t = self.truth(v, run, x)
                if isinstance(e.op, ast.And) and not t:
                    return v
                if isinstance(e.op, ast.Or) and t:
                    return v
            return v
        if k is ast.Compare:
            left = self.ev(e.left, env, run)
            res = True
            for op, r in zip(e.ops, e.comparators):
                right = self.ev(r, env, run)
                res = self.compare(CMPOPS[type(op)], left, right, run, e)
                if len(e.ops) > 1 and not self.truth(res, run, e):
                    return False
                left = right
            return res
        if k is ast.IfExp:
            return self.ev(e.body if self.truth(self.ev(e.test, env, run), run, e.test) else e.orelse, env, run)
        if k is ast.Tuple:
            out = []
            for x in e.elts:
                if isinstance(x, ast.Starred):
                    out.extend(self.iterate_concrete(self.ev(x.value, env, run), run, x))
                else:
                    out.append(self.ev(x, env, run))
            return tuple(out)
        if k is ast.List:
            out = []
            for x in e.elts:
                if isinstance(x, ast.Starred):
                    out.extend(self.iterate_concrete(self.ev(x.value, env, run), run, x))
                else:
                    out.append(self.ev(x, env, run))
            return ListV(out, site=self.site(e))
        if k is ast.Set:
            return self.call_libclass(LibClass.get("frozenset"), [tuple(self.ev(x, env, run) for x in e.elts)], {}, run, e)
        if k is ast.Dict:
            d = {}
            for kk, vv in zip(e.keys, e.values):
                if kk is None:
                    src = self.ev(vv, env, run)
                    if isinstance(src, DictV):
                        d.update(src.d)
                    else:
                        self.limit("** of non-dict in dict display", e)
                else:
                    d[self.hashable(self.ev(kk, env, run), e)] = self.ev(vv, env, run)
            return DictV(d, site=self.site(e))
        if k is ast.Subscript:
            return self.getitem(self.ev(e.value, env, run), self.ev(e.slice, env, run), run, e)
        if k is ast.Slice:
            return ("slice", self.ev(e.lower, env, run) if e.lower else None,
                    self.ev(e.upper, env, run) if e.upper else None, self.ev(e.step, env, run) if e.step else None)
        if k is ast.JoinedStr:
            parts = []
            for x in e.values:
                if isinstance(x, ast.Constant):
                    parts.append(x.value)
                else:
                    try:
                        v = self.ev(x.value, env, run)
                    except Raised:
                        raise
                    if isinstance(v, InstV) and isinstance(v.attrs.get("_base_value_"), str) and isinstance(v.cls, ClassV) and \
                            not any(self.class_lookup(v.cls, m) is not None for m in ("__str__", "__format__", "__repr__")):
                        v = v.attrs["_base_value_"]  # instance of a str subclass without its own formatting
                    if (isinstance(v, (str, int)) or v is None) and x.conversion == -1 and x.format_spec is None:
                        parts.append(str(v))  # str, int, bool and None format as str() gives them
                    elif isinstance(v, str) and x.conversion == ord("r") and x.format_spec is None:
                        parts.append(repr(v))
                    else:
                        return Sym(("fstring", ast.unparse(e)[:60]), "str")
            return "".join(parts)
        if k is ast.Lambda:
            return FuncV(e, env, self.frames[-1].module if self.frames else "?",
                         (self.frames[-1].fn.qualname + ".<lambda>") if self.frames and self.frames[-1].fn else "<lambda>",
                         [self.ev(d, env, run) for d in e.args.defaults], [None] * len(e.args.kwonlyargs))
        if k in (ast.GeneratorExp, ast.ListComp, ast.SetComp):
            return self.ev_comp(e, env, run)
        if k is ast.DictComp:
            return self.ev_dictcomp(e, env, run)
        if k is ast.NamedExpr:
            v = self.ev(e.value, env, run)
            self.assign(e.target, v, env, run)
            return v
        if k is ast.Yield:
            ys = env.lookup("__yields__")[0]
            if ys is None:
                self.limit("yield outside a generator function", e)
            ys.items.append(self.ev(e.value, env, run) if e.value is not None else None)
            return None
        if k is ast.YieldFrom:
            ys = env.lookup("__yields__")[0]
            if ys is None:
                self.limit("yield from outside a generator function", e)
            ys.items.extend(self.iterate_concrete(self.ev(e.value, env, run), run, e))
            return None
        if k is ast.Starred:
            self.limit("starred expression", e)
        self.limit(f"expression {k.__name__}", e)

    def ev_call(self, e, env, run):
        fn = self.ev(e.func, env, run)
        args = []
        for a in e.args:
            if isinstance(a, ast.Starred):
                args.extend(self.iterate_concrete(self.ev(a.value, env, run), run, a))
            else:
                args.append(self.ev(a, env, run))
        kwargs = {}
        for kw in e.keywords:
            if kw.arg is None:
                d = self.ev(kw.value, env, run)
                if not isinstance(d, DictV):
                    self.limit("** of non-dict", e)
                for kk, vv in d.d.items():
                    if not isinstance(kk, str):
                        self.throw("TypeError", "keywords must be strings", e)
                    over = (d.may or {}).get(kk)
                    if over:
                        # seeded before a loop and possibly overwritten by it: what the loop stored, or the seeded value
                        kwargs[kk] = Sym(("maybe", tuple(term_of(x) for x in over), term_of(vv)), "any", alts=list(over) + [vv])
                    else:
                        kwargs[kk] = vv
                for kk, vs in (d.may or {}).items():
                    if kk not in d.d and isinstance(kk, str):
                        # keyword present only when an earlier loop stored it
                        kwargs[kk] = Sym(("maybe", tuple(term_of(x) for x in vs), ("absent",)), "any", alts=list(vs) + [MISSING],
                                         maybe_absent=True)
            else:
                kwargs[kw.arg] = self.ev(kw.value, env, run)
        if isinstance(fn, LibFn) and fn.name == "super" and not args:
            cls = env.lookup("__class__")[0]
            fr = self.frames[-1].fn
            first = fr.node.args.args[0].arg if fr and fr.node.args.args else None
            obj = env.lookup(first)[0] if first else None
            if cls is None or obj is None:
                self.limit("zero-argument super() outside a method", e)
            return SuperV(cls, obj)
        if self.frames:
            self.frames[-1].node = e
        return self.call(fn, args, kwargs, run, e, higher_order=self.is_higher_order(e.func, env))

    def comp_iter(self, gens, env, run, body):
        """Run `body(env)` for each binding of the (concrete) generators."""
        g = gens[0]
        it = self.ev(g.iter, env, run)
        seq = self.iterate(it, run, g.iter)
        if seq is None:
            return it  # symbolic: caller handles
        for item in seq:
            self.assign(g.target, item, env, run)
            if all(self.truth(self.ev(c, env, run), run, c) for c in g.ifs):
                if len(gens) > 1:
                    r = self.comp_iter(gens[1:], env, run, body)
                    if r is not None:
                        self.limit("symbolic inner generator", g.iter)
                else:
                    body(env)
        return None

    def ev_comp(self, e, env, run):
        sub = Env(env, "function", env.owner)
        out = []
        r = self.comp_iter(e.generators, sub, run, lambda en: out.append(self.ev(e.elt, en, run)))
        if r is not None:
            return self.sym_comp(e, r, sub, run)
        if isinstance(e, ast.GeneratorExp):
            return tuple(out)  # generators are consumed once by tuple()/max()/...: a tuple is a faithful stand-in
        if isinstance(e, ast.SetComp):
            return frozenset(out)
        return ListV(out, site=self.site(e))

    def ev_dictcomp(self, e, env, run):
        sub = Env(env, "function", env.owner)
        d = {}

        def body(en):
            kk = self.hashable(self.ev(e.key, en, run), e)
            d[kk] = self.ev(e.value, en, run)
        r = self.comp_iter(e.generators, sub, run, body)
        if r is not None:
            self.limit("dict comprehension over symbolic iterable", e)
        return DictV(d, site=self.site(e))

    def hashable(self, v, node):
        if isinstance(v, (DictV, ListV)):
            self.throw("TypeError", "unhashable type", node)
        return v

    def iterate_concrete(self, v, run, node):
        seq = self.iterate(v, run, node)
        if seq is None:
            self.limit("iteration over a symbolic value where a concrete sequence is required", node)
        return seq

    def iterate(self, v, run, node):
        """Concrete list of items, or None when the iterable is symbolic."""
        if isinstance(v, GenV):
            v = self.gen_rest(v)
        if isinstance(v, (tuple, list)):
            return list(v)
        if isinstance(v, (str, bytes)):
            return list(v)
        if isinstance(v, range):
            return v if len(v) > 10_000 else list(v)  # long ranges are iterated lazily
        if isinstance(v, ListV):
            if v.may:
                return None
            return list(v.items)
        if isinstance(v, DictV):
            if v.may:
                self.limit("iteration over a weakly updated dict", node)
            return list(v.d.keys())
        if isinstance(v, frozenset):
            return sorted(v, key=repr)
        if isinstance(v, Sym):
            return None
        if isinstance(v, ClassV) and "enum" in v.flags:
            return list(v.flags["enum"].values())
        if isinstance(v, InstV) and isinstance(v.cls, ClassV) and v.cls.flags.get("namedtuple"):
            return [v.attrs[k] for k in v.cls.flags["namedtuple"]]
        self.limit(f"iteration over {v!r}", node)

    def truth(self, v, run, node) -> bool:
        if isinstance(v, Sym):
            return self.sym_truth(v, run, node)
        if isinstance(v, DictV):
            if v.may:
                return self.sym_truth(Sym(nonempty_term(term_of(v)), "bool"), run, node)
            return bool(v.d)
        if isinstance(v, ListV):
            if v.may:
                return self.sym_truth(Sym(nonempty_term(term_of(v)), "bool"), run, node)
            return bool(v.items)
        if isinstance(v, Obj):
            return True
        if isinstance(v, tuple):
            return bool(v)
        return bool(v)


def _load(t):
    import copy
    n = copy.copy(t)
    n.ctx = ast.Load()
    return n
