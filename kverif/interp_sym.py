"""E2 symbolic operations: typed symbols, bit-level integers, forking on undecided
conditions, stream effects, loops with symbolic trip counts (summarised as Repeat)."""
from __future__ import annotations

import ast
import datetime as _dt
import struct as _struct
import uuid as _uuid

from .interp_base import *  # noqa: F401,F403
from .interp_base import Limit, Raised, Run, _Return, _Break, _Continue, _ids, NeedInline
from .interp_core import is_concrete, NONETYPE

FMT_RANGE = {"b": (8, True), "B": (8, False), "h": (16, True), "H": (16, False), "i": (32, True), "I": (32, False),
             "l": (32, True), "L": (32, False), "q": (64, True), "Q": (64, False)}
MUTATING_STREAM = {"write", "seek", "truncate", "flush", "close", "writelines", "readinto", "read", "readline",
                   "readlines", "read1", "peek"}


def kterm(v):
    return term_of(v)


class SymMixin:
    # ------------------------------------------------------------------ typed symbols
    def alts(self, t) -> list:
        if isinstance(t, UnionV):
            out = []
            for a in t.args:
                out.extend(self.alts(a))
            return out
        if t is None:
            return [NONETYPE]
        return [t]

    def base_kind(self, t):
        """(kind, info) of values of declared type t (a single alternative)."""
        L = LibClass.get
        if isinstance(t, GenericV):
            if t.origin is L("tuple"):
                return "tuple", {"elem": t.args[0] if t.args else None}
            if isinstance(t.origin, LibClass) and t.origin.name == "type":
                return "any", {}
            return "any", {}
        if isinstance(t, LibClass):
            n = t.name
            m = {"int": "int", "bool": "bool", "str": "str", "bytes": "bytes", "float": "float", "NoneType": "none",
                 "datetime.timedelta": "timedelta", "datetime.datetime": "datetime", "uuid.UUID": "uuid",
                 "tuple": "tuple", "io.BytesIO": "stream", "typing.IO": "stream", "asyncio.StreamWriter": "stream"}
            return m.get(n, "any"), {}
        if isinstance(t, ClassV):
            if "enum" in t.flags:
                return "enum", {"cls": t}
            if t.entity is not None or "dataclass" in t.flags:
                return "inst", {"cls": t}
            info = {"cls": t}
            low, high = self.class_lookup(t, "__low__"), self.class_lookup(t, "__high__")
            for c in t.mro:
                if isinstance(c, LibClass) and c.name in ("int", "str", "bytes", "float", "datetime.timedelta", "datetime.datetime"):
                    k = {"datetime.timedelta": "timedelta", "datetime.datetime": "datetime"}.get(c.name, c.name)
                    if k == "int" and isinstance(low, int) and isinstance(high, int):
                        info.update(lo=low, hi=high)
                    return k, info
            return "inst", info
        return "any", {}

    def sym_of_type(self, term, t, **extra) -> Sym:
        alts = self.alts(t)
        non_none = [a for a in alts if a is not NONETYPE]
        info = {"vtype": t}
        kind = "any"
        if len(non_none) == 1:
            kind, i2 = self.base_kind(non_none[0])
            info.update(i2)
        elif not non_none:
            kind = "none"
        if len(alts) > len(non_none):
            info["maybe_none"] = True
        info.update(extra)
        s = Sym(term, kind, **info)
        if kind == "int" and "lo" in info and "hi" in info:
            s.info["bv"] = self.bv_for_range(term, info["lo"], info["hi"])
        return s

    def bv_for_range(self, name, lo, hi):
        if lo >= 0:
            w = max(hi.bit_length(), 1)
            return BV.atom(name, w, False)
        w = max((-lo - 1).bit_length(), hi.bit_length()) + 1
        return BV.atom(name, w, True)

    def vtype(self, s: Sym, run):
        return run.refined.get(s.term, s.info.get("vtype"))

    def kind_of(self, s: Sym, run):
        if s.term in run.refined:
            alts = [a for a in self.alts(run.refined[s.term])]
            non_none = [a for a in alts if a is not NONETYPE]
            if len(non_none) == 1 and len(alts) == 1:
                return self.base_kind(non_none[0])[0]
            if not non_none:
                return "none"
            if len(non_none) == 1:
                return self.base_kind(non_none[0])[0]
            return "any"
        return s.kind

    def maybe_none(self, s: Sym, run) -> bool:
        if s.term in run.refined:
            return NONETYPE in self.alts(run.refined[s.term])
        if s.kind == "none":
            return True
        return bool(s.info.get("maybe_none"))

    # ------------------------------------------------------------------ truth / decisions
    def codec_dependency(self, t):
        """uid of a higher-order callee whose opaque result occurs in term t (or None)."""
        if isinstance(t, tuple):
            if len(t) == 3 and t[0] == "codec" and isinstance(t[1], int) and isinstance(t[2], int):
                return t
            for x in t:
                r = self.codec_dependency(x)
                if r is not None:
                    return r
        return None

    def sym_truth(self, v: Sym, run, node) -> bool:
        t = v.term
        dep = self.codec_dependency(t)
        if dep is not None and t[0] != "maybe":
            raise NeedInline(dep)
        if t[0] == "not":
            return not self.sym_truth(Sym(t[1], "bool"), run, node)
        if t[0] == "and_":
            return all(self.sym_truth(Sym(x, "bool"), run, node) for x in t[1:])
        if t[0] == "or_":
            return any(self.sym_truth(Sym(x, "bool"), run, node) for x in t[1:])
        k = self.kind_of(v, run)
        if k == "bool" or t[0] in ("eq", "ne", "lt", "le", "gt", "ge", "is", "isinstance", "nonzero", "nonempty", "haskey", "in"):
            d = run.decide(t, self.site(node))
            self.learn_range(t, d, run)
            return d
        if k == "none":
            return False
        if k == "int":
            bv = v.info.get("bv")
            if bv is not None and bv.known_zero():
                return False
            lo, hi = v.info.get("lo"), v.info.get("hi")
            if lo is not None and lo > 0 or hi is not None and hi < 0:
                return True
            return run.decide(("nonzero", t), self.site(node))
        if k in ("bytes", "str", "tuple"):
            ln = v.info.get("len")
            if isinstance(ln, int):
                return ln > 0
            if self.maybe_none(v, run):
                if not run.decide(("is", t, ("k", None)), self.site(node)):
                    self.refine_none(v, run, False)
                else:
                    self.refine_none(v, run, True)
                    return False
            return run.decide(nonempty_term(t), self.site(node))
        if k in ("inst", "enum", "datetime", "uuid", "stream"):
            if self.maybe_none(v, run):
                isn = run.decide(("is", t, ("k", None)), self.site(node))
                self.refine_none(v, run, isn)
                return not isn
            return True
        if k == "timedelta":
            return run.decide(("nonzero", t), self.site(node))
        return run.decide(("truthy", t), self.site(node))

    def learn_range(self, t, d, run):
        """Record what a decided ordering comparison against a constant says about a term."""
        if t[0] not in ("lt", "le", "gt", "ge", "eq") or len(t) != 3:
            return
        op, a, b = t
        if isinstance(b, tuple) and b and b[0] == "k" and isinstance(b[1], int) and not isinstance(b[1], bool):
            x, c = a, b[1]
        elif isinstance(a, tuple) and a and a[0] == "k" and isinstance(a[1], int) and not isinstance(a[1], bool):
            x, c = b, a[1]
            op = {"lt": "gt", "le": "ge", "gt": "lt", "ge": "le", "eq": "eq"}[op]
        else:
            return
        if not d:
            if op == "eq":
                return
            op = {"lt": "ge", "le": "gt", "gt": "le", "ge": "lt"}[op]
        lo, hi = run.ranges.get(x, (None, None))
        if op == "eq":
            lo, hi = c, c
        elif op == "lt":
            hi = c - 1 if hi is None else min(hi, c - 1)
        elif op == "le":
            hi = c if hi is None else min(hi, c)
        elif op == "gt":
            lo = c + 1 if lo is None else max(lo, c + 1)
        elif op == "ge":
            lo = c if lo is None else max(lo, c)
        run.ranges[x] = (lo, hi)

    def refine_none(self, s: Sym, run, is_none: bool):
        t = self.vtype(s, run)
        if t is None:
            run.refined[s.term] = NONETYPE if is_none else run.refined.get(s.term, OpaqueV("not-none"))
            if not is_none:
                run.refined.pop(s.term, None)
                run.notnone = getattr(run, "notnone", set()) | {s.term}
            return
        alts = self.alts(t)
        keep = [a for a in alts if (a is NONETYPE) == is_none]
        if not keep:
            return
        run.refined[s.term] = keep[0] if len(keep) == 1 else UnionV(keep)

    def sym_not(self, s: Sym) -> Sym:
        if s.term[0] == "not":
            return Sym(s.term[1], "bool")
        return Sym(("not", s.term), "bool")

    def boolop_and(self, a, b):
        return Sym(("and_", kterm(a), kterm(b)), "bool")

    def boolop_or(self, a, b):
        return Sym(("or_", kterm(a), kterm(b)), "bool")

    # ------------------------------------------------------------------ identity / isinstance
    def sym_identical(self, a, b, run, node):
        if isinstance(b, Sym) and not isinstance(a, Sym):
            a, b = b, a
        if b is None:
            if not self.maybe_none(a, run):
                nn = getattr(run, "notnone", set())
                if a.kind != "any" or a.term in run.refined or a.term in nn or "vtype" in a.info:
                    return False
                if a.term[0] in ("codec", "maybe") or a.info.get("opaque_none"):
                    pass
                else:
                    return False
            if self.kind_of(a, run) == "none":
                return True
            d = run.decide(("is", a.term, ("k", None)), self.site(node))
            self.refine_none(a, run, d)
            return d
        if isinstance(b, Sym):
            if a.term == b.term:
                return True
            return Sym(("is", a.term, b.term), "bool")
        if isinstance(b, EnumMemberV):
            return self.sym_compare("eq", a, b, run, node)
        if isinstance(b, bool):
            return Sym(("is", a.term, kterm(b)), "bool")
        if isinstance(b, MissingType):
            return False  # no run-time value of an entity attribute or wire read is the MISSING sentinel
        return Sym(("is", a.term, kterm(b)), "bool")

    def type_matches(self, alt, cls) -> bool:
        """Is every value of declared alternative `alt` an instance of cls (plain class)?"""
        if isinstance(alt, GenericV):
            alt = alt.origin
        if isinstance(alt, (ClassV, LibClass)):
            return self.is_subclass(alt, cls)
        return False

    def sym_isinstance(self, v: Sym, cls, run, node):
        if v.info.get("one_of"):
            res = {self.isinstance_(c, cls, run, node) for c in v.info["one_of"]}
            if res == {True}:
                return True
            if res == {False}:
                return False
            return Sym(("isinstance", v.term, kterm(cls)), "bool")
        t = self.vtype(v, run)
        if t is not None and not isinstance(t, OpaqueV):
            alts = self.alts(t)
            yes = [a for a in alts if self.type_matches(a, cls)]
            if len(yes) == len(alts):
                return True
            if not yes:
                # a declared alternative might still be a *superclass* of cls (e.g. int vs bool): be careful
                if any(isinstance(a, (ClassV, LibClass)) and self.is_subclass(cls, a) for a in alts if not isinstance(a, GenericV)):
                    return Sym(("isinstance", v.term, kterm(cls)), "bool")
                return False
            d = run.decide(("isinstance", v.term, kterm(cls)), self.site(node))
            keep = yes if d else [a for a in alts if a not in yes]
            run.refined[v.term] = keep[0] if len(keep) == 1 else UnionV(keep)
            return d
        k = self.kind_of(v, run)
        kind_cls = {"int": "int", "bool": "bool", "str": "str", "bytes": "bytes", "float": "float", "none": "NoneType",
                    "timedelta": "datetime.timedelta", "datetime": "datetime.datetime", "uuid": "uuid.UUID",
                    "tuple": "tuple"}
        if k in kind_cls:
            have = LibClass.get(kind_cls[k])
            if "cls" in v.info and isinstance(v.info["cls"], ClassV):
                have = v.info["cls"]
            if self.is_subclass(have, cls):
                if self.maybe_none(v, run) and k != "none":
                    isn = run.decide(("is", v.term, ("k", None)), self.site(node))
                    self.refine_none(v, run, isn)
                    return not isn
                return True
            if isinstance(cls, (ClassV, LibClass)) and self.is_subclass(cls, have) and cls is not have:
                return Sym(("isinstance", v.term, kterm(cls)), "bool")
            return False
        if k in ("inst", "enum") and "cls" in v.info:
            return self.is_subclass(v.info["cls"], cls)
        return Sym(("isinstance", v.term, kterm(cls)), "bool")

    # ------------------------------------------------------------------ arithmetic
    def int_parts(self, v, run=None):
        """(bv | None, lo, hi) of an int-like value (ranges refined by the path's facts)."""
        bv, lo, hi = self._int_parts(v)
        if run is not None and isinstance(v, Sym):
            r = run.ranges.get(v.term) if hasattr(run, "ranges") else None
            if r is not None:
                if r[0] is not None:
                    lo = r[0] if lo is None else max(lo, r[0])
                if r[1] is not None:
                    hi = r[1] if hi is None else min(hi, r[1])
        return bv, lo, hi

    def _int_parts(self, v):
        if isinstance(v, bool):
            v = int(v)
        if isinstance(v, int):
            return BV.const(v), v, v
        if isinstance(v, EnumMemberV) and isinstance(v.value, int):
            return BV.const(v.value), v.value, v.value
        if isinstance(v, Sym):
            return v.info.get("bv"), v.info.get("lo"), v.info.get("hi")
        return None, None, None

    def mk_int(self, term, bv=None, lo=None, hi=None, **extra) -> object:
        if bv is not None and not bv.has_top() and bv.is_const():
            return bv.const_value()
        info = dict(extra)
        if bv is not None and not bv.has_top():
            info["bv"] = bv
            if bv.ext == BV.ZERO:
                lo = max(lo, 0) if lo is not None else 0
                hb = (1 << bv.width()) - 1
                hi = min(hi, hb) if hi is not None else hb
        if lo is not None:
            info["lo"] = lo
        if hi is not None:
            info["hi"] = hi
        return Sym(term, "int", **info)

    def sym_binop(self, op, a, b, run, node):
        ka = self.kind_of(a, run) if isinstance(a, Sym) else None
        kb = self.kind_of(b, run) if isinstance(b, Sym) else None
        term = (op, kterm(a), kterm(b))
        intish = lambda v, k: k in ("int", "bool") or (not isinstance(v, Sym) and isinstance(v, int)) or \
            (isinstance(v, EnumMemberV) and isinstance(v.value, int))
        if intish(a, ka) and intish(b, kb):
            ba, la, ha = self.int_parts(a, run)
            bb, lb, hb = self.int_parts(b, run)
            bv = lo = hi = None
            if op in ("and", "or", "xor") and ba is not None and bb is not None:
                bv = {"and": ba.__and__, "or": ba.__or__, "xor": ba.__xor__}[op](bb)
            elif op in ("shl", "shr") and ba is not None and bb is not None and bb.is_const() and 0 <= bb.const_value() <= 256:
                bv = (ba << bb.const_value()) if op == "shl" else (ba >> bb.const_value())
            elif op == "add" and ba is not None and bb is not None:
                bv = ba.add(bb)
            if op == "add":
                lo = la + lb if None not in (la, lb) else None
                hi = ha + hb if None not in (ha, hb) else None
            elif op == "sub":
                lo = la - hb if None not in (la, hb) else None
                hi = ha - lb if None not in (ha, lb) else None
            elif op == "mul" and None not in (la, lb, ha, hb):
                c = [la * lb, la * hb, ha * lb, ha * hb]
                lo, hi = min(c), max(c)
            elif op == "and" and ((la is not None and la >= 0) or (lb is not None and lb >= 0)):
                lo = 0
                cands = [h for l, h in ((la, ha), (lb, hb)) if l is not None and l >= 0 and h is not None]
                hi = min(cands) if cands else None
            elif op in ("div",):
                return Sym(term, "float", inexact=True)
            if op == "div":
                return Sym(term, "float", inexact=True)
            if bv is not None and bv.has_top():
                bv = None
            return self.mk_int(term, bv, lo, hi)
        kinds = {ka, kb} - {None}
        if op == "div":
            if ka == "timedelta" and kb == "timedelta":
                return Sym(term, "float", inexact=True)
            if ka == "timedelta":
                return Sym(term, "timedelta")
            return Sym(term, "float", inexact=True)
        if op == "floordiv":
            if ka == "timedelta" and (kb == "timedelta" or isinstance(b, _dt.timedelta)):
                return Sym(term, "int")
            if ka == "float" or kb == "float":
                return Sym(term, "float", inexact=True)
            return Sym(term, "int")
        if "float" in kinds or isinstance(a, float) or isinstance(b, float):
            return Sym(term, "float", inexact=True)
        if op in ("add", "sub"):
            da = ka == "datetime" or isinstance(a, _dt.datetime)
            db = kb == "datetime" or isinstance(b, _dt.datetime)
            ta = ka == "timedelta" or isinstance(a, _dt.timedelta)
            tb = kb == "timedelta" or isinstance(b, _dt.timedelta)
            if da and db and op == "sub":
                return Sym(term, "timedelta")
            if (da and tb) or (ta and db and op == "add"):
                self.may_raise(run, "OverflowError", self.site(node), "datetime arithmetic")
                base = a if da else b  # datetime +- timedelta keeps the datetime's tzinfo
                tzinfo = base.tzinfo if isinstance(base, _dt.datetime) else (base.info.get("tz", MISSING) if isinstance(base, Sym) else MISSING)
                return Sym(term, "datetime", **({"tz": tzinfo} if tzinfo is not MISSING else {}))
            if ta and tb:
                return Sym(term, "timedelta")
        if op == "mul" and ("timedelta" in kinds or isinstance(a, _dt.timedelta) or isinstance(b, _dt.timedelta)):
            return Sym(term, "timedelta")
        if op == "mod" and ka == "timedelta":
            return Sym(term, "timedelta")
        if op == "add" and (ka in ("bytes", "str", "tuple", "bytearray") or kb in ("bytes", "str", "tuple", "bytearray")):
            k = "bytearray" if "bytearray" in (ka, kb) else (ka or kb)
            la = a.info.get("len") if isinstance(a, Sym) else (len(a) if isinstance(a, (bytes, str, tuple)) else None)
            lb = b.info.get("len") if isinstance(b, Sym) else (len(b) if isinstance(b, (bytes, str, tuple)) else None)
            ln = self.binop("add", la, lb, run, node) if la is not None and lb is not None else None
            return Sym(term, k, len=ln)
        if op == "mod" and (ka == "str" or isinstance(a, str)):
            return Sym(term, "str")
        if op == "or" and (self.is_typeish(a) or self.is_typeish(b)):
            return UnionV((a, b))
        if ka in ("int", "any", None) and kb in ("int", "any", None):
            return Sym(term, "int" if op not in ("div",) else "float")
        self.limit(f"symbolic {op} on kinds {ka}, {kb}", node)

    def sym_unop(self, op, v: Sym, run, node):
        k = self.kind_of(v, run)
        if k in ("int", "bool"):
            bv, lo, hi = self.int_parts(v)
            if op == "USub":
                nb = bv.neg() if bv is not None else None
                return self.mk_int(("neg", v.term), nb, -hi if hi is not None else None, -lo if lo is not None else None)
            if op == "Invert":
                return self.mk_int(("invert", v.term), bv.invert() if bv is not None else None)
            if op == "UAdd":
                return v
        if op == "USub" and k in ("float", "timedelta"):
            return Sym(("neg", v.term), k, **({"inexact": True} if v.info.get("inexact") else {}))
        self.limit(f"symbolic unary {op} on {k}", node)

    def sym_compare(self, op, a, b, run, node):
        ta, tb = kterm(a), kterm(b)
        if ta == tb and op in ("eq", "le", "ge"):
            if not (isinstance(a, Sym) and self.kind_of(a, run) == "float"):
                return True
        if ta == tb and op in ("ne", "lt", "gt"):
            return False
        ka = self.kind_of(a, run) if isinstance(a, Sym) else None
        kb = self.kind_of(b, run) if isinstance(b, Sym) else None
        ba, la, ha = self.int_parts(a, run)
        bb, lb, hb = self.int_parts(b, run)
        intish = lambda v, k: k in ("int", "bool") or (not isinstance(v, Sym) and isinstance(v, int)) or \
            (isinstance(v, EnumMemberV) and isinstance(v.value, int))
        if intish(a, ka) and intish(b, kb):
            INF = float("inf")
            la, lb = (-INF if la is None else la), (-INF if lb is None else lb)
            ha, hb = (INF if ha is None else ha), (INF if hb is None else hb)
            if True:
                if op == "eq" and (ha < lb or hb < la):
                    return False
                if op == "ne" and (ha < lb or hb < la):
                    return True
                if op == "lt":
                    if ha < lb:
                        return True
                    if la >= hb:
                        return False
                if op == "le":
                    if ha <= lb:
                        return True
                    if la > hb:
                        return False
                if op == "gt":
                    if la > hb:
                        return True
                    if ha <= lb:
                        return False
                if op == "ge":
                    if la >= hb:
                        return True
                    if ha < lb:
                        return False
            if op in ("eq", "ne") and ba is not None and bb is not None:
                x = ba ^ bb
                if not x.has_top():
                    if x.is_const():
                        same = x.const_value() == 0
                        return same if op == "eq" else not same
                    if any(b_ == BV.ONE for b_ in x.bits) or x.ext == BV.ONE:
                        return op == "ne"
        elif op in ("eq", "ne"):
            # values of different sorts are never equal
            sort_of = lambda v, k: k if k is not None else (
                "none" if v is None else "str" if isinstance(v, str) else "bytes" if isinstance(v, bytes)
                else "tuple" if isinstance(v, tuple) else "timedelta" if isinstance(v, _dt.timedelta)
                else "datetime" if isinstance(v, _dt.datetime) else "uuid" if isinstance(v, _uuid.UUID)
                else "float" if isinstance(v, float) else "int" if isinstance(v, int)
                else "inst" if isinstance(v, InstV) else "enum" if isinstance(v, EnumMemberV)
                else "missing" if isinstance(v, MissingType) else "any")
            sa, sb = sort_of(a, ka), sort_of(b, kb)
            num = {"int", "bool", "float"}
            if "any" not in (sa, sb) and sa != sb and not (sa in num and sb in num):
                # an optional symbol compared with None stays symbolic
                if not ((sb == "none" and isinstance(a, Sym) and self.maybe_none(a, run))
                        or (sa == "none" and isinstance(b, Sym) and self.maybe_none(b, run))):
                    if not ((isinstance(a, Sym) and self.maybe_none(a, run) and sa != "none") and False):
                        return op == "ne"
                    return op == "ne"
            if (sa == "missing") != (sb == "missing"):
                return op == "ne"
        if op == "ne":
            return Sym(("not", ("eq", ta, tb)), "bool")
        return Sym((op, ta, tb), "bool")

    def sym_contains(self, container, item, run, node):
        if isinstance(container, DictV):
            res = False
            for k in container.d:
                r = self.sym_compare("eq", item, k, run, node)
                if r is True:
                    return True
                if isinstance(r, Sym):
                    if self.sym_truth(r, run, node):
                        return True
            return False
        if isinstance(container, (tuple, frozenset, ListV)):
            seq = container.items if isinstance(container, ListV) else container
            for k in seq:
                r = self.values_equal(item, k, run, node)
                if r is True:
                    return True
                if isinstance(r, Sym) and self.sym_truth(r, run, node):
                    return True
            return False
        return Sym(("in", kterm(item), kterm(container)), "bool")

    # ------------------------------------------------------------------ lookups that fork
    def sym_enum_lookup(self, cls, v: Sym, run, node):
        if len(cls.flags["enum"]) > 8:  # a large enum is a conversion with a raise arm, not a switch
            self.may_raise(run, "ValueError", self.site(node), f"{cls.name}(<run-time value>) with no such member")
            return Sym(("enum-lookup", cls.ref, v.term), "enum", cls=cls, src=v)
        for m in cls.flags["enum"].values():
            r = self.sym_compare("eq", v, m.value, run, node)
            if r is True or (isinstance(r, Sym) and self.sym_truth(r, run, node)):
                return m
        run.emit("raise-site", "ValueError", self.site(node), f"{cls.name}(<wire value>) with no such member")
        self.throw("ValueError", f"{v!r} is not a valid {cls.name}", node)

    def sym_dict_lookup(self, d: DictV, k: Sym, run, node, default=None):
        """d[k] / d.get(k, default) with a symbolic key over a concrete dict: one arm per key + miss."""
        if d.may:
            self.limit("symbolic lookup in a weakly updated dict", node)
        if len(d.d) > 8:
            return self.one_of_lookup([d], k, run, node, default)
        run.emit("switch", k.term, tuple(kterm(x) for x in d.d), self.site(node), "get" if default is not None else "subscript")
        for key, val in d.d.items():
            r = self.sym_compare("eq", k, key, run, node)
            if r is True or (isinstance(r, Sym) and self.sym_truth(r, run, node)):
                return val
        if default is not None:
            return default[0]
        run.emit("raise-site", "KeyError", self.site(node), "lookup keyed by a run-time value has no arm for a miss")
        self.throw_key(k, node)

    def one_of_sym(self, term, values):
        kinds = {"str" if isinstance(v, str) else "int" if isinstance(v, int) and not isinstance(v, bool) else "any" for v in values}
        return Sym(term, kinds.pop() if len(kinds) == 1 else "any", one_of=list(values))

    def one_of_lookup(self, dicts, k, run, node, default=None):
        """Lookup with a run-time key in one of several large concrete dicts: hit (some value) or miss."""
        dterm = tuple(sorted(d.uid for d in dicts))
        kt = kterm(k)
        # a concrete key decides the lookup per candidate dict
        if not isinstance(k, Sym):
            hits = [d.d[k] for d in dicts if k in d.d]
            if len(hits) == len(dicts):
                return self.one_of_sym(("dict-value", dterm, kt), hits)
            if hits:
                if run.decide(("haskey", dterm, kt), self.site(node)):
                    return self.one_of_sym(("dict-value", dterm, kt), hits)
        else:
            values = [v for d in dicts for v in d.d.values()]
            if values and run.decide(("haskey", dterm, kt), self.site(node)):
                return self.one_of_sym(("dict-value", dterm, kt), values)
        if default is not None:
            return default[0]
        run.emit("raise-site", "KeyError", self.site(node), "lookup keyed by a run-time value")
        self.throw_key(k, node)

    # ------------------------------------------------------------------ sequences
    def sym_len(self, v: Sym, run, node):
        k = self.kind_of(v, run)
        ln = v.info.get("len")
        if ln is not None:
            return ln
        if k in ("bytes", "str", "tuple", "any", "range", "bytearray"):
            return Sym(("len", v.term), "int", lo=0)
        if k == "none":
            self.throw("TypeError", "object of type 'NoneType' has no len()", node)
        self.limit(f"len of symbolic {k}", node)

    def sym_unpack(self, v: Sym, n, run, node):
        k = self.kind_of(v, run)
        if k == "bytes":
            ln = v.info.get("len")
            if ln != n:
                run.emit("raise-site", "ValueError", self.site(node), f"unpacking {n} values from bytes of length {ln}")
                if isinstance(ln, int):
                    self.throw("ValueError", "unpack arity", node)
                self.limit("tuple-unpacking bytes of unknown length", node)
            return [Sym(("byte", v.term, i), "int", lo=0, hi=255, bv=BV.atom(("byte", v.term, i), 8, False)) for i in range(n)]
        if k == "tuple":
            ln = v.info.get("len")
            elems = v.info.get("elems")
            if elems is not None:
                if len(elems) != n:
                    self.throw("ValueError", "unpack arity", node)
                return list(elems)
            if isinstance(ln, int) and ln != n:
                self.throw("ValueError", "unpack arity", node)
            et = v.info.get("elem")
            return [self.sym_of_type(("item", v.term, i), et) if et is not None else Sym(("item", v.term, i)) for i in range(n)]
        self.limit(f"unpack of symbolic {k}", node)

    def sym_getitem(self, o, k, run, node):
        if isinstance(o, Sym) and o.info.get("one_of") and all(isinstance(x, DictV) for x in o.info["one_of"]):
            return self.one_of_lookup(o.info["one_of"], k, run, node)
        if isinstance(o, Sym):
            kind = self.kind_of(o, run)
            if kind == "tuple":
                elems = o.info.get("elems")
                if elems is not None and isinstance(k, int):
                    return elems[k]
                et = o.info.get("elem")
                self.may_raise(run, "IndexError", self.site(node), "index into a tuple of unknown length")
                idx = k if isinstance(k, int) and not isinstance(k, bool) else kterm(k)
                return self.sym_of_type(("item", o.term, idx), et) if et is not None else Sym(("item", o.term, idx))
            if kind == "bytes":
                if isinstance(k, tuple) and k and k[0] == "slice":
                    return Sym(("slice", o.term, kterm(k[1]), kterm(k[2])), "bytes")
                ln = o.info.get("len")
                if isinstance(k, int) and not isinstance(k, bool):
                    if isinstance(ln, int):
                        if not (-ln <= k < ln):
                            run.emit("raise-site", "IndexError", self.site(node), "index out of range")
                            self.throw("IndexError", "index out of range", node)
                    else:
                        # bytes of unknown length (a raw read may return fewer bytes than asked for, b"" at end of stream)
                        need = k + 1 if k >= 0 else -k
                        if not run.decide(("ge", ("len", o.term), ("k", need)), self.site(node)):
                            run.emit("raise-site", "IndexError", self.site(node), f"index {k} into bytes that may be shorter (b'' at end of stream)")
                            self.throw("IndexError", "index out of range", node)
                return Sym(("byteat", o.term, kterm(k)), "int", lo=0, hi=255)
            if kind == "any" and o.term[0] in ("maybe",):
                self.limit("subscript of a maybe-value", node)
        seqs = None
        if isinstance(o, (tuple, ListV)) and isinstance(k, Sym):
            seqs = [o]
        elif isinstance(o, Sym) and o.info.get("one_of") and all(isinstance(x, (tuple, ListV)) for x in o.info["one_of"]) and self.kind_of(k, run) == "int" if isinstance(k, Sym) else False:
            seqs = o.info["one_of"]
        if seqs is not None:
            _, lo, _hi = self.int_parts(k, run)
            if lo is None or lo < 0:
                run.emit("note", "negative-index", self.site(node),
                         "a sequence is indexed by a run-time integer that may be negative: negative indices wrap around instead of failing")
            items = [x for s_ in seqs for x in (s_.items if isinstance(s_, ListV) else s_)]
            if items and run.decide(("in-range", kterm(o), k.term), self.site(node)):
                return self.one_of_sym(("item", kterm(o), k.term), items)
            run.emit("raise-site", "IndexError", self.site(node), "sequence index out of range")
            self.throw("IndexError", "index out of range", node)
        self.limit(f"symbolic subscript {o!r}[{k!r}]", node)

    def sym_match_sequence(self, pat, v: Sym, env, run):
        """`case (first, *_, last)` / `case (x,)` on a tuple of unknown length: fork on the length."""
        if self.kind_of(v, run) != "tuple":
            return False
        stars = [i for i, p in enumerate(pat.patterns) if isinstance(p, ast.MatchStar)]
        n = len(pat.patterns)
        ln = self.sym_len(v, run, pat)
        et = v.info.get("elem")
        mk = lambda idx: self.sym_of_type(("item", v.term, idx), et) if et is not None else Sym(("item", v.term, idx))
        if stars:
            need = n - 1
            cond = self.sym_compare("ge", ln, need, run, pat)
            if not self.truth(cond, run, pat):
                return False
            i = stars[0]
            for j, p in enumerate(pat.patterns):
                if isinstance(p, ast.MatchStar):
                    if p.name:
                        env.vars[p.name] = Sym(("slice", v.term, j, j - n + 1), "tuple", elem=et)
                    continue
                idx = j if j < i else j - n  # negative index from the end
                if not self.match_pattern(p, mk(idx), env, run):
                    return False
            return True
        cond = self.sym_compare("eq", ln, n, run, pat)
        if not self.truth(cond, run, pat):
            return False
        for j, p in enumerate(pat.patterns):
            if not self.match_pattern(p, mk(j), env, run):
                return False
        return True

    # ------------------------------------------------------------------ loops with symbolic trip count
    def loop_item(self, it: Sym, run, node):
        """(count term, loop variable value) for iterating a symbolic iterable."""
        if isinstance(it, ListV):
            # a list appended to under a symbolic trip count: iterate it as the weak tuple it denotes
            it = Sym(("tuple", kterm(it)), "tuple", weak_list=it)
        k = self.kind_of(it, run)
        if k == "range":
            return it.info["count"], Sym(("loopvar", next(_ids)), "int", lo=0)
        if k == "tuple":
            et = it.info.get("elem")
            cnt = self.sym_len(it, run, node)
            vals = it.info.get("elem_values")
            wl = it.info.get("weak_list")
            if et is None and isinstance(wl, Sym):
                vals = wl.info.get("elem_values")
            elif et is None and isinstance(wl, ListV):
                vals = list(wl.items) + list(wl.may or [])
            if et is None and vals and all(v is not None for v in vals):
                # the sequence was built by a symbolic comprehension / loop: an item is one of the values its body produced
                if len(vals) > 1 and all(isinstance(v, InstV) and v.cls is vals[0].cls and set(v.attrs) == set(vals[0].attrs) for v in vals):
                    # alternatives of one class: attributes on which they agree stay exact, the others become a choice
                    attrs = {}
                    for a in vals[0].attrs:
                        xs = [v.attrs[a] for v in vals]
                        ts = {kterm(x) for x in xs}
                        if len(ts) == 1:
                            attrs[a] = xs[0]
                        elif all(isinstance(x, Sym) and x.kind == xs[0].kind for x in xs):
                            common = {k: v for k, v in xs[0].info.items() if k != "bv" and all(k in x.info and x.info[k] == v for x in xs[1:])}
                            attrs[a] = Sym(("alt", tuple(sorted(ts, key=repr))), xs[0].kind, **common)
                        else:
                            attrs[a] = Sym(("alt", tuple(sorted(ts, key=repr))), "any", alts=xs)
                    return cnt, InstV(vals[0].cls, attrs)
                i = 0
                while i < len(vals) - 1 and not run.decide(("elem-alt", it.term, i), self.site(node)):
                    i += 1
                return cnt, vals[i]
            var = self.sym_of_type(("elem", it.term), et) if et is not None else Sym(("elem", it.term))
            return cnt, var
        if k == "bytes":
            return self.sym_len(it, run, node), Sym(("elem", it.term), "int", lo=0, hi=255)
        if isinstance(it, Sym) and self.maybe_none(it, run) and k == "none":
            self.throw("TypeError", "'NoneType' object is not iterable", node)
        self.limit(f"iteration over symbolic {k}", node)

    def explore_body(self, run, env, body_fn, node):
        """Enumerate the paths of one iteration of a loop body. Returns list of
        (facts, effects, outcome, value).

        A local that an iteration rebinds and that the body also reads is loop-carried: later iterations find in it what an earlier
        one left there, not what it held before the loop.  The body is therefore explored a second time for every value an
        iteration can leave in such a name (one round: values left by first-round iterations), and those paths are added."""
        snapshot = dict(env.vars)
        base = next(_ids)
        carried = {}  # local names rebound by an iteration that ends normally: what the NEXT iteration finds in them

        def explore_with(snap):
            results, todo = [], [[]]
            while todo:
                dec = todo.pop()
                sub = Run(dec)
                sub.weak = base
                sub.refined = dict(run.refined)
                sub.ranges = dict(run.ranges)
                sub.facts = list(run.facts)
                nfacts = len(sub.facts)
                sub.wires = run.wires + 1000 * (run.loop_depth + 1)
                sub.loop_depth = run.loop_depth + 1
                env.vars.clear()
                env.vars.update(snap)
                try:
                    v = body_fn(sub)
                    out = ("next", v)
                except _Continue:
                    out = ("next", None)
                except _Break:
                    out = ("break", None)
                except _Return as r:
                    out = ("return", r.v)
                except Raised as r:
                    out = ("raise", r.exc)
                results.append((sub.facts[nfacts:], list(sub.effects), out[0], out[1]))
                if out[0] == "next":
                    for nm_, v_ in env.vars.items():
                        if nm_ in snapshot and snapshot[nm_] is not v_ and not (is_concrete(v_) and not isinstance(v_, Obj) and snapshot[nm_] == v_):
                            carried.setdefault(nm_, []).append(v_)
                if len(results) > 256:
                    raise Limit(f"loop body at {self.site(node)} has more than 256 paths")
                for i in range(len(dec), len(sub.decisions)):
                    todo.append(sub.decisions[:i] + [False])
            return results
        results = explore_with(snapshot)
        loaded = set()
        for st in (getattr(node, "body", None) or [node]):
            for n_ in ast.walk(st if isinstance(st, ast.AST) else node):
                if isinstance(n_, ast.Name) and isinstance(n_.ctx, ast.Load):
                    loaded.add(n_.id)
        again = {nm_: vals for nm_, vals in carried.items() if nm_ in loaded}
        if again:
            first_round = dict(again)
            seen_keys = {repr((f_, [e_[:3] for e_ in ef_], o_)) for f_, ef_, o_, _ in results}
            for nm_, vals in sorted(first_round.items()):
                alts = []
                for v_ in vals:
                    if isinstance(v_, Sym):
                        # what an EARLIER iteration computed: a value of its own, not the same-named quantity of the current iteration
                        info_ = {k_: x_ for k_, x_ in v_.info.items() if k_ in ("lo", "hi", "len", "vtype", "cls", "maybe_none", "elem")}
                        v_ = Sym(("prev-iteration", nm_, v_.term), v_.kind, **info_)
                    if not any(v_ is a_ or (isinstance(v_, Sym) and isinstance(a_, Sym) and v_.term == a_.term) or
                               (is_concrete(v_) and not isinstance(v_, Obj) and is_concrete(a_) and not isinstance(a_, Obj) and v_ == a_) for a_ in alts):
                        alts.append(v_)
                if len(alts) > 6:
                    raise Limit(f"loop-carried local {nm_!r} at {self.site(node)} takes more than 6 different values")
                for a_ in alts:
                    snap2 = dict(snapshot)
                    snap2[nm_] = a_
                    for r_ in explore_with(snap2):
                        k_ = repr((r_[0], [e_[:3] for e_ in r_[1]], r_[2]))
                        if k_ not in seen_keys:
                            seen_keys.add(k_)
                            results.append(r_)
                            run.emit("loop-carried", nm_, self.site(node))
        env.vars.clear()
        env.vars.update(snapshot)
        # after the loop a rebound local holds what it held before, or what some iteration left in it: not the pre-loop value
        for nm_, vals in carried.items():
            alts_ = [snapshot.get(nm_)] + list(vals)
            kinds_ = {(self.kind_of(v_, run) if isinstance(v_, Sym) else "int" if isinstance(v_, int) and not isinstance(v_, bool) else
                       "bool" if isinstance(v_, bool) else "none" if v_ is None else "str" if isinstance(v_, str) else
                       "bytes" if isinstance(v_, bytes) else "obj") for v_ in alts_}
            kind_ = next(iter(kinds_)) if len(kinds_) == 1 and "obj" not in kinds_ and "none" not in kinds_ else "any"
            info_ = {}
            if kind_ == "int":
                los_ = [(v_.info.get("lo") if isinstance(v_, Sym) else v_) for v_ in alts_]
                his_ = [(v_.info.get("hi") if isinstance(v_, Sym) else v_) for v_ in alts_]
                if all(x_ is not None for x_ in los_):
                    info_["lo"] = min(los_)
                if all(x_ is not None for x_ in his_):
                    info_["hi"] = max(his_)
            if "none" in kinds_:
                info_["maybe_none"] = True
            env.vars[nm_] = Sym(("loop-exit", nm_, self.site(node)), kind_, alts=alts_, **info_)
        return results

    def sym_for(self, s: ast.For, it, env, run):
        cnt, var = self.loop_item(it, run, s)

        def body(sub):
            self.assign(s.target, var, env, sub)
            self.exec_block(s.body, env, sub)
        paths = self.explore_body(run, env, body, s)
        self.running_extremum(s, cnt, env, run)
        run.emit("repeat", kterm(cnt), paths, self.site(s), "for")
        for facts, effs, outcome, val in paths:
            if outcome == "return":
                run.emit("early-return", self.site(s))
        if s.orelse:
            self.exec_block(s.orelse, env, run)

    def running_extremum(self, s, cnt, env, run):
        """`if N is None or x > N: N = x` (or `if x > N:` with N seeded before the loop) as the only rebinding of N in the loop body:
        after the loop N is the maximum (minimum for `<`) of the x of all iterations, and of its seed.  The unknown post-loop value of
        such a local is replaced by that term (the same one max(<generator>) yields)."""
        for nm, v in list(env.vars.items()):
            if not (isinstance(v, Sym) and isinstance(v.term, tuple) and v.term[:2] == ("loop-exit", nm)):
                continue
            assigns = [n for st in s.body for n in ast.walk(st)
                       if isinstance(n, (ast.Assign, ast.AugAssign, ast.AnnAssign, ast.NamedExpr)) and
                       any(isinstance(x, ast.Name) and x.id == nm for t in (n.targets if isinstance(n, ast.Assign) else [n.target]) for x in ast.walk(t))]
            if len(assigns) != 1 or not isinstance(assigns[0], ast.Assign) or not isinstance(assigns[0].value, ast.Name):
                continue
            x = assigns[0].value.id
            iff = next((n for st in s.body for n in ast.walk(st) if isinstance(n, ast.If) and n.body == [assigns[0]] and not n.orelse), None)
            if iff is None:
                continue
            t = iff.test
            none_guard = False
            if isinstance(t, ast.BoolOp) and isinstance(t.op, ast.Or) and len(t.values) == 2 and ast.unparse(t.values[0]) == f"{nm} is None":
                none_guard, t = True, t.values[1]
            which = None
            if isinstance(t, ast.Compare) and len(t.ops) == 1:
                l, r, op = ast.unparse(t.left), ast.unparse(t.comparators[0]), t.ops[0]
                if (l, r) == (x, nm):
                    which = "max" if isinstance(op, (ast.Gt, ast.GtE)) else "min" if isinstance(op, (ast.Lt, ast.LtE)) else None
                elif (l, r) == (nm, x):
                    which = "max" if isinstance(op, (ast.Lt, ast.LtE)) else "min" if isinstance(op, (ast.Gt, ast.GtE)) else None
            if which is None:
                continue
            alts = v.info.get("alts") or []
            init, xs = (alts[0] if alts else None), [a for a in alts[1:] if isinstance(a, Sym)]
            terms = {a.term[2] if a.term[:1] == ("prev-iteration",) else a.term for a in xs}
            if len(terms) != 1 or (init is None) != none_guard:
                continue
            xt = next(iter(terms))
            seq = ("repeat", kterm(cnt), (xt,))
            kind = xs[0].kind
            if init is None:
                # empty sequence: stays None (the code after the loop has to deal with it, as max() of an empty sequence raises)
                env.vars[nm] = Sym((which, seq), kind, maybe_none=True)
            else:
                env.vars[nm] = Sym((which, seq, kterm(init)), kind)

    def sym_comp(self, e, it, env, run):
        if len(e.generators) != 1:
            self.limit("nested symbolic comprehension", e)
        g = e.generators[0]
        cnt, var = self.loop_item(it, run, e)

        def body(sub):
            self.assign(g.target, var, env, sub)
            for c in g.ifs:
                if not self.truth(self.ev(c, env, sub), sub, c):
                    raise _Continue()
            return self.ev(e.elt, env, sub)
        paths = self.explore_body(run, env, body, e)
        run.emit("repeat", kterm(cnt), paths, self.site(e), "comprehension")
        vals = [v for _, _, o, v in paths if o == "next"]
        elem_term = tuple(kterm(v) for v in vals)
        return Sym(("repeat", kterm(cnt), elem_term), "tuple", len=cnt, elem_values=vals)

    # ------------------------------------------------------------------ attributes / methods of symbols
    PROPS = {"datetime": {"microsecond": ("int", dict(lo=0, hi=999999)), "second": ("int", dict(lo=0, hi=59)),
                          "tzinfo": ("any", dict(maybe_none=True)), "year": ("int", {}), "month": ("int", {}), "day": ("int", {})},
             "timedelta": {"days": ("int", {}), "seconds": ("int", dict(lo=0, hi=86399)),
                           "microseconds": ("int", dict(lo=0, hi=999999))},
             "uuid": {"bytes": ("bytes", dict(len=16)), "int": ("int", dict(lo=0))},
             "enum": {"name": ("str", {})}}

    def sym_getattr(self, o: Sym, name, run, node):
        k = self.kind_of(o, run)
        if self.maybe_none(o, run) and k != "none":
            # attribute access on a possibly-None value: fork; the None arm raises AttributeError
            isn = run.decide(("is", o.term, ("k", None)), self.site(node))
            self.refine_none(o, run, isn)
            if isn:
                run.emit("raise-site", "AttributeError", self.site(node), f".{name} on a value that may be None")
                self.throw("AttributeError", f"'NoneType' object has no attribute {name!r}", node)
            k = self.kind_of(o, run)
        if k == "none":
            run.emit("raise-site", "AttributeError", self.site(node), f".{name} on None")
            self.throw("AttributeError", f"'NoneType' object has no attribute {name!r}", node)
        if k == "inst":
            cls = o.info.get("cls") or self.vtype(o, run)
            if isinstance(cls, ClassV):
                for f in (self.fields_of(cls) if (cls.entity is not None or "dataclass" in cls.flags) else []):
                    if f.name == name:
                        return self.sym_of_type(("attr", o.term, name), f.type, field=f)
                v = self.class_lookup(cls, name)
                if v is not None:
                    return self.bind_descr(v, o, cls)
                if name == "__class__":
                    return cls
                self.throw("AttributeError", f"{cls.name} has no attribute {name}", node)
        if k == "enum":
            cls = o.info.get("cls")
            if name in ("value", "_value_"):
                vals = [m.value for m in cls.flags["enum"].values()] if cls is not None else []
                if vals and all(isinstance(x, int) for x in vals):
                    lo, hi = min(vals), max(vals)
                    if cls is not None and any(isinstance(c, LibClass) and c.name == "int" for c in cls.mro):
                        # IntEnum created through i16(): value is an i16
                        lo, hi = min(lo, -(2 ** 15)), max(hi, 2 ** 15 - 1)
                    return Sym(("attr", o.term, "value"), "int", lo=lo, hi=hi,
                               bv=self.bv_for_range(("attr", o.term, "value"), lo, hi))
                return Sym(("attr", o.term, "value"))
            if cls is not None:
                any_m = next(iter(cls.flags["enum"].values()), None)
                if any_m is not None and name in any_m.attrs:
                    return Sym(("attr", o.term, name))
        if k == "datetime":
            rep = o.info.get("replaced") or {}
            if name in rep:
                return rep[name]
            if name == "tzinfo" and "tz" in o.info:
                return o.info["tz"]
        if k in self.PROPS and name in self.PROPS[k]:
            kind, info = self.PROPS[k][name]
            return Sym(("attr", o.term, name), kind, **info)
        if k == "stream":
            self.limit("symbolic stream", node)
        if k in ("int", "bool") and name in ("to_bytes", "bit_length"):
            return BoundV(LibFn.get("symm." + name), o)
        if k in ("bytes", "str", "datetime", "timedelta", "float", "tuple", "uuid", "any"):
            return BoundV(LibFn.get("symm." + name), o)
        self.limit(f"attribute {name} of symbolic {k} {o!r}", node)

    def sym_method(self, o, name, a, kw, run, node):
        """Method `name` on receiver o (symbolic, or concrete with symbolic args)."""
        if isinstance(o, _dt.timezone) and name in ("utcoffset", "dst", "tzname"):
            return getattr(o, name)(None)  # a fixed-offset timezone ignores its argument
        if isinstance(o, Sym) and o.info.get("one_of") and is_concrete(tuple(a)) and is_concrete(tuple(kw.values())):
            cands = o.info["one_of"]
            if all(isinstance(c, (str, bytes, int)) for c in cands):
                try:
                    res = [getattr(c, name)(*a, **kw) for c in cands]
                except Exception as e:
                    self.limit(f"method {name} on candidate values raises {e!r}", node)
                res = [ListV(r) if isinstance(r, list) else r for r in res]
                if all(isinstance(r, ListV) for r in res) and len({len(r.items) for r in res}) == 1:
                    n = len(res[0].items)
                    return ListV([self.one_of_sym((name, kterm(o), i), [r.items[i] for r in res]) for i in range(n)])
                if all(isinstance(r, tuple) for r in res) and len({len(r) for r in res}) == 1:
                    n = len(res[0])  # str.partition and friends: one candidate-correlated symbol per position
                    outs = tuple(self.one_of_sym((name, kterm(o), tuple(kterm(x) for x in a), i), [r[i] for r in res]) for i in range(n))
                    if name in ("partition", "rpartition"):
                        for i, x in enumerate(outs):
                            if isinstance(x, Sym):
                                x.info["part_of"], x.info["part_index"] = o, i
                            else:
                                return outs  # a constant part: no bookkeeping
                    return outs
                return self.one_of_sym((name, kterm(o)), res)
        k = self.kind_of(o, run) if isinstance(o, Sym) else {
            bytes: "bytes", str: "str", int: "int", float: "float", _dt.datetime: "datetime", _dt.timedelta: "timedelta",
            _uuid.UUID: "uuid", tuple: "tuple"}.get(type(o), "any")
        t = kterm(o)
        if k == "bytes" and name == "join" and isinstance(o, bytes) and len(a) == 1 and not kw and isinstance(a[0], (ListV, tuple)) \
                and not (isinstance(a[0], ListV) and a[0].may):
            parts = list(a[0].items if isinstance(a[0], ListV) else a[0])
            if all(isinstance(x, bytes) or (isinstance(x, Sym) and self.kind_of(x, run) == "bytes") for x in parts):
                lens = [len(x) if isinstance(x, bytes) else x.info.get("len") for x in parts]
                total = None
                if all(l is not None for l in lens):
                    total = len(o) * max(len(parts) - 1, 0)
                    for l in lens:
                        total = self.binop("add", total, l, run, node)
                return Sym(("join", kterm(o), tuple(kterm(x) for x in parts)), "bytes", len=total, parts=parts)
        at = tuple(kterm(x) for x in a) + tuple((kk, kterm(v)) for kk, v in sorted(kw.items()))
        site = self.site(node)
        if k in ("str", "bytes", "any") and name in ("partition", "rpartition") and len(a) == 1 and not kw and \
                (k != "any" or isinstance(a[0], str)):
            kind = "bytes" if k == "bytes" else "str"  # always a 3-tuple: (head, separator or empty, tail)
            return tuple(Sym((name, t, at, i), kind, part_of=o, part_index=i) for i in range(3))
        if k == "bytes" and name == "decode":
            self.may_raise(run, "UnicodeDecodeError", site, "bytes.decode of wire data")
            codec = (a[0] if a else kw.get("encoding", "utf-8"), a[1] if len(a) > 1 else kw.get("errors", "strict"))
            return Sym(("decode", t, codec), "str", codec=codec)
        if k == "str" and name == "encode":
            codec = (a[0] if a else kw.get("encoding", "utf-8"), a[1] if len(a) > 1 else kw.get("errors", "strict"))
            return Sym(("encode", t, codec), "bytes", codec=codec, len=Sym(("len", ("encode", t, codec)), "int", lo=0))
        if k in ("int", "bool") and name == "bit_length" and not a and not kw:
            return Sym(("bit_length", t), "int", lo=0)
        if k in ("int", "bool") and name == "to_bytes":
            length = a[0] if a else kw.get("length", 1)
            order = a[1] if len(a) > 1 else kw.get("byteorder", "big")
            signed = kw.get("signed", False)
            bv, lo, hi = self.int_parts(o)
            if isinstance(length, int) and not signed:
                if lo is None or hi is None or lo < 0 or hi >= (1 << (8 * length)):
                    self.may_raise(run, "OverflowError", site, "int.to_bytes of a value not known to fit")
            return Sym(("to_bytes", t, kterm(length), kterm(order), kterm(signed)), "bytes", len=length,
                       intval=o, order=order, signed=signed)
        if k == "datetime":
            if name == "replace":
                rep = dict(o.info.get("replaced") or {}) if isinstance(o, Sym) else {}
                rep.update(kw)
                extra = {}
                tz = kw.get("tzinfo", o.info.get("tz", MISSING) if isinstance(o, Sym) else MISSING)
                if tz is not MISSING:
                    extra["tz"] = tz
                return Sym(("replace", t, at), "datetime", replaced=rep, base=o, **extra)
            if name == "timestamp":
                return Sym(("timestamp", t), "float", inexact=True, unit="s")
            if name in ("utctimetuple", "timetuple"):
                if name == "utctimetuple":
                    # converts to UTC first: leaves year 1..9999 for values within their offset of datetime.min / datetime.max
                    self.may_raise(run, "OverflowError", self.site(node), "utctimetuple() of a datetime within its UTC offset of datetime.min/max")
                return Sym((name, t), "timetuple", of=o)
            if name == "astimezone":
                # converts through UTC: leaves year 1..9999 for values within their offset of datetime.min / datetime.max
                self.may_raise(run, "OverflowError", self.site(node), "astimezone() of a datetime within its UTC offset of datetime.min/max")
            if name in ("utcoffset", "astimezone", "isoformat", "date", "time"):
                return Sym((name, t, at), "any" if name == "utcoffset" else "datetime" if name == "astimezone" else "any")
        if k == "timedelta":
            if name == "total_seconds":
                return Sym(("total_seconds", t), "float", inexact=True, unit="s")
        if k == "any" and name == "utcoffset":
            return Sym(("utcoffset", t, at), "any", opaque_none=True, maybe_none=True)
        if k == "float" and name in ("is_integer", "hex"):
            return Sym((name, t), "bool" if name == "is_integer" else "str")
        if k == "bytes" and name in ("hex",):
            return Sym((name, t), "str")
        if name == "join" and o in ("", b"") and len(a) == 1 and isinstance(a[0], (tuple, ListV)):
            parts = list(a[0].items if isinstance(a[0], ListV) else a[0])
            if len(parts) == 3 and all(isinstance(x, Sym) and x.info.get("part_index") == i for i, x in enumerate(parts)) \
                    and len({id(x.info.get("part_of")) for x in parts}) == 1:
                return parts[0].info["part_of"]  # head + separator + tail of one partition is the string that was partitioned
        if k == "str" and name in ("lower", "upper", "strip", "capitalize", "removesuffix", "removeprefix", "format", "join"):
            return Sym((name, t, at), "str")
        if k == "str" and name in ("startswith", "endswith", "isidentifier", "islower", "isupper", "isdigit"):
            return Sym((name, t, at), "bool")
        if k == "str" and name == "split":
            return Sym((name, t, at), "tuple", elem=LibClass.get("str"))
        self.limit(f"method {name} on symbolic {k}", node)

    def sym_call(self, fn: Sym, args, kwargs, run, node):
        self.limit(f"call of a symbolic value {fn!r}", node)

    # ------------------------------------------------------------------ library calls with symbolic arguments
    def sym_call_lib(self, name, a, kw, run, node):
        site = self.site(node)
        ta = tuple(kterm(x) for x in a) + tuple((k, kterm(v)) for k, v in sorted(kw.items()))
        if name.startswith("symm."):
            return self.sym_method(a[0], name[5:], a[1:], kw, run, node)
        if name in ("struct.Struct.pack", "struct.Struct.unpack") and a and isinstance(a[0], InstV):
            return self.call_lib("struct." + name.rsplit(".", 1)[1], [a[0].attrs["format"]] + list(a[1:]), kw, run, node)
        if name == "calendar.timegm":
            return Sym(("timegm", ta), "int", unit="s")
        if name == "struct.pack":
            fmt = a[0]
            if not isinstance(fmt, str):
                self.limit("struct.pack with a non-constant format", node)
            try:
                size = _struct.calcsize(fmt)
            except _struct.error:
                self.throw("struct.error", "bad format", node)
            codes = [c for c in fmt if c.isalpha() or c == "?"]
            plain = not any(ch.isdigit() for ch in fmt) and "x" not in fmt and len(codes) == len(a) - 1
            if plain:
                for code, val in zip(codes, a[1:]):
                    if code not in FMT_RANGE:
                        continue
                    bits, signed = FMT_RANGE[code]
                    flo, fhi = (-(1 << (bits - 1)), (1 << (bits - 1)) - 1) if signed else (0, (1 << bits) - 1)
                    _, lo, hi = self.int_parts(val, run)
                    kv = self.kind_of(val, run) if isinstance(val, Sym) else ("int" if isinstance(val, int) else "any")
                    fits = lo is not None and hi is not None and flo <= lo and hi <= fhi
                    if kv not in ("int", "bool"):
                        self.may_raise(run, "struct.error", site, f"struct.pack({fmt!r}) of a {kv} value")
                    elif not fits:
                        self.may_raise(run, "struct.error", site, f"struct.pack({fmt!r}) of a value not known to fit")
            return Sym(("pack", fmt) + ta[1:], "bytes", len=size, fmt=fmt, packed=list(a[1:]))
        if name == "struct.unpack":
            fmt, data = a
            if not isinstance(fmt, str):
                self.limit("struct.unpack with a non-constant format", node)
            size = _struct.calcsize(fmt)
            ln = data.info.get("len") if isinstance(data, Sym) else len(data)
            if ln != size:
                run.emit("raise-site", "struct.error", site, f"struct.unpack({fmt!r}) needs {size} bytes, buffer has {ln!r}")
                if isinstance(ln, int):
                    self.throw("struct.error", "unpack requires a buffer of the right size", node)
                self.may_raise(run, "struct.error", site, "buffer length not known to equal calcsize")
            codes = [c for c in fmt if c.isalpha() or c == "?"]
            out = []
            for i, c in enumerate(codes):
                term = ("unpack", fmt, kterm(data), i)
                if c in FMT_RANGE:
                    bits, signed = FMT_RANGE[c]
                    lo, hi = (-(1 << (bits - 1)), (1 << (bits - 1)) - 1) if signed else (0, (1 << bits) - 1)
                    out.append(Sym(term, "int", lo=lo, hi=hi, bv=BV.atom(term, bits, signed), fmt=fmt, src=data))
                elif c == "?":
                    out.append(Sym(term, "bool", fmt=fmt, src=data))
                elif c in "df":
                    out.append(Sym(term, "float", fmt=fmt, src=data))
                else:
                    out.append(Sym(term, "any", fmt=fmt, src=data))
            return tuple(out)
        if name == "len":
            return self.sym_len(a[0], run, node)
        if name == "round":
            v = a[0]
            if len(a) > 1:
                return Sym(("round", ta), "float", inexact=True)
            return Sym(("round", kterm(v)), "int", conv="round", src=v)
        if name in ("math.floor", "math.trunc", "math.ceil"):
            return Sym((name, kterm(a[0])), "int", conv=name.split(".")[1], src=a[0])
        if name in ("max", "min"):
            v = a[0] if len(a) == 1 else tuple(a)
            if isinstance(v, Sym) and v.info.get("elem_values"):
                ev0 = v.info["elem_values"][0]
                k = self.kind_of(ev0, run) if isinstance(ev0, Sym) else "any"
                self.may_raise(run, "ValueError", site, f"{name}() of a possibly empty sequence")
                return Sym((name, kterm(v)), k, **{kk: vv for kk, vv in (ev0.info.items() if isinstance(ev0, Sym) else []) if kk in ("vtype", "cls")})
            if isinstance(v, tuple):
                k = next((self.kind_of(x, run) for x in v if isinstance(x, Sym)), "any")
                return Sym((name, kterm(v)), k)
            if isinstance(v, Sym) and self.kind_of(v, run) == "tuple":
                et = v.info.get("elem")
                self.may_raise(run, "ValueError", site, f"{name}() of a possibly empty sequence")
                return self.sym_of_type((name, v.term), et) if et is not None else Sym((name, v.term))
        if name == "abs":
            return Sym(("abs", kterm(a[0])), self.kind_of(a[0], run))
        if name == "divmod":
            x, y = a
            kx = self.kind_of(x, run) if isinstance(x, Sym) else None
            if kx == "timedelta":
                q = Sym(("floordiv", kterm(x), kterm(y)), "int")
                r = Sym(("mod", kterm(x), kterm(y)), "timedelta")
            else:
                q = Sym(("floordiv", kterm(x), kterm(y)), "int")
                r = Sym(("mod", kterm(x), kterm(y)), "int")
            return (q, r)
        if name == "crc32c.crc32c":
            return Sym(("crc32c", kterm(a[0])), "int", lo=0, hi=2 ** 32 - 1, crc_of=a[0])
        if name == "math.isfinite":
            return Sym(("isfinite", kterm(a[0])), "bool")
        if name == "datetime.datetime.fromtimestamp":
            self.may_raise(run, "OverflowError", site, "datetime.fromtimestamp of wire data")
            self.may_raise(run, "ValueError", site, "datetime.fromtimestamp of wire data")
            run.emit("note", "OSError", site, "datetime.fromtimestamp may raise OSError on some platforms (observation O3)")
            tz = a[1] if len(a) > 1 else kw.get("tz")
            return Sym(("fromtimestamp", ta), "datetime", src=a[0], tz=tz)
        if name == "repr" or name == "format":
            return Sym((name, ta), "str")
        if name == "hash":
            return Sym(("hash", ta), "int")
        if name == "dataclasses.fields":
            self.limit("fields() of a symbolic value", node)
        if name == "pkgutil.resolve_name":
            cands = a[0].info.get("one_of") if isinstance(a[0], Sym) else None
            if cands and all(isinstance(c, str) for c in cands):
                out = []
                for c in dict.fromkeys(cands):
                    out.append(self.call_lib(name, [c], {}, run, node))  # raises if one candidate does not resolve
                return self.one_of_sym(("resolve_name", ta), out)
            self.may_raise(run, "ImportError", site, "resolve_name of a run-time string")
            return Sym(("resolve_name", ta), "any")
        if name == "isinstance":
            return self.isinstance_(a[0], a[1], run, node)
        if name == "int.from_bytes":
            data = a[0]
            order = a[1] if len(a) > 1 else kw.get("byteorder", "big")
            signed = kw.get("signed", False)
            ln = data.info.get("len") if isinstance(data, Sym) else len(data)
            if isinstance(ln, int) and isinstance(order, str):
                fmtc = {(1, False): "B", (1, True): "b", (2, False): "H", (2, True): "h", (4, False): "I", (4, True): "i",
                        (8, False): "Q", (8, True): "q"}.get((ln, bool(signed)))
                if fmtc:
                    fmt = (">" if order == "big" else "<") + fmtc
                    term = ("unpack", fmt, kterm(data), 0)
                    lo, hi = (-(1 << (8 * ln - 1)), (1 << (8 * ln - 1)) - 1) if signed else (0, (1 << (8 * ln)) - 1)
                    return Sym(term, "int", lo=lo, hi=hi, bv=BV.atom(term, 8 * ln, bool(signed)), fmt=fmt, src=data)
            return Sym(("from_bytes", ta), "int")
        self.limit(f"library function {name} with symbolic arguments", node)

    def sym_call_libclass(self, c: LibClass, a, kw, run, node):
        n = c.name
        site = self.site(node)
        ta = tuple(kterm(x) for x in a) + tuple((k, kterm(v)) for k, v in sorted(kw.items()))
        if n == "int":
            v = a[0]
            k = self.kind_of(v, run) if isinstance(v, Sym) else None
            if k in ("int", "bool"):
                return v
            if k == "float":
                self.may_raise(run, "OverflowError", site, "int() of a float that may be infinite")
                return Sym(("int", kterm(v)), "int", conv="trunc", src=v)
            if k == "enum":
                return self.sym_getattr(v, "value", run, node)
            self.may_raise(run, "ValueError", site, "int() of a non-numeric value")
            return Sym(("int", kterm(v)), "int")
        if n == "float":
            if len(a) == 1 and not kw and isinstance(a[0], Sym) and self.kind_of(a[0], run) == "float":
                return a[0]  # float() of a float is that value
            return Sym(("float", ta), "float", inexact=True)
        if n == "str":
            return Sym(("str", ta), "str")
        if n == "bool":
            return self.truth(a[0], run, node)
        if n == "bytearray":
            v = a[0] if a else b""
            return Sym(("bytearray", kterm(v), next(_ids)), "bytearray", len=v.info.get("len") if isinstance(v, Sym) else None, mutable=True)
        if n == "bytes":
            v = a[0] if a else None
            if isinstance(v, Sym) and v.kind == "bytearray":
                return Sym(("bytes", v.term), "bytes", len=v.info.get("len"))
            if isinstance(v, (tuple, ListV)):
                items = list(v.items if isinstance(v, ListV) else v)
                for x in items:
                    _, lo, hi = self.int_parts(x, run) if isinstance(x, (Sym, int)) else (None, None, None)
                    if lo is None or hi is None or lo < 0 or hi > 255:
                        self.may_raise(run, "ValueError", site, "bytes() of an integer not known to be in range(256)")
                return Sym(("bytes-of", tuple(kterm(x) for x in items)), "bytes", len=len(items), byte_values=items)
            return Sym(("bytes", ta), "bytes")
        if n == "tuple":
            v = a[0]
            if isinstance(v, Sym) and self.kind_of(v, run) == "tuple":
                return v
            if isinstance(v, ListV) and v.may is not None:
                return Sym(("tuple", kterm(v)), "tuple", weak_list=v)
            if isinstance(v, (tuple, ListV)):
                return tuple(v.items if isinstance(v, ListV) else v)
            if isinstance(v, Sym) and self.kind_of(v, run) == "bytes":
                return Sym(("tuple", v.term), "tuple", len=v.info.get("len"))
        if n == "range":
            if len(a) == 1:
                cnt = a[0]
                if isinstance(cnt, Sym) and self.kind_of(cnt, run) not in ("int", "bool"):
                    run.emit("raise-site", "TypeError", site, "range() of a non-integer")
                    self.throw("TypeError", "range() integer argument expected", node)
                return Sym(("range", kterm(cnt)), "range", count=cnt)
            self.limit("range() with several symbolic bounds", node)
        if n == "datetime.timedelta":
            self.may_raise(run, "OverflowError", site, "timedelta() of wire data")
            for v in list(a) + list(kw.values()):
                if isinstance(v, Sym) and self.kind_of(v, run) == "float" and v.info.get("inexact"):
                    pass
            return Sym(("timedelta", ta), "timedelta", args=dict(kw), pos=list(a))
        if n == "uuid.UUID":
            b = kw.get("bytes")
            if b is not None:
                ln = b.info.get("len") if isinstance(b, Sym) else len(b)
                if ln != 16:
                    self.may_raise(run, "ValueError", site, "UUID(bytes=) of a value not known to be 16 bytes")
            return Sym(("UUID", ta), "uuid", src=b)
        if n == "io.BytesIO":
            s = StreamV("local", site=site, init=a[0] if a else None)
            run.emit("alloc", s, site, a[0] if a else None)
            return s
        if n == "list":
            v = a[0]
            if isinstance(v, Sym):
                return v
        if n == "dict":
            self.limit("dict() of a symbolic value", node)
        if c in LibClass.get("BaseException").mro or LibClass.get("BaseException") in c.mro:
            return InstV(c, {"args": tuple(a)})
        self.limit(f"{n}() with symbolic arguments", node)

    # ------------------------------------------------------------------ streams
    def stream_method(self, name, s: StreamV, a, kw, run, node):
        site = self.site(node)
        if name == "read":
            n = a[0] if a else kw.get("size", None)
            w = run.fresh_wire()
            term = ("wire", w, s.uid)
            run.emit("read", s, n, term, site)
            if self.stream_fault_hook is not None and s.kind == "param":
                self.stream_fault_hook(run, s, "read", term, site)
            return Sym(term, "bytes", raw_read=True, size=n, stream=s)
        if name == "write":
            b0 = a[0] if a else None
            if isinstance(b0, Sym) and b0.term[0] == "pack" and len(b0.info.get("packed") or []) > 1:
                # one write of several packed fields = the same bytes as one write per field, in order
                fmt = b0.info["fmt"]
                order = fmt[0] if fmt and fmt[0] in "<>=!@" else ""
                codes = [c for c in fmt if c.isalpha() or c == "?"]
                if not any(ch.isdigit() for ch in fmt) and "x" not in fmt and len(codes) == len(b0.info["packed"]) and order in (">", "<", "!", "="):
                    def one(code, val):
                        f1 = order + code
                        if isinstance(val, (int, float, bool)) and not isinstance(val, Obj):
                            try:
                                return _struct.pack(f1, val)  # a constant field packs to constant bytes
                            except _struct.error:
                                pass
                        return Sym(("pack", f1, kterm(val)), "bytes", len=_struct.calcsize(f1), fmt=f1, packed=[val])
                    for code, val in zip(codes[:-1], b0.info["packed"][:-1]):
                        run.emit("write", s, one(code, val), ("write-result", s.uid, len(run.effects)), site)
                    a = [one(codes[-1], b0.info["packed"][-1])]
            res = ("write-result", s.uid, len(run.effects))
            run.emit("write", s, a[0] if a else None, res, site)
            if self.stream_fault_hook is not None and s.kind == "param":
                self.stream_fault_hook(run, s, "write", res, site)
            return Sym(res, "int", lo=0)
        if name == "getvalue":
            run.emit("getvalue", s, site)
            contents = [e for e in run.effects if e[0] in ("write", "codec-w", "atom-w") and e[1] is s]
            return Sym(("contents", s.uid, len(run.effects)), "bytes", contents_of=s, snapshot=len(run.effects),
                       len=Sym(("len", ("contents", s.uid, len(run.effects))), "int", lo=0))
        if name == "tell":
            run.emit("tell", s, site)
            # position of a local buffer = sum of the constant-size exact reads/writes performed on it so far
            pos, known = 0, s.kind == "local"
            for e in run.effects:
                if len(e) > 1 and e[1] is s:
                    if e[0] == "xread" and isinstance(e[2], int):
                        pos += e[2]
                    elif e[0] in ("alloc", "tell", "getvalue"):
                        pass
                    elif e[0] == "seek" and isinstance(e[2], int):
                        pos = e[2]
                    else:
                        known = False
            if known:
                return pos
            return Sym(("tell", s.uid, len(run.effects)), "int", lo=0, tell_of=s, snapshot=len(run.effects))
        if name == "seek":
            run.emit("seek", s, a[0] if a else None, site)
            return a[0] if a else 0
        if name in ("close", "flush"):
            run.emit(name, s, site)
            return None
        if name in ("__enter__",):
            return s
        run.emit("stream-other", s, name, site)
        if name in ("readline", "readlines", "read1", "peek", "readinto", "getbuffer", "writelines", "truncate",
                    "fileno", "readable", "writable", "seekable", "drain", "write_eof", "detach"):
            return Sym(("stream-" + name, s.uid, len(run.effects)), "any")
        self.limit(f"stream method {name!r} is not modelled", node)
