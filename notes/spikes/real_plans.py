import json, importlib, pkgutil, dataclasses, time
from kio.serial import entity_reader, entity_writer
import kio.schema
cs = json.load(open('/tmp/explore/ssm.json'))
def cells(fn):
    return dict(zip(fn.__code__.co_freevars, [c.cell_contents for c in (fn.__closure__ or ())]))
def describe(fn):
    q = fn.__qualname__
    c = cells(fn)
    if q.endswith('read_compact_array') or q.endswith('write_compact_array') or q.endswith('write_legacy_array'):
        fac = q.split('.')[0]
        item = c.get('item_reader') or c.get('item_writer')
        return [fac, describe(item)]
    if q.endswith('read_entity') or q.endswith('write_entity'): return ['closure', q.split('.')[-1], None]
    if q.endswith('read_nullable_entity'): return ['closure', 'read_nullable_entity', None]
    if q.endswith('write_nullable'): return ['closure', 'write_nullable', None]
    return fn.__name__
def unwrap(fn):
    # nullable wrappers
    return fn
out = {}
t0=time.time()
for c in cs:
    mod = importlib.import_module(f"kio.schema.{c['api']}.v{c['ver']}.{c['typ']}")
    T = getattr(mod, c['name'])
    for d, fac, a, b in (('r', entity_reader, 'field_readers', 'tagged_field_readers'), ('w', entity_writer, 'field_writers', 'tagged_field_writers')):
        fn = fac(T)
        cc = cells(fn)
        fr = [[f.name, describe(v)] for f, v in cc[a].items()]
        tr = [[tag, f.name, describe(v), repr(dflt)] for tag, (f, v, dflt) in cc[b].items()]
        out['|'.join(map(str, (c['api'], c['ver'], c['typ'], c['name']))) + '|' + d] = [fr, tr]
print(len(out), round(time.time()-t0,1))
json.dump(out, open('/tmp/explore/plans_real.json','w'))
